#!/venv/bin/python
"""mc/run_all.py [--tier quick|thorough] [IDs...]: runs the registered checks one after the other against /repo and
records exit status, wall time and the coverage numbers of each evidence file in mc/summary_<tier>.json."""
import argparse
import json
import os
import subprocess
import sys
import time

VERIF = os.path.dirname(os.path.dirname(os.path.abspath(__file__)))


def main():
    ap = argparse.ArgumentParser()
    ap.add_argument('ids', nargs='*')
    ap.add_argument('--tier', default='quick')
    ap.add_argument('--seed', default='0')
    a = ap.parse_args()
    man = json.load(open(os.path.join(VERIF, 'MANIFEST.json')))
    ids = a.ids or [c['property_id'] for c in man['checks']]
    sp = os.path.join(VERIF, 'mc', 'summary_%s.json' % a.tier)
    summ = json.load(open(sp)) if os.path.exists(sp) else {}
    head = subprocess.run(['git', '-C', '/repo', 'rev-parse', '--short', 'HEAD'], stdout=subprocess.PIPE, text=True).stdout.strip()
    for pid in ids:
        env = dict(os.environ, VERIF_SEED=a.seed)
        t0 = time.time()
        r = subprocess.run([os.path.join(VERIF, 'check'), pid, '--tier', a.tier], cwd=VERIF, env=env,
                           stdout=subprocess.PIPE, stderr=subprocess.STDOUT, text=True)
        wall = time.time() - t0
        ev = json.load(open(os.path.join(VERIF, 'evidence', pid + '.json')))
        c = ev['coverage']
        summ[pid] = {'exit': r.returncode, 'wall_s': round(wall, 1), 'repo_head': head, 'seed': int(a.seed),
                     'violations': ev.get('violations'), 'evaluations': c.get('evaluations'),
                     'distinct_nontrivial': c.get('distinct_nontrivial'), 'states': c.get('states'),
                     'transitions': c.get('transitions'), 'max_depth_completed': c.get('max_depth_completed'),
                     'exhaustive': c.get('exhaustive'), 'caps_hit': c.get('caps_hit'),
                     'known_findings_hit': [k['key'] for k in ev.get('known_findings_hit', [])]}
        print('%s %s exit=%d wall=%.0fs eval=%s dnt=%s states=%s viol=%s' % (pid, a.tier, r.returncode, wall, c.get('evaluations'),
                                                                              c.get('distinct_nontrivial'), c.get('states'), ev.get('violations')), flush=True)
        if r.returncode != 0:
            print(r.stdout[-1500:])
        with open(sp, 'w') as f:
            json.dump(summ, f, indent=1, sort_keys=True)


if __name__ == '__main__':
    main()
