"""Regenerates the machine-derived tables of DESIGN.md sections 8 and 9 between the markers
<!-- BEGIN GENERATED --> / <!-- END GENERATED --> (python3 mc/gen_design_tables.py)."""
import glob
import json
import os
import re

VERIF = os.path.dirname(os.path.dirname(os.path.abspath(__file__)))


def findings():
    fixed, known = [], []
    for line in open(os.path.join(VERIF, 'known_findings.txt')):
        line = line.strip()
        m = re.match(r'fixed:\s+property=(C\d+)\s+(\w+)\s+(.*)', line)
        if m:
            fixed.append(m.groups())
        m = re.match(r'finding:\s+property=(C\d+)\s+key=(\S+)\s+(.*)', line)
        if m:
            known.append(m.groups())
    return fixed, known


def main():
    fixed, known = findings()
    out = []
    man = json.load(open(os.path.join(VERIF, 'MANIFEST.json')))
    sq = os.path.join(VERIF, 'mc', 'summary_quick.json')
    st = os.path.join(VERIF, 'mc', 'summary_thorough.json')
    Q = json.load(open(sq)) if os.path.exists(sq) else {}
    T = json.load(open(st)) if os.path.exists(st) else {}
    out.append('### 7.1 As built: bounds actually completed (measured by `mc/run_all.py`, 16 workers)\n')
    out.append('| property | level | quick: evaluations / distinct non-trivial | quick: states / transitions / depth | quick wall | thorough: evaluations / distinct non-trivial | thorough: states / transitions / depth | thorough wall | exhaustive within bounds |')
    out.append('|---|---|---|---|---|---|---|---|---|')

    def stt(x):
        if not x or not x.get('states'):
            return '-'
        return '%s / %s / %s' % (x.get('states'), x.get('transitions'), x.get('max_depth_completed'))
    for c in man['checks']:
        pid = c['property_id']
        q, t = Q.get(pid, {}), T.get(pid, {})
        out.append('| %s | %s | %s / %s | %s | %s s | %s / %s | %s | %s s | %s |' % (
            pid, c['level_claimed']['category'], q.get('evaluations', '?'), q.get('distinct_nontrivial', '?'), stt(q), q.get('wall_s', '?'),
            t.get('evaluations', '?'), t.get('distinct_nontrivial', '?'), stt(t), t.get('wall_s', '?'),
            'quick %s, thorough %s' % (q.get('exhaustive', '?'), t.get('exhaustive', '?'))))
    out.append('')
    out.append('### 8.1 Genuine defects repaired in /repo (one unguarded `fix:` commit each)\n')
    out.append('| property | commit | what failed on the unchanged tree |')
    out.append('|---|---|---|')
    for pid, commit, what in sorted(fixed):
        out.append('| %s | %s | %s |' % (pid, commit, what.replace('|', '\\|')))
    out.append('\n### 8.2 Known findings (genuine, not repaired; reported as KNOWN-FINDING, exit 0)\n')
    out.append('| property | key pattern | what fails |')
    out.append('|---|---|---|')
    for pid, key, what in known:
        out.append('| %s | `%s` | %s |' % (pid, key, what.replace('|', '\\|')))
    out.append('\n### 9.1 Seeded changes written by fresh sub-agents (given only the property text)\n')
    out.append('| id | property | what it needs to manifest (first line of the author\'s notes) | demo fails with / passes without | 83 baseline tests with the change | check result | first detecting keys / history |')
    out.append('|---|---|---|---|---|---|---|')
    nd = nm = 0
    for d in sorted(glob.glob(os.path.join(VERIF, 'seeded', 'C*'))):
        mp = os.path.join(d, 'meta.json')
        if not os.path.exists(mp):
            continue
        m = json.load(open(mp))
        v = m.get('verification', {})
        need = (m.get('needs_to_manifest') or '').strip().splitlines()
        need = ' '.join(need[:2])[:230].replace('|', '/')
        res = []
        keys = []
        for pid, c in v.get('checks', {}).items():
            res.append('%s: %s' % (pid, c['result']))
            keys += [re.sub(r'^FAIL ', '', k).split(' (')[0] for k in c.get('first_keys', [])[:2]]
            if c['result'] == 'DETECTED':
                nd += 1
            else:
                nm += 1
        hist = m.get('first_result', '')
        out.append('| %s | %s | %s | %s / %s | %s | %s | %s%s |' % (
            m['id'], m['property'], need, v.get('demo_with_patch', '?'), v.get('demo_without_patch', '?'),
            v.get('baseline_tests_with_patch', '?'), '; '.join(res), ', '.join('`%s`' % k for k in keys),
            ('  — ' + hist) if hist else ''))
    out.append('\nSeeded changes detected by the current checks: %d; missed: %d.\n' % (nd, nm))
    rp = os.path.join(VERIF, 'mutants', 'RESULTS.json')
    if os.path.exists(rp):
        R = json.load(open(rp))
        out.append('### 9.2 Hand-written mutants (`mutants/<ID>/*.diff`, run by `mutants/campaign.py`)\n')
        out.append('| property | mutants | detected | missed | baseline tests stay green for |')
        out.append('|---|---|---|---|---|')
        byp = {}
        for k, r in R.items():
            byp.setdefault(r['property'], []).append(r)
        for pid in sorted(byp):
            rs = byp[pid]
            det = [r for r in rs if r['result'] == 'DETECTED']
            mis = [os.path.basename(r['mutant']) for r in rs if r['result'] != 'DETECTED']
            green = [r for r in rs if r.get('baseline') == '83/83']
            out.append('| %s | %d | %d | %s | %d |' % (pid, len(rs), len(det), ', '.join(mis) or '-', len(green)))
    text = '\n'.join(out) + '\n'
    p = os.path.join(VERIF, 'DESIGN.md')
    s = open(p).read()
    b, e = '<!-- BEGIN GENERATED -->', '<!-- END GENERATED -->'
    if b in s:
        s = s[:s.index(b) + len(b)] + '\n' + text + s[s.index(e):]
    else:
        s += '\n' + b + '\n' + text + e + '\n'
    open(p, 'w').write(s)
    print('tables written: %d fixed, %d known findings, seeds detected %d missed %d' % (len(fixed), len(known), nd, nm))


if __name__ == '__main__':
    main()
