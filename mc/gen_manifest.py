"""Regenerates MANIFEST.json from the table below (python3 mc/gen_manifest.py)."""
import json
import os

VERIF = os.path.dirname(os.path.dirname(os.path.abspath(__file__)))
MC = 'model_checking'
EX = 'exploration'
FE = 'fault_enumeration'

CHECKS = {
    'C01': (MC, 'explicit-state BFS over Box definition histories on the real object, to the fixed point of the model state space',
            'All reachable model states (cell x origin x reciprocal-cache flag) of one live Box under 5 parameter sets x 3 call forms; '
            'every transition is checked against an independent Cholesky/Gram reference. Right level: the property is anchored in '
            'mutable cached state (vects/origin/reciprocal cache).', '2 C01',
            'cell menu of 22-25 cells (incl. two 1e-6 near-duplicates and three single-right-angle cells) and 3 origins; tolerance 1e-8 relative; numpy linear algebra trusted as oracle'),
    'C02': (EX, 'bounded-exhaustive enumeration (every element of cells x 8 pbc x point pairs x call shapes executed on the real dvect/dmag/displacement) against an exhaustive lattice-search oracle; every ordered pair of cells on one live Box/System changed in place between calls',
            'Every pair of a point lattice (faces, edges, corners, interior) in 8 cells under all 8 periodicity settings and all broadcast shapes is executed; '
            'membership in the 27-candidate set, minimality, dmag=|dvect| and the true-nearest-image clause (lattice search with proven radius) are checked on each. '
            'Right level: a stateless numerical kernel whose only quantifier is over inputs - complete enumeration of a face/edge/tilt-covering alphabet.', '2 C02',
            'values outside the point lattice are not covered; 1e-12 relative tolerance; ties between equal-length images accepted'),
    'C03': (EX, 'bounded-exhaustive enumeration of 1-3 atom systems on a bin-edge/face/sliver coordinate menu x cells x 8 pbc x cutoffs x storage sizes, each built by the real nlist and compared with a brute-force pair search',
            'All pairs/triples of a coordinate menu built from the binning geometry (faces, 0.01-cutoff sliver, bin edges) are executed for every cell, periodicity, cutoff and (initialsize, deltasize); '
            'dense single-bin families cross both storage growth paths; dump/load of the list is replayed. Right level: the hazard is geometric (which bins two images fall in), so a complete product over the bin-relative positions decides it within the bound.', '2 C03',
            'systems of at most ~60 atoms; pairs within 1e-9 of the cutoff exempt (none in the core alphabet)'),
    'C04': (EX, 'bounded-exhaustive enumeration: all 343 multiplier tuples and all 19683 integer 3x3 matrices over {-1,0,1} (thorough: rows up to |r|^2<=5) per unit cell, every centering setting, checked with exact coset arithmetic',
            'Every multiplier tuple / integer vector set within the index bound is executed on the real supersize/rotate/centering conversions for cells of every family; the "same infinite crystal" oracle maps each atom back '
            'modulo the original lattice in exact integer arithmetic. Right level: the quantifier is over an integer index box, which is enumerated completely.', '2 C04',
            'index bound |entries| <= 1 (quick) / |r|^2 <= 5 (thorough); positions to 1e-8 of the cell size'),
    'C05': (EX, 'bounded-exhaustive enumeration of cells x 8 pbc x atom placements (all singles of an 8^3 relative grid, all pairs of a 4^3 grid, triples), each wrapped twice and normalised through both entry points',
            'Every placement (far outside, on faces, inside) in right/left-handed, tilted and rotated cells under all periodicity settings is executed; image flags must reconstruct positions, non-periodic directions may only grow the cell, '
            'normalize must be a proper rotation preserving all true nearest-image distances (exhaustive lattice search) and the input. The second wrap starts from a non-initial state.', '2 C05',
            'systems of 1-3 atoms; 1e-11 scaled tolerance; atoms nominally on a face may be assigned to either side'),
    'C06': (MC, 'explicit-state BFS over histories of Atoms/System edit operations on one live System with a record-per-atom reference model; dedup on the model state; every transition compared with the model, the refusal list and all copying accessors',
            'All histories of depth <= 2 over 80 operation instances plus a third operation from 50 representatives (thorough: full depth 3 and a depth-4 core) are replayed on fresh real objects and on a list-of-records model with hidden atom ids; in every state '
            'rectangularity, row alignment, values, atype >= 1, symbols/masses length, non-aliasing of every copying accessor (np.shares_memory + mutation) and immutability of operands of earlier operations are checked. Right level: the property quantifies over edit histories.', '2 C06',
            '3-5 atoms, dyadic values (exact comparison); operations outside the documented API (indexed writes of invalid atype) are out of the alphabet; a violating state is reported and not expanded'),
    'C10': (EX, 'bounded-exhaustive enumeration of values/Box/Atoms/System/ElasticConstants x unit choices x encodings (DataModelDict, JSON text, XML text, dump/load system_model) x (write configuration, read configuration) pairs of working units',
            'Every element of the product is written by the real model() code under one working-unit configuration and read back under another; stored unit fields, stored physical values, shapes, dtypes kinds, strings/booleans, cell, origin, pbc, symbols, masses and scaled positions are compared '
            'with an independent unit-factor table. Right level: stateless serialisers + a global configuration that is enumerated (16-36 configuration pairs).', '2 C10',
            'tolerance 1e-11 relative for quantities with a unit (exact for unit None, strings, booleans); one known finding (one-element 1-D array collapses to a scalar through XML)'),
    'C18': (EX, 'bounded-exhaustive enumeration of gamma-surface grids x cells x query forms x periods, and of SDVPN settings (tau x alpha x beta x all 16 finite-difference/fullstress flags) x disregistry profiles x x-grids, each term against an independent double-loop evaluation of its documented formula',
            'Every element is executed on the real GammaSurface / SDVPN code: node reproduction, periodicity over integer periods, mutual inverses of the three coordinate forms for 1..7 positions (N=3 included), JSON/XML model round trips; every energy term equals an own evaluation of its formula, total = sum, the elastic term is a symmetric '
            'bilinear form invariant under rigid shifts, solve() never raises the energy and keeps the end points, and the arctan family has its energy minimum at the classical half-width. Right level: stateless numerical code; the half-width clause holds within a stated discretisation tolerance.', '2 C18',
            'half-width within 10 % for X/zeta >= 50 and dx <= b/10; solve() judged on capped minimisations (no convergence claim); one known finding (fullstress with cdiffstress raises)'),
    'C19': (MC, 'explicit-state BFS over Log()/read(append=True|False) histories with a list-of-tables reference model, plus crash-point enumeration: every line-boundary (and mid-row) truncation of the last block of every generated log shape',
            'Logs are synthesised by an independent generator (both memory banners, 0-3 run/minimize blocks, keyword sets with int and float columns, disjoint/overlapping/boundary-sharing step ranges, with/without timing breakdown, filler lines) and every truncation point of the last block is enumerated; '
            'records, column names, values row for row, version/date, and flatten first/last/all are compared with the generator\'s own tables; read histories of depth 3 (4 thorough) are explored to check append/reset semantics. Right level: crash points and read histories are finite and enumerated completely.', '2 C19',
            'log layouts limited to the generator\'s grammar; a mid-number truncation must leave complete tokens numeric and the fragment NaN; row order of flatten not constrained'),
    'C07': (EX, 'bounded-exhaustive enumeration of systems x 8 pbc x every atom_style x 8 unit styles x float formats (data files), column variants (dump files), table and POSCAR options; every written file is parsed by independent format readers and compared column by column',
            'Every file of the product is written by the real dump code and read by parsers written from the LAMMPS read_data / dump and VASP POSCAR rules (no atomman loader), with an independent LAMMPS unit table; header counts, bounds/tilt conventions, '
            'ids, atoms inside the written box, positions after image flags / unscaling, velocities, charges, extra columns and the info snippet are checked to the printed precision. Right level: stateless writers, quantifier over inputs and option combinations.', '2 C07',
            'tolerance = half a unit of the last printed digit propagated through image-flag/bounds arithmetic; unit oracle = LAMMPS units page + CODATA (scipy); systems of 3-6 atoms'),
    'C20': (EX, 'bounded-exhaustive enumeration of integrators x dimensions 1-6 x matrix kinds x vectors x step sizes, gradient functions x points x shapes x shifts, and two-minimum surfaces x strings x image counts x time steps x integrators, each against closed-form oracles',
            'Every element is executed on the real integrator / gradient / ISMPath code: one step equals the Taylor polynomial of exp(hA) (algebraic identity), error ratios on halving h lie in a derived interval around 2^(p+1), the central difference is second order, '
            'and every relaxation run to its own convergence ends in the closed-form minima and saddle with the true barrier. Right level: numerical-order clauses are decided to a derived tolerance on a complete grid.', '2 C20',
            'relaxation oracle tied to the documented convergence tolerance max(N^-4,1e-10); quick tier = a covering sub-product of the relaxation menu (asserted), thorough = the full product'),
    'C08': (FE, 'bounded-exhaustive enumeration of systems x pbc x atom styles x unit styles x float formats x input forms (str / path / stream) for each of the four text formats, plus fault enumeration of the written text: every permutation of atom lines and of velocity lines, every allowed comment / blank-line insertion, every required element deleted in turn',
            'Every file of the product is written and loaded back by the real code and the loaded system compared with the ORIGINAL system (cell, natoms, types, positions modulo the documented wrap + image flags, every carried property with its shape, pbc for dump files, symbols for POSCAR) to the printed precision with units undone; '
            'every line permutation / comment / blank-line perturbation must load to the same system, every deletion of a required element must raise the format error. Right level: the quantifier is over inputs and over finitely many textual perturbations of each file, which are enumerated completely.', '2 C08',
            'perturbations limited to the documented freedoms of the LAMMPS data format; tolerance = half a unit of the last printed digit / unit factor + 1e-12 relative; symbols / natypes of data files not judged (the format does not carry them)'),
    'C09': (MC, 'explicit-state BFS over reset_units histories of the module-global unit table (state = last accepted call) plus bounded-exhaustive enumeration of the unit-expression grammar in every table state',
            'The working-unit table is global mutable state: all histories of depth <= 2 (3 in thorough over a reduced alphabet) of reset_units calls are replayed and the table compared with the table after the last call alone; '
            'every expression tree up to the depth bound x parenthesisations x whitespace renderings is parsed by the real code and compared with direct evaluation, in every configuration. Right level: history-dependent global state + a finite grammar.', '2 C09',
            'expression depth bound (<= 4 leaves quick); factors outside float range skipped and counted; unit names limited to a 6-name menu'),
    'C11': (EX, 'bounded-exhaustive enumeration of stiffness tensors (15 coupling patterns, crystal-system grids, 33 isotropic name pairs) x 42 exact rotations x 21 strains, all ordered rotation pairs for composition; plus explicit-state BFS over read/write histories on one live ElasticConstants object (state = tensor last written + byte-exact internal state)',
            'Every representation round trip, symmetry, C:S identity, point-group invariance and rotation group law is executed on every tensor/rotation of the menu against index-loop oracles written from the definitions. '
            'Right level: algebraic identities over a finite generating set (21 strains determine the quadratic form; group elements enumerated completely).', '2 C11',
            'tolerance 1e-9 max|C| (the class zeroes below that itself); menu values only'),
    'C12': (EX, 'bounded-exhaustive enumeration of materials x Burgers vectors (incl. scale factors 1e-10..1e7) x orientations x (m,n) choices, each solution evaluated on a complete polar grid of field points and array shapes; plus explicit-state BFS over solve()/read histories on one live solution object (state = problem last solved + byte-exact internal state)',
            'Every combination is solved by the real Stroh/isotropic solver and checked for Burgers jump, strain = sym grad u, stress = C:strain, div stress = 0, 1/r homogeneity, K properties, covariance and the isotropic limit. '
            'Right level: stateless solver, quantifier over inputs; finite-difference clauses hold to a stated tolerance on the grid.', '2 C12',
            'finite differences h=1e-5 r with 1e-7 tolerance; grid points keep >= 7 degrees from the cut'),
    'C13': (EX, 'bounded-exhaustive enumeration of unit cells x slip systems (screw/edge/mixed) x all 6 (m,n) axis assignments x size menus x every offered shift index (+ explicit/scaled shifts) x core centres x boundary shapes/widths, monopole and periodicarray (linear and elastic), each compared with independently constructed expectations',
            'Every configuration of the product is generated by the real Dislocation class; atoms kept and displaced by a separately constructed elastic solution, periodicity, boundary retyping against own region tests, deleted-atom count, brute-force overlap search over both in-plane periodic directions, old_id mapping, '
            'base atoms mapped back onto the hand-built unit-cell lattice through an own transform, and the disregistry profile with the analytic tail bound are checked. Right level: stateless generator, quantifier over a finite index/option box.', '2 C13',
            'systems of <= a few hundred atoms; positions 1e-9 A, disregistry 1e-8; the elastic solution itself is trusted here and judged by C12; (m,n) given as axis strings'),
    'C14': (EX, 'bounded-exhaustive enumeration of every (hkl) in [-3,3]^3 (thorough [-4,4]^3) and every (hkil) x cells of all seven families and the centred settings x the three cut vectors, judged in exact integer / Fraction arithmetic; FreeSurface and StackingFault on the low-index subset x shift indices x fault positions x fault shifts',
            'The statement itself asks for "all integer planes within an index bound (exhaustively)": every plane is passed to the real free_surface_basis and the returned vectors are checked to be integer, right-handed, two in the plane (zone law) and one out of it, the normal to be h a* + k b* + l c*; '
            'slabs are mapped back onto the crystal, every offered termination must lie strictly between atomic planes (independent layer model in Fractions), atoms below the fault stay bit-identical and atoms above move by exactly the vector, a full in-plane lattice vector restores the crystal. Right level: finite index box, enumerated completely.', '2 C14',
            'index bound 3 (quick) / 4 (thorough); slab clauses on |index| <= 2; quick slab sub-alphabet reduced as stated in the rule text; a search failure with the default maxindex counts as a violation'),
    'C15': (MC, 'explicit-state BFS over histories of successive point-defect insertions on real Systems with a list-of-records reference model, dedup on the model state',
            'All histories of depth <= 3 over ~150 operation instances (every ptd_id incl. negative/out of range, positions Cartesian/relative/through all 26 images/at 0.5 and 2 atol, all four defect types and point()) are replayed; '
            'each transition is compared with the input (survivors, order, snapshot) and with the model (old_id composes over the history; state by position == state by index). Right level: the old-index map is history state.', '2 C15',
            'three root systems of 2-3 atoms; default atol; exact comparison of survivor data'),
    'C16': (EX, 'bounded-exhaustive enumeration of all index triples/quadruples in [-4,4] in every leading shape x cells of every family x 8 centering settings, and of all well-formed index strings of a bounded grammar',
            'Every integer index vector within the bound is converted by the real code and compared with exact integer / reciprocal-basis oracles; zone law checked for all 13.5 M (plane, direction) pairs; every string of the grammar is parsed. '
            'Right level: the statement itself says "exhaustively within a bound".', '2 C16',
            'index bound 4 (quick); cells from a fixed menu; 1e-10 relative on Cartesian directions'),
    'C17': (EX, 'bounded-exhaustive enumeration of reference crystals x imposed deformation gradients / rigid slips x slip-plane positions x cutoffs x permutations/translations, each analysed by the real tools',
            'Every (crystal, F) and (crystal, slip vector, plane position) combination of the menus is executed and displacement, Strain (G=F^-T, strain, rotation, invariants), Nye tensor, slip_vector, disregistry and differential displacement '
            'are compared with values computed from the imposed field; renumbering/translation covariance is checked. Right level: exact affine images make the oracle exact, the product is complete.', '2 C17',
            'crystals of <= ~108 atoms; deformation magnitudes from a fixed menu; 1e-9 tolerance'),
}

NOT_APPLICABLE = {
}


def main():
    props = [json.loads(l)['id'] for l in open(os.path.join(VERIF, 'properties.jsonl'))]
    checks = []
    for pid in props:
        if pid not in CHECKS:
            continue
        cat, tech, text, ref, note = CHECKS[pid]
        checks.append({
            'property_id': pid,
            'quick_cmd': './check %s --tier quick' % pid,
            'thorough_cmd': './check %s --tier thorough' % pid,
            'evidence_file': '/verif/evidence/%s.json' % pid,
            'replay_cmd_template': './check %s --replay {path}' % pid,
            'engine': 'atomman-mc',
            'level_claimed': {'category': cat, 'text': text, 'design_ref': 'DESIGN.md section ' + ref},
            'level_note': note,
            'technique': tech,
        })
    na = [{'property_id': p, 'reason': NOT_APPLICABLE.get(p, 'check not built yet (work in progress); not claimed')}
          for p in props if p not in CHECKS]
    m = {
        'version': 1,
        'setup_cmd': './check C01 --build-only',
        'hooks': {'guard': 'ATOMMAN_VERIF', 'enable': 'no hooks: every property is observed through the public API; '
                  'checks import an overlay copy of /repo/atomman with extensions rebuilt from the working tree',
                  'baseline_off_cmd': 'cd /repo && /venv/bin/python -m pytest -ra -q -p no:cacheprovider --timeout=900 --continue-on-collection-errors',
                  'source_commits': [], 'add_only': True},
        'engines': [{'name': 'atomman-mc', 'path': '/verif/mc', 'serves_properties': sorted(CHECKS),
                     'kind_free_text': 'hand-written explicit-state explorer (BFS over operation histories on the real objects with '
                     'reference models) and bounded-exhaustive case enumerator over a 16-process pool; python'}],
        'checks': checks,
        'not_applicable': na,
        'notes': 'All 20 properties are claimed; all checks run the real implementation (overlay copy of the /repo working tree with the Cython extensions rebuilt from the current .pyx). '
                 'known_findings.txt lists 50 repaired defects (fixed:, one unguarded fix: commit each in /repo) and 2 known findings (C10, C18) that the checks report as KNOWN-FINDING lines. '
                 'A hang of the code under test is reported as a violation by a no-progress watchdog (VERIF_HANG_S, default 900 s). DESIGN.md sections 7-9 describe what was built, the triage of every alarm and the detection evidence (267 hand-written mutants, 110+ seeded changes by independent sub-agents).',
    }
    with open(os.path.join(VERIF, 'MANIFEST.json'), 'w') as f:
        json.dump(m, f, indent=1)
    print('checks:', len(checks), 'not claimed:', len(na))


if __name__ == '__main__':
    main()
