"""Regenerates MANIFEST.json from the table below (python3 mc/gen_manifest.py)."""
import json
import os

VERIF = os.path.dirname(os.path.dirname(os.path.abspath(__file__)))
MC = 'model_checking'
EX = 'exploration'
FE = 'fault_enumeration'

CHECKS = {
    'C01': (MC, 'explicit-state BFS over Box definition histories on the real object, to the fixed point of the model state space',
            'All reachable model states (cell x origin x reciprocal-cache flag) of one live Box under 5 parameter sets x 3 call forms; '
            'every transition is checked against an independent Cholesky/Gram reference. Right level: the property is anchored in '
            'mutable cached state (vects/origin/reciprocal cache).', '2 C01',
            'cell menu of 17-20 cells and 3 origins; tolerance 1e-8 relative; numpy linear algebra trusted as oracle'),
}

NOT_APPLICABLE = {
}


def main():
    props = [json.loads(l)['id'] for l in open(os.path.join(VERIF, 'properties.jsonl'))]
    checks = []
    for pid in props:
        if pid not in CHECKS:
            continue
        cat, tech, text, ref, note = CHECKS[pid]
        checks.append({
            'property_id': pid,
            'quick_cmd': './check %s --tier quick' % pid,
            'thorough_cmd': './check %s --tier thorough' % pid,
            'evidence_file': '/verif/evidence/%s.json' % pid,
            'replay_cmd_template': './check %s --replay {path}' % pid,
            'engine': 'atomman-mc',
            'level_claimed': {'category': cat, 'text': text, 'design_ref': 'DESIGN.md section ' + ref},
            'level_note': note,
            'technique': tech,
        })
    na = [{'property_id': p, 'reason': NOT_APPLICABLE.get(p, 'check not built yet (work in progress); not claimed')}
          for p in props if p not in CHECKS]
    m = {
        'version': 1,
        'setup_cmd': './check C01 --build-only',
        'hooks': {'guard': 'ATOMMAN_VERIF', 'enable': 'no hooks: every property is observed through the public API; '
                  'checks import an overlay copy of /repo/atomman with extensions rebuilt from the working tree',
                  'baseline_off_cmd': 'cd /repo && /venv/bin/python -m pytest -ra -q -p no:cacheprovider --timeout=900 --continue-on-collection-errors',
                  'source_commits': [], 'add_only': True},
        'engines': [{'name': 'atomman-mc', 'path': '/verif/mc', 'serves_properties': sorted(CHECKS),
                     'kind_free_text': 'hand-written explicit-state explorer (BFS over operation histories on the real objects with '
                     'reference models) and bounded-exhaustive case enumerator over a 16-process pool; python'}],
        'checks': checks,
        'not_applicable': na,
        'notes': 'All checks run the real implementation (overlay built from /repo working tree). known_findings.txt lists repaired defects.',
    }
    with open(os.path.join(VERIF, 'MANIFEST.json'), 'w') as f:
        json.dump(m, f, indent=1)
    print('checks:', len(checks), 'not claimed:', len(na))


if __name__ == '__main__':
    main()
