"""Shared machinery: case enumeration over a worker pool, explicit-state BFS,
violations -> replay artefacts, known findings, evidence files."""
import collections
import fnmatch
import hashlib
import itertools
import json
import multiprocessing as mp
import os
import sys
import time
import traceback

VERIF = os.path.dirname(os.path.dirname(os.path.abspath(__file__)))
OUT = os.environ.get('VERIF_OUT', VERIF)   # evidence/replays root (the mutant campaign redirects it)
TIER = os.environ.get('VERIF_TIER', 'quick')
try:
    SEED = int(os.environ.get('VERIF_SEED', '0'))
except ValueError:
    SEED = 0
NPROC = int(os.environ.get('VERIF_NPROC', '16'))
# no result from any worker for this long = the code under test hangs (e.g. spins in compiled code): a violation
HANG_S = float(os.environ.get('VERIF_HANG_S', '900'))
THOROUGH = TIER == 'thorough'


def assert_overlay():
    """The atomman under test must be the overlay built from the working tree."""
    import atomman
    ov = os.environ.get('VERIF_OVERLAY')
    if ov and not os.path.abspath(atomman.__file__).startswith(os.path.abspath(ov)):
        print('FATAL: atomman imported from %s, not from overlay %s'
              % (atomman.__file__, ov))
        sys.exit(3)
    return atomman


def jsonable(x):
    import numpy as np
    if isinstance(x, dict):
        return {str(k): jsonable(v) for k, v in x.items()}
    if isinstance(x, (list, tuple)):
        return [jsonable(v) for v in x]
    if isinstance(x, np.ndarray):
        return jsonable(x.tolist())
    if isinstance(x, (np.integer,)):
        return int(x)
    if isinstance(x, (np.floating,)):
        return float(x)
    if isinstance(x, (np.bool_,)):
        return bool(x)
    if isinstance(x, complex):
        return [x.real, x.imag]
    if isinstance(x, (str, int, float, bool)) or x is None:
        return x
    if isinstance(x, slice):
        return {'slice': [x.start, x.stop, x.step]}
    if isinstance(x, bytes):
        return x.decode('latin1')
    return repr(x)


def digest(x):
    return hashlib.sha1(json.dumps(jsonable(x), sort_keys=True).encode()).hexdigest()[:16]


def load_findings(pid):
    """known_findings.txt: 'finding: property=<id> key=<pattern> text' lines."""
    out = []
    p = os.path.join(VERIF, 'known_findings.txt')
    if not os.path.exists(p):
        return out
    for line in open(p):
        line = line.strip()
        if not line.startswith('finding:'):
            continue
        toks = line.split()
        d = dict(t.split('=', 1) for t in toks[1:3] if '=' in t)
        if d.get('property') == pid and 'key' in d:
            out.append((d['key'], ' '.join(toks[3:])))
    return out


class Fail(dict):
    """A failed expectation: Fail(key=..., msg=..., expected=..., observed=...)"""


_W = {}   # per-worker state


def _worker_init():
    # workers are forked after the parent stored its Check in _W['chk']
    assert 'chk' in _W


def _run_one(chk, clause, case):
    fn = chk.clauses[clause]
    try:
        r = fn(case)
    except Exception as e:  # an unexpected exception is a failure of the clause
        tb = traceback.format_exc(limit=6)
        return [Fail(key='exception:%s' % type(e).__name__, msg='unexpected %s: %s' % (type(e).__name__, e), traceback=tb)]
    if not r:
        return []
    if isinstance(r, (Fail, dict, str)):
        r = [r]
    out = []
    for f in r:
        if isinstance(f, str):
            f = Fail(key=f.split(':')[0][:60], msg=f)
        out.append(f)
    return out


def _worker_batch_tagged(arg):
    i, batch = arg
    return i, _worker_batch(batch)


def _worker_batch(batch):
    chk = _W['chk']
    chk.notes = collections.Counter()
    res = []
    for clause, case in batch:
        fails = _run_one(chk, clause, case)
        if fails:
            res.append((clause, case, fails))
    return len(batch), res, dict(chk.notes)


class Check:
    def __init__(self, pid, level, rule, module=None):
        self.pid = pid
        self.level = level
        self.rule = rule
        self.module = module
        self.clauses = collections.OrderedDict()
        self.notes = collections.Counter()
        self.assumptions = []
        self.t0 = time.time()
        self.counts = collections.Counter()
        self.viol = []
        self.known_hit = collections.OrderedDict()
        self.samples = []
        self.extra = {}
        self.capped = []
        self.findings = load_findings(pid)

    # ---- declaration
    def clause(self, name):
        def deco(fn):
            self.clauses[name] = fn
            return fn
        return deco

    def note(self, key, n=1):
        self.notes[key] += n

    # ---- recording
    def record(self, clause, case, fails):
        for f in fails:
            key = '%s/%s' % (clause, f.get('key', 'fail'))
            hit = None
            for pat, text in self.findings:
                if fnmatch.fnmatchcase(key, pat):
                    hit = (pat, text)
                    break
            if hit:
                self.known_hit.setdefault(hit, 0)
                self.known_hit[hit] += 1
            else:
                self.viol.append({'property': self.pid, 'clause': clause, 'key': key,
                                  'case': jsonable(case), 'failure': jsonable(dict(f))})

    # ---- exhaustive enumeration of (clause, case) pairs
    def run_cases(self, gen, batch=64, parallel=True):
        """gen yields (clause, case); every one is executed (no sampling)."""
        replay = os.environ.get('VERIF_REPLAY')
        if replay:
            return self.replay(replay)
        nsamp = collections.Counter()

        def batches():
            buf = []
            for clause, case in gen:
                self.counts[clause] += 1
                if nsamp[clause] < 2:
                    nsamp[clause] += 1
                    self.samples.append({'clause': clause, 'case': jsonable(case)})
                buf.append((clause, case))
                if len(buf) >= batch:
                    yield buf
                    buf = []
            if buf:
                yield buf
        if parallel and NPROC > 1:
            ctx = mp.get_context('fork')
            _W['chk'] = self
            pending = collections.OrderedDict()

            def tagged():
                for i, b in enumerate(batches()):
                    pending[i] = b
                    yield i, b
            with ctx.Pool(NPROC, initializer=_worker_init) as pool:
                it = pool.imap_unordered(_worker_batch_tagged, tagged())
                while True:
                    try:
                        i, (n, res, notes) = it.next(timeout=HANG_S)
                    except StopIteration:
                        break
                    except mp.TimeoutError:
                        stuck = [pending[k] for k in sorted(pending)[:NPROC]]
                        clause, case = stuck[0][0]
                        self.record(clause, case, [Fail(key='no-result-within-%ds' % HANG_S,
                                                        msg='no worker delivered a result for %d s: the code under test does not return '
                                                            '(one of the %d cases in flight, the first of which is recorded here)'
                                                            % (HANG_S, sum(len(b) for b in stuck)))])
                        self.capped.append('run stopped by the no-progress watchdog after %d s' % HANG_S)
                        pool.terminate()
                        break
                    pending.pop(i, None)
                    for clause, case, fails in res:
                        self.record(clause, case, fails)
                    for k, v in notes.items():
                        self.notes[k] += v
        else:
            for b in batches():
                for clause, case in b:
                    fails = _run_one(self, clause, case)
                    if fails:
                        self.record(clause, case, fails)

    def replay(self, path):
        d = json.load(open(path))
        clause, case = d['clause'], d['case']
        a = _run_one(self, clause, case)
        b = _run_one(self, clause, case)
        if jsonable([dict(x) for x in a]) != jsonable([dict(x) for x in b]):
            print('NONDETERMINISTIC replay of', path)
            sys.exit(3)
        if a:
            for f in a:
                print('REPLAY-FAIL %s/%s: %s' % (clause, f.get('key'), f.get('msg')))
            print('VIOLATION property=%s replay=%s' % (self.pid, path))
            sys.exit(1)
        print('replay passes: property holds on', path)
        sys.exit(0)

    # ---- finishing
    def finish(self, coverage=None, exhaustive=True):
        wall = time.time() - self.t0
        cov = dict(coverage or {})
        evaluations = int(cov.pop('evaluations', sum(self.counts.values())))
        cov.setdefault('distinct_nontrivial', evaluations)
        ev = {
            'property_id': self.pid, 'tier': TIER, 'seed': SEED, 'level': self.level,
            'coverage': dict(evaluations=evaluations, rule=self.rule,
                             samples=self.samples[:12] or [{'note': 'no samples'}],
                             exhaustive=bool(exhaustive and not self.capped),
                             per_clause=dict(self.counts), notes=dict(self.notes),
                             caps_hit=self.capped, **cov),
            'assumptions': self.assumptions, 'wall_s': round(wall, 2),
            'violations': len(self.viol),
            'known_findings_hit': [{'key': k[0], 'what': k[1], 'cases': n}
                                   for k, n in self.known_hit.items()],
        }
        os.makedirs(os.path.join(OUT, 'evidence'), exist_ok=True)
        with open(os.path.join(OUT, 'evidence', self.pid + '.json'), 'w') as f:
            json.dump(ev, f, indent=1, sort_keys=True)
        for (pat, text), n in self.known_hit.items():
            print('KNOWN-FINDING: property=%s %s [%s] (%d cases)' % (self.pid, text, pat, n))
        print('%s tier=%s seed=%d evaluations=%d distinct_nontrivial=%d %s wall=%.1fs violations=%d'
              % (self.pid, TIER, SEED, evaluations, cov['distinct_nontrivial'],
                 ' '.join('%s=%s' % (k, v) for k, v in cov.items()
                          if k in ('states', 'transitions', 'max_depth_completed')),
                 wall, len(self.viol)))
        print('  per clause:', dict(self.counts))
        if self.notes:
            print('  notes:', dict(self.notes))
        if self.capped:
            print('  CAPS HIT:', self.capped)
        if not self.viol:
            return 0
        # group by key, write replay artefacts for the first of each key
        rdir = os.path.join(OUT, 'replays', self.pid)
        os.makedirs(rdir, exist_ok=True)
        bykey = collections.OrderedDict()
        for v in self.viol:
            bykey.setdefault(v['key'], []).append(v)
        nprint = 0
        for key, vs in bykey.items():
            vs.sort(key=lambda v: len(json.dumps(v['case'])))
            v = vs[0]
            path = os.path.join(rdir, digest([v['clause'], v['case']]) + '.json')
            with open(path, 'w') as f:
                json.dump(v, f, indent=1, sort_keys=True)
            if nprint < 40:
                print('  FAIL %s (%d cases): %s' % (key, len(vs), str(v['failure'].get('msg'))[:300]))
                print('VIOLATION property=%s replay=%s' % (self.pid, path))
                nprint += 1
        return 1


# --------------------------------------------------------------------------
# explicit-state breadth-first search over operation histories

def _bfs_worker(args):
    chk = _W['chk']
    chk.notes = collections.Counter()
    hist = args
    return hist, chk._expand(hist), dict(chk.notes)


class Explorer:
    """BFS over histories of operations on fresh real objects.

    build(history) -> state (runs the real code and the reference model)
    ops(state) -> iterable of operation instances (JSON-able)
    check(history, state) -> list of Fail (invariant + model comparison)
    canon(state) -> hashable canonical form (bytes/str)
    A state is reached by replaying its history from scratch.
    """

    def __init__(self, chk, name, build, ops, check, canon, max_depth,
                 state_cap=None, expand_all=False):
        self.chk, self.name = chk, name
        self.build, self.ops, self.check, self.canon = build, ops, check, canon
        self.max_depth = max_depth
        self.state_cap = state_cap
        self.expand_all = expand_all   # expand duplicate states too (no dedup pruning)
        chk._expand = self._expand
        chk.clauses[name] = self._replay_clause

    def _replay_clause(self, case):
        hist = case['history']
        st1 = self.build(hist)
        st2 = self.build(hist)
        if self.canon(st1) != self.canon(st2):
            return [Fail(key='nondeterministic', msg='history replays to two different states')]
        out = []
        # check every prefix so the first failing step is reported
        for k in range(len(hist) + 1):
            st = self.build(hist[:k]) if k < len(hist) else st1
            f = self.check(hist[:k], st)
            if f:
                out.extend(f)
                break
        return out

    def _expand(self, hist):
        """Run in a worker: all successors of one history."""
        try:
            st = self.build(hist)
            oplist = list(self.ops(st))
        except Exception as e:
            return [(None, None, [dict(Fail(key='exception:%s' % type(e).__name__,
                                            msg='unexpected %s while rebuilding an explored state: %s' % (type(e).__name__, e),
                                            traceback=traceback.format_exc(limit=6)))])]
        succ = []
        for op in oplist:
            h2 = hist + [op]
            try:
                s2 = self.build(h2)
                fails = self.check(h2, s2) or []
                c = self.canon(s2)
            except Exception as e:
                fails = [Fail(key='exception:%s' % type(e).__name__,
                              msg='unexpected %s: %s' % (type(e).__name__, e),
                              traceback=traceback.format_exc(limit=6))]
                c = None
            if fails:
                # determinism: same history must fail the same way twice
                try:
                    s3 = self.build(h2)
                    f3 = self.check(h2, s3) or []
                except Exception:
                    f3 = fails
                if len(f3) != len(fails):
                    fails = [Fail(key='nondeterministic', msg='failure not reproducible on replay')]
            succ.append((op, c, [dict(f) for f in fails]))
        return succ

    def run(self):
        chk = self.chk
        if os.environ.get('VERIF_REPLAY'):
            return chk.replay(os.environ['VERIF_REPLAY'])
        try:
            st0 = self.build([])
            f0 = self.check([], st0) or []
            c0 = self.canon(st0)
        except Exception as e:   # a broken initial state is a violation, not a crash of the explorer
            chk.record(self.name, {'history': []},
                       [Fail(key='exception:%s' % type(e).__name__, msg='unexpected %s in the initial state: %s' % (type(e).__name__, e),
                             traceback=traceback.format_exc(limit=6))])
            chk.counts[self.name] += 1
            return dict(states=1, transitions=1, traces_validated_against_impl=1, max_depth_completed=0)
        if f0:
            chk.record(self.name, {'history': []}, f0)
        seen = {c0}
        frontier = [[]]
        states, transitions, depth_done, traces = 1, 0, 0, 1
        refusals = 0
        ctx = mp.get_context('fork')
        _W['chk'] = chk
        pool = ctx.Pool(NPROC, initializer=_worker_init) if NPROC > 1 else None
        try:
            for depth in range(1, self.max_depth + 1):
                nxt = []
                it = (pool.imap(_bfs_worker, frontier, chunksize=1) if pool
                      else iter(map(_bfs_worker, frontier)))
                done = 0
                while True:
                    try:
                        hist, succ, notes = it.next(timeout=HANG_S) if pool else next(it)
                    except StopIteration:
                        break
                    except mp.TimeoutError:
                        h = frontier[min(done, len(frontier) - 1)]
                        chk.record(self.name, {'history': h},
                                   [Fail(key='no-result-within-%ds' % HANG_S,
                                         msg='no worker delivered a result for %d s while expanding histories at depth %d: the code '
                                             'under test does not return (history recorded: the first unexpanded one)' % (HANG_S, depth))])
                        chk.capped.append('%s: stopped by the no-progress watchdog after %d s' % (self.name, HANG_S))
                        pool.terminate()
                        pool = None
                        frontier = []
                        nxt = []
                        break
                    done += 1
                    for k, v in notes.items():
                        chk.notes[k] += v
                    for op, c, fails in succ:
                        transitions += 1
                        traces += 1
                        if len(chk.samples) < 3 * depth:
                            chk.samples.append({'history': jsonable(hist + [op])})
                        if fails:
                            chk.record(self.name, {'history': hist + [op]}, [Fail(f) for f in fails])
                        if c is None:
                            continue
                        if c not in seen:
                            seen.add(c)
                            states += 1
                            nxt.append(hist + [op])
                        elif self.expand_all:
                            nxt.append(hist + [op])
                depth_done = depth
                frontier = nxt
                if self.state_cap and states > self.state_cap and depth < self.max_depth:
                    chk.capped.append('%s: state cap %d reached after depth %d' % (self.name, self.state_cap, depth))
                    break
                if not frontier:
                    break
        finally:
            if pool:
                pool.close()
                pool.join()
        chk.counts[self.name] += transitions
        return dict(states=states, transitions=transitions,
                    traces_validated_against_impl=traces, max_depth_completed=depth_done)


def product_cases(**domains):
    """Deterministic full product of named finite domains -> dicts."""
    names = list(domains)
    for combo in itertools.product(*[domains[n] for n in names]):
        yield dict(zip(names, combo))
