"""Runner: builds the working-tree overlay and runs one property check in it."""
import argparse
import os
import shutil
import subprocess
import sys

HERE = os.path.dirname(os.path.abspath(__file__))
VERIF = os.path.dirname(HERE)
sys.path.insert(0, VERIF)
from mc import overlay  # noqa: E402


def main():
    ap = argparse.ArgumentParser()
    ap.add_argument('prop')
    ap.add_argument('--tier', default=os.environ.get('VERIF_TIER', 'quick'),
                    choices=['quick', 'thorough'])
    ap.add_argument('--replay', default=None)
    ap.add_argument('--build-only', action='store_true')
    a = ap.parse_args()
    if a.build_only:
        overlay.build_ext(overlay.repo_root())
        return 0
    pid = a.prop.upper()
    mod = 'props.' + pid.lower()
    if not os.path.exists(os.path.join(VERIF, 'props', pid.lower() + '.py')):
        print('unknown property', pid)
        return 2
    top = overlay.make_overlay()
    try:
        env = dict(os.environ)
        env['PYTHONPATH'] = top + os.pathsep + VERIF
        env['VERIF_TIER'] = a.tier
        env.setdefault('VERIF_SEED', '0')
        env['PYTHONHASHSEED'] = '0'
        env['VERIF_OVERLAY'] = top
        env['OMP_NUM_THREADS'] = '1'
        env['OPENBLAS_NUM_THREADS'] = '1'
        env['MKL_NUM_THREADS'] = '1'
        env['MPLBACKEND'] = 'Agg'
        if a.replay:
            env['VERIF_REPLAY'] = os.path.abspath(a.replay)
        r = subprocess.run([overlay.PY, '-W', 'ignore', '-m', mod], env=env,
                           cwd=VERIF)
        return r.returncode
    finally:
        shutil.rmtree(top, ignore_errors=True)


if __name__ == '__main__':
    sys.exit(main())
