#!/venv/bin/python
"""Run the repository's baseline test-suite inside a tree (default /repo, or a scratch worktree).
   mc/baseline.py [tree]      exit 0 iff every test of BASELINE.json stable_pass passes."""
import json
import os
import shutil
import subprocess
import sys
import tempfile
import xml.etree.ElementTree as ET

VERIF = os.path.dirname(os.path.dirname(os.path.abspath(__file__)))
sys.path.insert(0, VERIF)
from mc import overlay  # noqa


def run(tree, quiet=False):
    ext = overlay.build_ext(tree, verbose=not quiet)
    for d, _, files in os.walk(os.path.join(ext, 'atomman')):
        for f in files:
            if f.endswith('.so'):
                rel = os.path.relpath(os.path.join(d, f), ext)
                shutil.copy(os.path.join(d, f), os.path.join(tree, rel))
    env = dict(os.environ)
    env.pop('PYTHONPATH', None)
    fd, xml = tempfile.mkstemp(suffix='.xml')
    os.close(fd)
    try:
        # a mutant may make a test spin inside compiled code, where pytest's own timeout cannot interrupt it
        p = subprocess.Popen(['/venv/bin/python', '-m', 'pytest', '-q', '-p', 'no:cacheprovider', '--timeout=900',
                              '--continue-on-collection-errors', '-n', '8', '--junitxml=' + xml],
                             cwd=tree, env=env, stdout=subprocess.PIPE, stderr=subprocess.STDOUT, text=True,
                             start_new_session=True)
        try:
            out, _ = p.communicate(timeout=int(os.environ.get('BASELINE_TIMEOUT', '600')))
        except subprocess.TimeoutExpired:
            import signal
            os.killpg(p.pid, signal.SIGKILL)
            out, _ = p.communicate()
            out = (out or '') + '\nBASELINE TIMEOUT: test run killed\n'

        class R:
            stdout = out
        r = R()
        passed = set()
        try:
            for tc in ET.parse(xml).getroot().iter('testcase'):
                if not any(c.tag in ('failure', 'error', 'skipped') for c in tc):
                    passed.add(tc.get('classname') + '::' + tc.get('name'))
        except ET.ParseError:
            pass
    finally:
        os.unlink(xml)
    stable = json.load(open('/root/.vp/BASELINE.json'))['stable_pass']
    missing = [t for t in stable if t not in passed]
    last = [l for l in r.stdout.strip().splitlines() if l.strip()][-1:]
    print('BASELINE %s: %d/%d stable tests pass; pytest: %s' % (tree, len(stable) - len(missing), len(stable), last))
    for t in missing:
        print('  NOT PASSING:', t)
    return not missing


if __name__ == '__main__':
    sys.exit(0 if run(sys.argv[1] if len(sys.argv) > 1 else '/repo') else 1)
