"""Independent unit table for C07/C08: factor that turns a value held in atomman's default working
units (angstrom, amu, eV, e  =>  time = angstrom*sqrt(amu/eV)) into a LAMMPS unit style.

Written from the LAMMPS ``units`` manual page and CODATA constants taken from scipy.constants
(atomman takes its constants from the ``numericalunits`` package instead).  Does not import atomman.
"""
import math

import scipy.constants as sc

E = sc.e                                    # C (exact)
NA = sc.N_A                                 # 1/mol (exact)
C0 = sc.c                                   # m/s (exact)
AMU = sc.physical_constants['atomic mass constant'][0]      # kg
BOHR = sc.physical_constants['Bohr radius'][0]              # m
HARTREE = sc.physical_constants['Hartree energy'][0]        # J
EV = E                                      # J

# working units in SI
W_L = 1e-10
W_M = AMU
W_E = EV
W_Q = E
W_T = W_L * math.sqrt(W_M / W_E)            # s


def working_si(L=0, M=0, T=0, Q=0):
    return W_L ** L * W_M ** M * W_T ** T * W_Q ** Q


# dimension exponents (length, mass, time, charge) of the quantities that occur in data/dump files
DIM = {
    'length': (1, 0, 0, 0), 'mass': (0, 1, 0, 0), 'time': (0, 0, 1, 0), 'velocity': (1, 0, -1, 0),
    'charge': (0, 0, 0, 1), 'dipole': (1, 0, 0, 1), 'density': (-3, 1, 0, 0), 'volume': (3, 0, 0, 0),
    'force': (1, 1, -2, 0), 'angmom': (2, 1, -1, 0), 'angvel': (0, 0, -1, 0), 'torque': (2, 1, -2, 0),
}


def _style(mass, length, time, velocity, charge, dipole, density, force):
    d = dict(mass=mass, length=length, time=time, velocity=velocity, charge=charge, dipole=dipole,
             density=density, force=force)
    d['volume'] = length ** 3
    d['angmom'] = mass * length * velocity        # "mass-velocity-distance"
    d['angvel'] = 1.0 / time                      # "radians/time"
    d['torque'] = force * length
    return d


KCALMOL = 4184.0 / NA
# one LAMMPS unit of <quantity> expressed in SI, per unit style (LAMMPS manual, "units" command)
STYLE_SI = {
    # mass = grams/mole, distance = Angstroms, time = femtoseconds, velocity = Angstroms/femtosecond,
    # charge = multiple of electron charge, dipole = charge*Angstroms, density = g/cm^3, force = (kcal/mol)/Angstrom
    'real': _style(1e-3 / NA, 1e-10, 1e-15, 1e5, E, E * 1e-10, 1e3, KCALMOL / 1e-10),
    # time = picoseconds, velocity = Angstroms/picosecond, force = eV/Angstrom
    'metal': _style(1e-3 / NA, 1e-10, 1e-12, 1e2, E, E * 1e-10, 1e3, EV / 1e-10),
    'si': _style(1.0, 1.0, 1.0, 1.0, 1.0, 1.0, 1.0, 1.0),
    # grams, centimeters, seconds, cm/s, statcoulombs (1 C = 10*c[m/s] statC), statcoul-cm, g/cm^3, dynes
    'cgs': _style(1e-3, 1e-2, 1.0, 1e-2, 1.0 / (10.0 * C0), 1e-2 / (10.0 * C0), 1e3, 1e-5),
    # amu, Bohr, femtoseconds, velocity = Bohr/atomic time units [1.03275e-15 seconds] (= sqrt(Hartree/amu)),
    # charge = e, dipole = Debye (1e-21/c C m); no density unit is defined for this style; force = Hartree/Bohr
    'electron': _style(AMU, BOHR, 1e-15, math.sqrt(HARTREE / AMU), E, 1e-21 / C0, None, HARTREE / BOHR),
    # picograms, micrometers, microseconds, um/us, picocoulombs, pC-um, pg/um^3, pg-um/us^2
    'micro': _style(1e-15, 1e-6, 1e-6, 1.0, 1e-12, 1e-18, 1e3, 1e-15 * 1e-6 / 1e-12),
    # attograms, nanometers, nanoseconds, nm/ns, e, e-nm, ag/nm^3, ag-nm/ns^2
    'nano': _style(1e-21, 1e-9, 1e-9, 1.0, E, E * 1e-9, 1e-21 / 1e-27, 1e-21 * 1e-9 / 1e-18),
}
STYLE_SI['electron']['density'] = None
STYLES = ['metal', 'real', 'si', 'cgs', 'electron', 'micro', 'nano', 'lj']


def factor(style, quantity):
    """file value = working-unit value * factor.  'lj' is dimensionless (no conversion);
    quantity None = a plain number.  Returns None where the style defines no such unit."""
    if style not in STYLES:
        raise KeyError(style)
    if quantity is None or style == 'lj':
        return 1.0
    one = STYLE_SI[style][quantity]
    if one is None:
        return None
    return working_si(*DIM[quantity]) / one


def named_factor(name):
    """a few explicitly named units for the generic table format"""
    si = {'nm': 1e-9, 'angstrom': 1e-10, 'm': 1.0, 'm/s': 1.0, 'angstrom/ps': 100.0, 'C': 1.0, 'e': E,
          'GPa': 1e9, 'eV/angstrom^3': EV / 1e-30, 'kg': 1.0, 'amu': AMU}
    dim = {'nm': 'length', 'angstrom': 'length', 'm': 'length', 'm/s': 'velocity', 'angstrom/ps': 'velocity',
           'C': 'charge', 'e': 'charge', 'kg': 'mass', 'amu': 'mass'}
    if name in ('GPa', 'eV/angstrom^3'):
        return working_si(-1, 1, -2, 0) / si[name]
    return working_si(*DIM[dim[name]]) / si[name]
