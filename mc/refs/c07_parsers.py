"""Independent readers for the three text formats atomman writes (used by C07/C08 as oracles).

Written from the format rules only -- the LAMMPS ``read_data`` command (header keywords,
section layout, per-atom_style column tables), the LAMMPS ``dump atom/custom`` text layout
(``ITEM:`` blocks, bounding-box bounds of a triclinic cell) and the VASP POSCAR rules (the
universal scale factor multiplies the lattice vectors AND Cartesian coordinates).  Nothing here
imports atomman or pandas.

Every number is returned as a ``Num``: value + the half unit in the last printed place, so the
caller can propagate "to the printed precision" exactly (also for %e formats).
"""
import re

import numpy as np


class FormatError(Exception):
    """The text violates a rule of the format (message says which)."""


class Num(float):
    """float parsed from text; ``.hu`` = half a unit of the last printed digit; ``.text`` the token."""
    def __new__(cls, tok):
        try:
            v = float(tok)
        except ValueError:
            raise FormatError('not a number: %r' % (tok,))
        if not np.isfinite(v):
            raise FormatError('non-finite number: %r' % (tok,))
        o = super().__new__(cls, v)
        o.text = tok
        o.hu = _half_ulp(tok)
        return o


_NUMRE = re.compile(r'^[+-]?(\d+)?(?:\.(\d*))?(?:[eEdD]([+-]?\d+))?$')


def _half_ulp(tok):
    m = _NUMRE.match(tok)
    if not m or (m.group(1) is None and not m.group(2)):
        raise FormatError('malformed number: %r' % (tok,))
    ndec = len(m.group(2) or '')
    ex = int(m.group(3) or 0)
    return 0.5 * 10.0 ** (ex - ndec)


def as_int(tok, what):
    """strict integer token (LAMMPS utils::inumeric / VASP counts reject '1.0')."""
    if not re.match(r'^[+-]?\d+$', tok):
        raise FormatError('%s must be an integer, got %r' % (what, tok))
    return int(tok)


def vals(nums):
    return np.array([float(x) for x in nums], dtype=float)


def hus(nums):
    return np.array([x.hu for x in nums], dtype=float)


# ---------------------------------------------------------------------------------------------
# LAMMPS data file (read_data)

# Atoms-section columns per atom_style (LAMMPS manual, read_data, "Atoms section").
# kind: i = integer, f = float.
DATA_ATOM_COLUMNS = {
    'angle':      'id mol type x y z',
    'atomic':     'id type x y z',
    'body':       'id type bodyflag mass x y z',
    'bond':       'id mol type x y z',
    'charge':     'id type q x y z',
    'dipole':     'id type q x y z mux muy muz',
    'electron':   'id type q spin eradius x y z',
    'ellipsoid':  'id type ellipsoidflag density x y z',
    'full':       'id mol type q x y z',
    'line':       'id mol type lineflag density x y z',
    'meso':       'id type rho e cv x y z',
    'molecular':  'id mol type x y z',
    'peri':       'id type volume density x y z',
    'smd':        'id type mol volume mass kernelradius contactradius x y z',
    'sphere':     'id type diameter density x y z',
    'template':   'id mol templateindex templateatom type x y z',
    'tri':        'id mol type triangleflag density x y z',
    'wavepacket': 'id type q spin eradius etag cs_re cs_im x y z',
}
INT_COLUMNS = {'id', 'mol', 'type', 'bodyflag', 'ellipsoidflag', 'lineflag', 'triangleflag', 'spin',
               'etag', 'templateindex', 'templateatom', 'ix', 'iy', 'iz', 'proc', 'procp1'}

# Velocities-section columns per atom_style (read_data, "Velocities section")
DATA_VELOCITY_EXTRA = {'electron': 'ervel', 'ellipsoid': 'lx ly lz', 'sphere': 'wx wy wz'}

HEADER_KEYWORDS = [
    # (regex on the comment-stripped line, name, number of leading values, integer?)
    (r'^\s*(\S+)\s+atoms\s*$', 'atoms', 1, True),
    (r'^\s*(\S+)\s+atom\s+types\s*$', 'atom types', 1, True),
    (r'^\s*(\S+)\s+bonds\s*$', 'bonds', 1, True),
    (r'^\s*(\S+)\s+angles\s*$', 'angles', 1, True),
    (r'^\s*(\S+)\s+dihedrals\s*$', 'dihedrals', 1, True),
    (r'^\s*(\S+)\s+impropers\s*$', 'impropers', 1, True),
    (r'^\s*(\S+)\s+bond\s+types\s*$', 'bond types', 1, True),
    (r'^\s*(\S+)\s+angle\s+types\s*$', 'angle types', 1, True),
    (r'^\s*(\S+)\s+ellipsoids\s*$', 'ellipsoids', 1, True),
    (r'^\s*(\S+)\s+lines\s*$', 'lines', 1, True),
    (r'^\s*(\S+)\s+triangles\s*$', 'triangles', 1, True),
    (r'^\s*(\S+)\s+bodies\s*$', 'bodies', 1, True),
    (r'^\s*(\S+)\s+(\S+)\s+xlo\s+xhi\s*$', 'xlo xhi', 2, False),
    (r'^\s*(\S+)\s+(\S+)\s+ylo\s+yhi\s*$', 'ylo yhi', 2, False),
    (r'^\s*(\S+)\s+(\S+)\s+zlo\s+zhi\s*$', 'zlo zhi', 2, False),
    (r'^\s*(\S+)\s+(\S+)\s+(\S+)\s+xy\s+xz\s+yz\s*$', 'xy xz yz', 3, False),
]
SECTION_KEYWORDS = {'Atoms', 'Velocities', 'Masses', 'Bonds', 'Angles', 'Dihedrals', 'Impropers',
                    'Ellipsoids', 'Lines', 'Triangles', 'Bodies', 'Pair Coeffs', 'PairIJ Coeffs',
                    'Bond Coeffs', 'Angle Coeffs'}


def data_atom_columns(atom_style):
    """column names of one Atoms line (without the optional image flags)."""
    words = atom_style.split()
    if words[0] != 'hybrid':
        if len(words) != 1 or words[0] not in DATA_ATOM_COLUMNS:
            raise FormatError('unknown atom_style %r' % atom_style)
        return DATA_ATOM_COLUMNS[words[0]].split()
    if len(words) < 2:
        raise FormatError('hybrid needs sub-styles')
    cols = 'id type x y z'.split()
    for sub in words[1:]:
        if sub not in DATA_ATOM_COLUMNS:
            raise FormatError('unknown atom sub-style %r' % sub)
        for c in DATA_ATOM_COLUMNS[sub].split():
            if c not in cols:
                cols.append(c)
    return cols


def data_velocity_columns(atom_style):
    words = atom_style.split()
    cols = 'id vx vy vz'.split()
    subs = words[1:] if words[0] == 'hybrid' else words
    for sub in subs:
        for c in DATA_VELOCITY_EXTRA.get(sub, '').split():
            if c not in cols:
                cols.append(c)
    return cols


def _strip_comment(line):
    k = line.find('#')
    return (line if k < 0 else line[:k]), (None if k < 0 else line[k + 1:].strip())


def parse_data(text, atom_style):
    """Read a LAMMPS data file the way read_data does.  Returns a dict:
       natoms, ntypes, lo(3 Num), hi(3 Num), tilt (3 Num or None), style_hint,
       atoms: {column: list}, flags: (N,3) int array or None, velocities: {column: list} or None,
       masses: {type: Num} or None, order: section names in file order."""
    if '\r' in text:
        raise FormatError('carriage return in file')
    lines = text.split('\n')
    if lines and lines[-1] == '':
        lines = lines[:-1]
    if not lines:
        raise FormatError('empty file')
    out = dict(natoms=None, ntypes=None, lo=[None] * 3, hi=[None] * 3, tilt=None, style_hint=None,
               atoms=None, flags=None, velocities=None, masses=None, order=[], header_other={})
    k = 1                                            # the first line is always skipped
    # ---- header
    seen = set()
    while k < len(lines):
        body, _ = _strip_comment(lines[k])
        if not body.strip():
            k += 1
            continue
        for rx, name, nval, isint in HEADER_KEYWORDS:
            m = re.match(rx, body)
            if m:
                if name in seen:
                    raise FormatError('header keyword %r given twice' % name)
                seen.add(name)
                toks = m.groups()
                if name == 'atoms':
                    out['natoms'] = as_int(toks[0], 'atoms count')
                elif name == 'atom types':
                    out['ntypes'] = as_int(toks[0], 'atom types count')
                elif name in ('xlo xhi', 'ylo yhi', 'zlo zhi'):
                    d = 'xyz'.index(name[0])
                    out['lo'][d], out['hi'][d] = Num(toks[0]), Num(toks[1])
                elif name == 'xy xz yz':
                    out['tilt'] = [Num(t) for t in toks]
                else:
                    out['header_other'][name] = as_int(toks[0], name)
                break
        else:
            break                                    # first non-header line: a section keyword
        k += 1
    if out['natoms'] is None:
        raise FormatError('header: "N atoms" missing')
    if out['natoms'] < 0:
        raise FormatError('negative atom count')
    if out['natoms'] > 0 and (out['ntypes'] is None or out['ntypes'] < 1):
        raise FormatError('header: "N atom types" missing or < 1')
    for d in range(3):
        if out['lo'][d] is None:
            raise FormatError('header: %slo %shi missing' % ('xyz'[d], 'xyz'[d]))
    # ---- sections
    n = out['natoms']
    while k < len(lines):
        body, comment = _strip_comment(lines[k])
        if not body.strip():
            k += 1
            continue
        key = ' '.join(body.split())
        if key not in SECTION_KEYWORDS:
            raise FormatError('unknown section keyword or header line: %r' % lines[k])
        if key in out['order']:
            raise FormatError('section %s given twice' % key)
        out['order'].append(key)
        k += 1
        # the line after a section keyword is consumed unread; it has to be blank
        if k >= len(lines):
            raise FormatError('file ends after section keyword %s' % key)
        if lines[k].strip():
            raise FormatError('line after section keyword %s is not blank: %r' % (key, lines[k]))
        k += 1
        if key == 'Atoms':
            out['style_hint'] = comment
            cols = data_atom_columns(atom_style)
            rows = _read_rows(lines, k, n, 'Atoms')
            k += n
            nw = len(rows[0]) if rows else len(cols)
            if nw not in (len(cols), len(cols) + 3):
                raise FormatError('Atoms line has %d words; atom_style %s needs %d or %d'
                                  % (nw, atom_style, len(cols), len(cols) + 3))
            table = {c: [] for c in cols}
            flags = [] if nw == len(cols) + 3 else None
            for r in rows:
                if len(r) != nw:
                    raise FormatError('Atoms lines have differing word counts')
                for c, t in zip(cols, r):
                    table[c].append(as_int(t, 'Atoms column ' + c) if c in INT_COLUMNS else Num(t))
                if flags is not None:
                    flags.append([as_int(t, 'image flag') for t in r[len(cols):]])
            out['atoms'] = table
            out['flags'] = None if flags is None else np.array(flags, dtype=int).reshape(n, 3)
        elif key == 'Velocities':
            if out['atoms'] is None:
                raise FormatError('Velocities section before Atoms section')
            cols = data_velocity_columns(atom_style)
            rows = _read_rows(lines, k, n, 'Velocities')
            k += n
            table = {c: [] for c in cols}
            for r in rows:
                if len(r) != len(cols):
                    raise FormatError('Velocities line has %d words; atom_style %s needs %d'
                                      % (len(r), atom_style, len(cols)))
                for c, t in zip(cols, r):
                    table[c].append(as_int(t, 'Velocities column ' + c) if c in INT_COLUMNS else Num(t))
            out['velocities'] = table
        elif key == 'Masses':
            rows = _read_rows(lines, k, out['ntypes'], 'Masses')
            k += out['ntypes']
            ms = {}
            for r in rows:
                if len(r) != 2:
                    raise FormatError('Masses line needs 2 words')
                t = as_int(r[0], 'mass type')
                if not 1 <= t <= out['ntypes'] or t in ms:
                    raise FormatError('invalid or repeated type in Masses')
                ms[t] = Num(r[1])
                if ms[t] <= 0:
                    raise FormatError('mass must be > 0')
            out['masses'] = ms
        else:
            raise FormatError('section %s is not expected from atomman' % key)
    if n > 0 and out['atoms'] is None:
        raise FormatError('no Atoms section')
    # ---- semantic rules of read_data
    for d in range(3):
        if not float(out['lo'][d]) < float(out['hi'][d]):
            raise FormatError('box: %slo >= %shi (%s %s)' % ('xyz'[d], 'xyz'[d], out['lo'][d].text, out['hi'][d].text))
    if out['atoms'] is not None:
        ids = out['atoms']['id']
        if len(set(ids)) != len(ids):
            raise FormatError('atom ids not unique')
        if any(i <= 0 for i in ids):
            raise FormatError('atom id <= 0')
        if any(not 1 <= t <= out['ntypes'] for t in out['atoms']['type']):
            raise FormatError('atom type outside 1..%d' % out['ntypes'])
    if out['velocities'] is not None:
        vid = out['velocities']['id']
        if sorted(vid) != sorted(out['atoms']['id']):
            raise FormatError('Velocities ids are not the atom ids')
    return out


def _read_rows(lines, k, n, what):
    if k + n > len(lines):
        raise FormatError('%s section: %d lines expected, file ends after %d' % (what, n, len(lines) - k))
    rows = []
    for j in range(k, k + n):
        body, _ = _strip_comment(lines[j])
        words = body.split()
        if not words:
            raise FormatError('%s section: blank/comment line inside the %d data lines' % (what, n))
        rows.append(words)
    # what follows the n lines must be blank, a section keyword or the end -- not a further data line
    if k + n < len(lines):
        body, _ = _strip_comment(lines[k + n])
        nxt = ' '.join(body.split())
        if nxt and nxt not in SECTION_KEYWORDS:
            raise FormatError('%s section: more than %d data lines' % (what, n))
    return rows


def data_cell(d):
    """origin (3,), vects (3,3) and their absolute print uncertainties from a parsed data file."""
    lo, hi = vals(d['lo']), vals(d['hi'])
    hlo, hhi = hus(d['lo']), hus(d['hi'])
    t = vals(d['tilt']) if d['tilt'] is not None else np.zeros(3)
    ht = hus(d['tilt']) if d['tilt'] is not None else np.zeros(3)
    L = hi - lo
    vects = np.array([[L[0], 0, 0], [t[0], L[1], 0], [t[1], t[2], L[2]]])
    hv = np.array([[hlo[0] + hhi[0], 0, 0], [ht[0], hlo[1] + hhi[1], 0], [ht[1], ht[2], hlo[2] + hhi[2]]])
    return lo, vects, hlo, hv


# ---------------------------------------------------------------------------------------------
# LAMMPS dump file (dump atom / dump custom, text)

BOUND_FLAGS = {a + b for a in 'pfsm' for b in 'pfsm' if (a == 'p') == (b == 'p')}


def parse_dump(text):
    """One snapshot of a LAMMPS text dump.  Returns dict: timestep, natoms, triclinic,
       bflags (3 str), bounds (3x2 Num), tilt (3 Num or None), columns (list), rows (list of token lists)."""
    if '\r' in text:
        raise FormatError('carriage return in file')
    lines = text.split('\n')
    if lines and lines[-1] == '':
        lines = lines[:-1]
    k = 0

    def need(prefix):
        nonlocal k
        if k >= len(lines) or not lines[k].startswith(prefix):
            raise FormatError('expected %r at line %d, found %r' % (prefix, k + 1, lines[k] if k < len(lines) else None))
        rest = lines[k][len(prefix):]
        k += 1
        return rest

    def data_line():
        nonlocal k
        if k >= len(lines):
            raise FormatError('file ends early')
        w = lines[k].split()
        if not w or w[0] == 'ITEM:':
            raise FormatError('data line expected at line %d, found %r' % (k + 1, lines[k]))
        k += 1
        return w
    out = {}
    if need('ITEM: TIMESTEP').strip():
        raise FormatError('junk after ITEM: TIMESTEP')
    w = data_line()
    if len(w) != 1:
        raise FormatError('timestep line')
    out['timestep'] = as_int(w[0], 'timestep')
    if need('ITEM: NUMBER OF ATOMS').strip():
        raise FormatError('junk after ITEM: NUMBER OF ATOMS')
    w = data_line()
    if len(w) != 1:
        raise FormatError('number of atoms line')
    out['natoms'] = as_int(w[0], 'number of atoms')
    if out['natoms'] < 0:
        raise FormatError('negative number of atoms')
    bw = need('ITEM: BOX BOUNDS').split()
    if len(bw) == 6:
        if bw[:3] != ['xy', 'xz', 'yz']:
            raise FormatError('BOX BOUNDS with 6 words must start "xy xz yz"')
        out['triclinic'] = True
        bw = bw[3:]
    elif len(bw) == 3:
        out['triclinic'] = False
    else:
        raise FormatError('BOX BOUNDS needs 3 boundary flags (after optional xy xz yz)')
    for b in bw:
        if b not in BOUND_FLAGS:
            raise FormatError('invalid boundary flag %r' % b)
    out['bflags'] = bw
    bounds, tilt = [], []
    for d in range(3):
        w = data_line()
        if len(w) != (3 if out['triclinic'] else 2):
            raise FormatError('box bounds line %d has %d numbers' % (d, len(w)))
        bounds.append([Num(w[0]), Num(w[1])])
        if out['triclinic']:
            tilt.append(Num(w[2]))
    out['bounds'] = bounds
    out['tilt'] = tilt if out['triclinic'] else None
    cols = need('ITEM: ATOMS').split()
    if not cols:
        raise FormatError('ITEM: ATOMS lists no columns')
    if len(set(cols)) != len(cols):
        raise FormatError('ITEM: ATOMS repeats a column name')
    out['columns'] = cols
    rows = []
    for _ in range(out['natoms']):
        w = data_line()
        if len(w) != len(cols):
            raise FormatError('atom line has %d words, header lists %d columns' % (len(w), len(cols)))
        rows.append(w)
    out['rows'] = rows
    while k < len(lines):
        if lines[k].strip():
            raise FormatError('content after the %d atom lines: %r' % (out['natoms'], lines[k]))
        k += 1
    if 'id' in cols:
        ids = [as_int(r[cols.index('id')], 'id') for r in rows]
        if len(set(ids)) != len(ids):
            raise FormatError('atom ids not unique')
    return out


def dump_cell(d):
    """origin, vects and print uncertainties of the cell a dump snapshot describes:
       xlo = xlo_bound - min(0,xy,xz,xy+xz), xhi = xhi_bound - max(0,xy,xz,xy+xz),
       ylo = ylo_bound - min(0,yz), yhi = yhi_bound - max(0,yz)."""
    b = np.array([[float(x) for x in r] for r in d['bounds']])
    hb = np.array([[x.hu for x in r] for r in d['bounds']])
    if d['triclinic']:
        xy, xz, yz = vals(d['tilt'])
        hxy, hxz, hyz = hus(d['tilt'])
    else:
        xy = xz = yz = hxy = hxz = hyz = 0.0
    lo = np.array([b[0, 0] - min(0.0, xy, xz, xy + xz), b[1, 0] - min(0.0, yz), b[2, 0]])
    hi = np.array([b[0, 1] - max(0.0, xy, xz, xy + xz), b[1, 1] - max(0.0, yz), b[2, 1]])
    hlo = np.array([hb[0, 0] + hxy + hxz, hb[1, 0] + hyz, hb[2, 0]])
    hhi = np.array([hb[0, 1] + hxy + hxz, hb[1, 1] + hyz, hb[2, 1]])
    L = hi - lo
    vects = np.array([[L[0], 0, 0], [xy, L[1], 0], [xz, yz, L[2]]])
    hv = np.array([[hlo[0] + hhi[0], 0, 0], [hxy, hlo[1] + hhi[1], 0], [hxz, hyz, hlo[2] + hhi[2]]])
    return lo, vects, hlo, hv


# ---------------------------------------------------------------------------------------------
# VASP POSCAR

def parse_poscar(text):
    """Returns dict: comment, scale (Num), lattice (3x3 Num, as printed), symbols (list or None),
       counts (list of int), cartesian (bool), coords (N x 3 Num, as printed), and the derived
       vects (scale*lattice), cart (absolute Cartesian coordinates: scale*coords in Cartesian mode,
       coords @ vects in direct mode) and frac."""
    if '\r' in text:
        raise FormatError('carriage return in file')
    lines = text.split('\n')
    if len(lines) < 7:
        raise FormatError('POSCAR has fewer than 7 lines')
    out = {'comment': lines[0]}
    w = lines[1].split()
    if len(w) != 1:
        raise FormatError('line 2 must hold one scale factor, got %r' % lines[1])
    out['scale'] = Num(w[0])
    if float(out['scale']) == 0:
        raise FormatError('scale factor 0')
    lat = []
    for j in (2, 3, 4):
        w = lines[j].split()
        if len(w) != 3:
            raise FormatError('lattice vector line %d needs 3 numbers: %r' % (j + 1, lines[j]))
        lat.append([Num(t) for t in w])
    out['lattice'] = lat
    k = 5
    w = lines[k].split()
    if not w:
        raise FormatError('line 6 is blank')
    if not re.match(r'^[+-]?\d', w[0]):
        for s in w:
            if not re.match(r'^[A-Za-z][A-Za-z_0-9/]*$', s):
                raise FormatError('bad species name %r' % s)
        out['symbols'] = w
        k += 1
        w = lines[k].split()
    else:
        out['symbols'] = None
    if not w:
        raise FormatError('counts line is blank')
    counts = [as_int(t, 'ions per species') for t in w]
    if any(c < 0 for c in counts):
        raise FormatError('negative ion count')
    out['counts'] = counts
    if out['symbols'] is not None and len(out['symbols']) != len(counts):
        raise FormatError('%d species names but %d counts' % (len(out['symbols']), len(counts)))
    k += 1
    if k >= len(lines) or not lines[k].strip():
        raise FormatError('coordinate mode line missing')
    if lines[k].strip()[0] in 'sS':
        out['selective'] = True
        k += 1
        if k >= len(lines) or not lines[k].strip():
            raise FormatError('coordinate mode line missing')
    else:
        out['selective'] = False
    out['cartesian'] = lines[k].lstrip()[0] in 'cCkK'
    out['mode_line'] = lines[k]
    k += 1
    n = sum(counts)
    if n < 1:
        raise FormatError('no atoms')
    coords = []
    for j in range(k, k + n):
        if j >= len(lines):
            raise FormatError('%d coordinate lines expected, file ends after %d' % (n, j - k))
        w = lines[j].split()
        if len(w) < 3:
            raise FormatError('coordinate line %d has fewer than 3 numbers: %r' % (j + 1, lines[j]))
        coords.append([Num(t) for t in w[:3]])
    for j in range(k + n, len(lines)):
        w = lines[j].split()
        if len(w) >= 3:
            try:
                [float(t) for t in w[:3]]
            except ValueError:
                continue
            raise FormatError('more coordinate lines than the %d announced by the counts line' % n)
        if w:
            break
    out['coords'] = coords
    s = float(out['scale'])
    L = np.array([[float(x) for x in r] for r in lat])
    hL = np.array([[x.hu for x in r] for r in lat])
    if s < 0:
        vol = abs(np.linalg.det(L))
        s = (-s / vol) ** (1.0 / 3.0)
    out['vects'] = s * L
    out['hvects'] = abs(s) * hL + out['scale'].hu * np.abs(L)
    C = np.array([[float(x) for x in r] for r in coords])
    hC = np.array([[x.hu for x in r] for r in coords])
    if out['cartesian']:
        out['cart'] = s * C
        out['hcart'] = abs(s) * hC + out['scale'].hu * np.abs(C)
        out['frac'] = None
    else:
        out['frac'] = C
        out['hfrac'] = hC
        out['cart'] = C @ out['vects']
        out['hcart'] = hC @ np.abs(out['vects']) + np.abs(C) @ out['hvects']
    return out
