"""Working-tree overlay of atomman.

Every check runs against a private copy of the *current* /repo/atomman python
sources plus extension modules compiled from the *current* .pyx/.pxd files.
The compiled extensions are cached under /verif/.cache/ext/<hash>/ keyed by the
content of every .pyx/.pxd and of setup.py, so a stale in-tree .so can never be
picked up and an edited .pyx is always rebuilt.
"""
import hashlib
import os
import shutil
import subprocess
import sys
import tempfile

VERIF = os.path.dirname(os.path.dirname(os.path.abspath(__file__)))
PY = '/venv/bin/python'
CACHE = os.path.join(VERIF, '.cache', 'ext')


def repo_root():
    return os.environ.get('VERIF_REPO', '/repo')


def _cython_sources(root):
    out = []
    for d, _, files in os.walk(os.path.join(root, 'atomman')):
        for f in files:
            if f.endswith('.pyx') or f.endswith('.pxd'):
                out.append(os.path.join(d, f))
    return sorted(out)


def ext_hash(root):
    h = hashlib.sha256()
    h.update(sys.version.encode())
    for p in _cython_sources(root) + [os.path.join(root, 'setup.py')]:
        h.update(os.path.relpath(p, root).encode())
        with open(p, 'rb') as f:
            h.update(f.read())
    return h.hexdigest()[:24]


def _ignore(d, names):
    return [n for n in names
            if n == '__pycache__' or n.endswith('.so') or n.endswith('.c')
            or n.endswith('.pyc') or n.endswith('.pyd')]


def build_ext(root, verbose=True):
    """Return the cache directory holding .so files for the tree at root."""
    key = ext_hash(root)
    dst = os.path.join(CACHE, key)
    if os.path.isfile(os.path.join(dst, '.done')):
        return dst
    scratch = tempfile.mkdtemp(prefix='atomman_ext_')
    try:
        shutil.copytree(os.path.join(root, 'atomman'),
                        os.path.join(scratch, 'atomman'), ignore=_ignore)
        for f in ('setup.py', 'README.rst', 'MANIFEST.in', 'pyproject.toml'):
            if os.path.exists(os.path.join(root, f)):
                shutil.copy(os.path.join(root, f), scratch)
        if verbose:
            print(f'[overlay] compiling Cython extensions ({key}) ...',
                  file=sys.stderr, flush=True)
        env = dict(os.environ)
        env.pop('PYTHONPATH', None)
        r = subprocess.run([PY, 'setup.py', 'build_ext', '--inplace', '-j', '8'],
                           cwd=scratch, env=env, stdout=subprocess.PIPE,
                           stderr=subprocess.STDOUT, text=True)
        if r.returncode != 0:
            sys.stderr.write(r.stdout[-4000:])
            raise RuntimeError('extension build failed')
        tmpdst = dst + '.tmp%d' % os.getpid()
        shutil.rmtree(tmpdst, ignore_errors=True)
        os.makedirs(tmpdst)
        n = 0
        for d, _, files in os.walk(os.path.join(scratch, 'atomman')):
            for f in files:
                if f.endswith('.so'):
                    rel = os.path.relpath(os.path.join(d, f), scratch)
                    os.makedirs(os.path.dirname(os.path.join(tmpdst, rel)),
                                exist_ok=True)
                    shutil.copy(os.path.join(d, f), os.path.join(tmpdst, rel))
                    n += 1
        if n < 5:
            raise RuntimeError('expected 5 extension modules, built %d' % n)
        open(os.path.join(tmpdst, '.done'), 'w').close()
        # keep one older generation at most
        os.makedirs(CACHE, exist_ok=True)
        if os.path.isdir(dst):
            shutil.rmtree(dst, ignore_errors=True)
        os.rename(tmpdst, dst)
        gens = sorted((os.path.getmtime(os.path.join(CACHE, g)), g)
                      for g in os.listdir(CACHE)
                      if os.path.isdir(os.path.join(CACHE, g)) and '.tmp' not in g)
        for _, g in gens[:-16]:
            shutil.rmtree(os.path.join(CACHE, g), ignore_errors=True)
        return dst
    finally:
        shutil.rmtree(scratch, ignore_errors=True)


def make_overlay(root=None):
    """Create <tmp>/atomman = python sources of the working tree + fresh .so.
    Returns the directory to put on PYTHONPATH (caller removes it)."""
    root = root or repo_root()
    ext = build_ext(root)
    top = tempfile.mkdtemp(prefix='atomman_overlay_')
    shutil.copytree(os.path.join(root, 'atomman'),
                    os.path.join(top, 'atomman'), ignore=_ignore)
    for d, _, files in os.walk(os.path.join(ext, 'atomman')):
        for f in files:
            if f.endswith('.so'):
                rel = os.path.relpath(os.path.join(d, f), ext)
                shutil.copy(os.path.join(d, f), os.path.join(top, rel))
    return top


if __name__ == '__main__':
    print(build_ext(repo_root()))
