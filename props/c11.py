"""C11 - elastic-constant representations are one tensor; rotation is a tensor rotation.

Bounded-exhaustive enumeration over
  * general symmetric positive-definite 6x6 stiffness matrices (each of the 15 off-diagonal
    couplings switched on alone, dense matrices with 21 distinct entries, one seed slice),
  * grids of named constants of the seven crystal systems (filtered by positive-definiteness)
    and every pair of isotropic moduli (with the alias names) on a (lambda, mu) grid,
  * 42 proper rotations (24 cubic, 12 hexagonal, 10 exact rational from integer quaternions;
    duplicates removed) plus one seed-slice irrational rotation, every ordered pair for composition,
  * 21 strains (6 unit strains + 15 pair sums; they determine a quadratic form completely).

Oracles, written from the definitions and never calling the class under test:
  index-loop Voigt <-> full maps (sigma_I = c_IJ e_J with engineering shear strains), 9x9 layout,
  compliance from the inverse of the Kelvin/Mandel matrix (an independent route to S_ijkl),
  C'_ijkl = T_ia T_jb T_kc T_ld C_abcd applied one index at a time (validated once against the
  8-fold index loop), point groups built from generators, isotropic tensor
  lambda dd + mu (dd + dd), Voigt/Reuss bounds from the tensor invariants C_iijj, C_ijij, S_iijj, S_ijij.
"""
import itertools
import sys

import numpy as np

from mc.common import Check, Explorer, Fail, SEED, THOROUGH, assert_overlay, digest

am = assert_overlay()
EC = am.ElasticConstants

chk = Check('C11', 'exploration',
            'full product: {general SPD 6x6 matrices, crystal-system constant grids (PD-filtered), 33 isotropic modulus-name pairs x 3x3 (lambda,mu)} '
            'x {every representation getter/setter round trip, symmetries, C:S=I_sym, named-entry placement, invariance under every element of the '
            "system's point group, normalized_as fixed point / idempotence / is_normal} and x {every rotation of the menu: transform vs explicit tensor "
            'rotation, strain energy of 21 co-rotated strains, Voigt/Reuss/Hill bulk and shear, inverse}; composition transform(A).transform(B) = '
            'transform(B A) for every ordered pair of rotations (quick: the dense general matrices; thorough: all general and isotropic tensors and the quick grid of every crystal system).  evaluations = transform() calls + '
            'representation conversions + constructor calls; distinct_nontrivial = distinct (tensor, rotation) pairs whose rotated tensor differs from the '
            'original by more than 1e-6 max|C| plus distinct tensors.  Plus an explicit-state BFS over histories (depth <= 3 quick / 4 thorough) of '
            'reads and writes on ONE live object (5 getters, 6 moduli, transform, normalized_as, is_normal, model, 5 setters x 3 tensors, cubic()), '
            'states distinct by (tensor last written, byte-exact internal state of the real object)')
chk.assumptions = [
    'representation round trips and symmetries compared to 1e-9 max|C| (the class itself zeroes |C| < 1e-9 max); menu entries are exactly 0 or >= 1e-3 max|C|',
    'transform() zeroes entries below tol=1e-8 max (documented default); one transform is compared to 2e-8 max|C|, chains of two to 1.2e-7 max|C| '
    '(a perturbation delta is amplified by at most (sum_j |T_ij|)^4 <= 9 by the second rotation)',
    'strain energy tolerance 4.5 |eps|_F^2 * 2e-8 max|C|; Voigt moduli 4e-8 max|C|; Reuss/Hill moduli relative 1e-6 * cond(C) (first-order perturbation of the inverse)',
    'only positive-definite tensors with lambda_min/lambda_max >= 0.01 (Mandel matrix) are admitted',
    'normalized_as("monoclinic") is not supported by the library (ValueError) and is not part of the idempotence clause',
    'LAPACK inverse of the 6x6 Mandel matrix trusted to cond*eps',
]

# ---------------------------------------------------------------------------
# oracles from the definitions

PAIR = [(0, 0), (1, 1), (2, 2), (1, 2), (0, 2), (0, 1)]          # Voigt index -> tensor index pair
VOIGT = {}
for _I, (_i, _j) in enumerate(PAIR):
    VOIGT[(_i, _j)] = _I
    VOIGT[(_j, _i)] = _I
PAIR9 = PAIR + [(2, 1), (2, 0), (1, 0)]                          # 9x9 layout: 11 22 33 23 13 12 32 31 21
DELTA = np.eye(3)


def full_from_voigt(c):
    """stiffness: C_ijkl = c_IJ"""
    C = np.zeros((3, 3, 3, 3))
    for i in range(3):
        for j in range(3):
            for k in range(3):
                for l in range(3):
                    C[i, j, k, l] = c[VOIGT[(i, j)]][VOIGT[(k, l)]]
    return C


def nine_from_full(C):
    m = np.zeros((9, 9))
    for a, (i, j) in enumerate(PAIR9):
        for b, (k, l) in enumerate(PAIR9):
            m[a, b] = C[i, j, k, l]
    return m


def mandel_from_full(C):
    f = [1.0, 1.0, 1.0, np.sqrt(2.0), np.sqrt(2.0), np.sqrt(2.0)]
    m = np.zeros((6, 6))
    for I, (i, j) in enumerate(PAIR):
        for J, (k, l) in enumerate(PAIR):
            m[I, J] = C[i, j, k, l] * f[I] * f[J]
    return m


def full_from_mandel(m):
    f = [1.0, 1.0, 1.0, np.sqrt(2.0), np.sqrt(2.0), np.sqrt(2.0)]
    C = np.zeros((3, 3, 3, 3))
    for i in range(3):
        for j in range(3):
            for k in range(3):
                for l in range(3):
                    I, J = VOIGT[(i, j)], VOIGT[(k, l)]
                    C[i, j, k, l] = m[I, J] / (f[I] * f[J])
    return C


def compliance_full(C):
    """S_ijkl with C:S = symmetric identity, through the Kelvin/Mandel 6x6 matrix (a proper tensor basis)."""
    return full_from_mandel(np.linalg.inv(mandel_from_full(C)))


def compliance_voigt_from_full(S):
    """engineering convention e_I = s_IJ sigma_J with e_4 = 2 eps_23 ...: s_IJ = w_I w_J S_ijkl, w = 1,1,1,2,2,2"""
    w = [1, 1, 1, 2, 2, 2]
    s = np.zeros((6, 6))
    for I, (i, j) in enumerate(PAIR):
        for J, (k, l) in enumerate(PAIR):
            s[I, J] = w[I] * w[J] * S[i, j, k, l]
    return s


def rot4(C, T):
    """C'_ijkl = T_ia T_jb T_kc T_ld C_abcd, one index at a time."""
    out = C
    for pos in range(4):
        out = np.moveaxis(np.tensordot(T, out, axes=([1], [pos])), 0, pos)
    return out


def rot4_loops(C, T):
    out = np.zeros((3, 3, 3, 3))
    rng = range(3)
    for i in rng:
        for j in rng:
            for k in rng:
                for l in rng:
                    s = 0.0
                    for a in rng:
                        for b in rng:
                            for c in rng:
                                for d in rng:
                                    s += T[i, a] * T[j, b] * T[k, c] * T[l, d] * C[a, b, c, d]
                    out[i, j, k, l] = s
    return out


def sym_identity():
    I4 = np.zeros((3, 3, 3, 3))
    for i in range(3):
        for j in range(3):
            for k in range(3):
                for l in range(3):
                    I4[i, j, k, l] = 0.5 * (DELTA[i, k] * DELTA[j, l] + DELTA[i, l] * DELTA[j, k])
    return I4


def isotropic_full(lam, mu):
    C = np.zeros((3, 3, 3, 3))
    for i in range(3):
        for j in range(3):
            for k in range(3):
                for l in range(3):
                    C[i, j, k, l] = lam * DELTA[i, j] * DELTA[k, l] + mu * (DELTA[i, k] * DELTA[j, l] + DELTA[i, l] * DELTA[j, k])
    return C


def ddot(A, B, n):
    """contract the last n indices of A with the first n of B"""
    return np.tensordot(A, B, axes=(list(range(A.ndim - n, A.ndim)), list(range(n))))


def moduli_from_full(C):
    """Voigt / Reuss / Hill bounds from the linear invariants of the stiffness and compliance tensors."""
    S = compliance_full(C)
    c_iijj = sum(C[i, i, j, j] for i in range(3) for j in range(3))
    c_ijij = sum(C[i, j, i, j] for i in range(3) for j in range(3))
    s_iijj = sum(S[i, i, j, j] for i in range(3) for j in range(3))
    s_ijij = sum(S[i, j, i, j] for i in range(3) for j in range(3))
    kv = c_iijj / 9.0
    gv = (3.0 * c_ijij - c_iijj) / 30.0
    kr = 1.0 / s_iijj
    gr = 15.0 / (6.0 * s_ijij - 2.0 * s_iijj)
    return {'bulk': {'Voigt': kv, 'Reuss': kr, 'Hill': 0.5 * (kv + kr)},
            'shear': {'Voigt': gv, 'Reuss': gr, 'Hill': 0.5 * (gv + gr)}}


# ---------------------------------------------------------------------------
# rotations

def rz(deg):
    m = np.array([[np.cos(np.radians(deg)), -np.sin(np.radians(deg)), 0.0],
                  [np.sin(np.radians(deg)), np.cos(np.radians(deg)), 0.0], [0.0, 0.0, 1.0]])
    for v in (0.0, 0.5, -0.5, 1.0, -1.0):          # exact values of the crystallographic angles
        m[np.abs(m - v) < 1e-12] = v
    return m


RX2 = np.diag([1.0, -1.0, -1.0])
RY2 = np.diag([-1.0, 1.0, -1.0])


def quat_int(a, b, c, d):
    """integer matrix n*R of the rotation of the integer quaternion (a,b,c,d); rows are orthogonal, right-handed, norm n."""
    return np.array([[a * a + b * b - c * c - d * d, 2 * (b * c - a * d), 2 * (b * d + a * c)],
                     [2 * (b * c + a * d), a * a - b * b + c * c - d * d, 2 * (c * d - a * b)],
                     [2 * (b * d - a * c), 2 * (c * d + a * b), a * a - b * b - c * c + d * d]], dtype=float)


def _cubic24():
    out = []
    for perm in itertools.permutations(range(3)):
        for signs in itertools.product([1.0, -1.0], repeat=3):
            m = np.zeros((3, 3))
            for r in range(3):
                m[r, perm[r]] = signs[r]
            if np.linalg.det(m) > 0:
                out.append(m)
    return out


def rodrigues(axis, deg):
    axis = np.asarray(axis, float) / np.linalg.norm(axis)
    t = np.radians(deg)
    K = np.array([[0, -axis[2], axis[1]], [axis[2], 0, -axis[0]], [-axis[1], axis[0], 0]])
    return np.eye(3) + np.sin(t) * K + (1 - np.cos(t)) * K @ K


QUATS = [(1, 2, 2, 0), (2, 1, 1, 1), (1, 2, 3, 1), (3, 1, 0, 1), (1, 0, 2, 0), (1, 0, 0, 2), (2, 1, 0, 0), (1, 2, 2, 4), (1, 1, 2, 3), (1, 3, -1, 2)]
_SEED_ROT = [([1, 2, 3], 37.0), ([2, -1, 5], 71.3), ([-1, 4, 2], 123.4), ([3, 1, -2], 15.9),
             ([1, -1, 1], 88.8), ([5, 2, 1], 160.1), ([0, 3, -4], 52.2), ([2, 2, -7], 101.7)]


def _rotations():
    """(label, axes as handed to transform, unit rotation matrix)"""
    out = []

    def add(label, axes):
        unit = axes / np.linalg.norm(axes, axis=1)[:, None]
        for _, _, u in out:
            if np.abs(u - unit).max() < 1e-12:
                return
        out.append((label, axes, unit))
    for k, m in enumerate(_cubic24()):
        add('cubic%d' % k, m)
    for k in range(6):
        add('hex-z%d' % (60 * k), rz(60 * k))
    for k in range(6):
        add('hex-2fold%d' % (30 * k), rz(60 * k) @ RX2)
    for q in QUATS:
        add('quat%s' % (q,), quat_int(*q))          # integer, non-unit rows: axes_check normalises
    add('seed-slice', rodrigues(*_SEED_ROT[SEED % 8]))
    return out


ROTS = _rotations()

# point groups in atomman's standard setting (3- / 4- / 6-fold axis along z, 2-fold of the dihedral groups along x,
# monoclinic unique axis y)
GROUPS = {
    'cubic': _cubic24(),
    'hexagonal': [rz(60 * k) for k in range(6)] + [rz(60 * k) @ RX2 for k in range(6)],
    'tetragonal6': [rz(90 * k) for k in range(4)] + [rz(90 * k) @ RX2 for k in range(4)],
    'tetragonal7': [rz(90 * k) for k in range(4)],
    'rhombohedral6': [rz(120 * k) for k in range(3)] + [rz(120 * k) @ RX2 for k in range(3)],
    'rhombohedral7': [rz(120 * k) for k in range(3)],
    'orthorhombic': [np.eye(3), RX2, RY2, rz(180)],
    'monoclinic': [np.eye(3), RY2],
    'triclinic': [np.eye(3)],
    'isotropic': [u for _, _, u in ROTS],
}

# a 6-fold axis makes a fourth-rank tensor transversely isotropic: further elements a hexagonal tensor must be invariant under
EXTRA_INVARIANCE = {'hexagonal': [quat_int(1, 0, 0, 2) / 5.0, quat_int(3, 0, 0, 1) / 10.0, rz(17.0), rz(17.0) @ RX2]}

# strains: 6 unit strains + 15 pair sums
_E = []
for (_i, _j) in PAIR:
    e = np.zeros((3, 3))
    e[_i, _j] = e[_j, _i] = 1.0 if _i == _j else 0.5
    _E.append(e)
STRAINS = _E + [_E[a] + _E[b] for a in range(6) for b in range(a + 1, 6)]


# ---------------------------------------------------------------------------
# tensors

def _spd_ok(c):
    w = np.linalg.eigvalsh(mandel_from_full(full_from_voigt(c)))
    return w[0] > 0 and w[0] / w[-1] >= 0.01


def _general():
    out = []
    diag = np.array([210.0, 260.0, 330.0, 70.0, 95.0, 120.0])
    k = 0
    for i in range(6):
        for j in range(i + 1, 6):
            c = np.diag(diag)
            v = [35.0, -28.0, 22.0][k % 3]
            c[i, j] = c[j, i] = v
            out.append(('single-%d%d' % (i + 1, j + 1), c))
            k += 1
    # dense: 21 distinct entries
    vals = [[81.0, 63.0, 58.0, 12.0, -9.0, 7.0], [77.0, 49.0, -11.0, 14.0, 6.5], [66.0, 8.0, -13.0, 10.5], [9.5, -7.5], [5.5]]
    base = [[240.0, 265.0, 310.0, 85.0, 105.0, 125.0], [180.0, 350.0, 220.0, 140.0, 60.0, 90.0]]
    for b, d in enumerate(base):
        for sgn in (1.0, -1.0):
            c = np.diag(d)
            for i in range(5):
                for n, j in enumerate(range(i + 1, 6)):
                    x = vals[i][n] * (1.0 if (i < 3 and j < 3) else sgn) * (1.0 + 0.13 * b)
                    c[i, j] = c[j, i] = x
            out.append(('dense-%d%s' % (b, '+' if sgn > 0 else '-'), c))
    s = SEED % 8
    c = np.diag([200.0 + 11 * s, 250.0 - 7 * s, 300.0 + 5 * s, 80.0 + 3 * s, 100.0 - 2 * s, 110.0 + 4 * s])
    for i in range(5):
        for n, j in enumerate(range(i + 1, 6)):
            c[i, j] = c[j, i] = vals[i][n] * (0.55 + 0.03 * s) * (-1.0) ** (i + j + s)      # positive definite with margin for every s
    out.append(('dense-seed-slice', c))
    for name, c in out:
        assert _spd_ok(c), name
    return out


def _grid(**dom):
    names = list(dom)
    for combo in itertools.product(*[dom[n] for n in names]):
        yield dict(zip(names, combo))


def _system_sets(T3):
    """-> list of (system, group key, kwargs) for the canonical way of giving the constants (T3: thorough grid, a superset)."""
    out = []
    for kw in _grid(C11=[110.0, 170.0, 250.0], C12=[40.0, 70.0, 100.0], C44=[28.0, 77.0, 125.0]):
        out.append(('cubic', 'cubic', kw))
    for kw in _grid(C11=[160.0, 300.0], C12=[60.0, 90.0], C13=[50.0, 70.0, 110.0], C33=[180.0, 350.0], C44=[40.0, 95.0, 130.0]):
        out.append(('hexagonal', 'hexagonal', kw))
    j1333 = [(50.0, 150.0), (50.0, 320.0), (90.0, 150.0), (90.0, 320.0)] if T3 else [(50.0, 150.0), (90.0, 320.0)]
    for kw in _grid(C11=[200.0, 300.0], C12=[60.0, 110.0], C13_C33=j1333, C44=[40.0, 110.0], C66=[55.0, 130.0],
                    C16=[None, 12.0, -25.0] + ([0.0, 40.0] if T3 else [])):
        kw['C13'], kw['C33'] = kw.pop('C13_C33')
        grp = 'tetragonal7' if kw['C16'] else 'tetragonal6'
        if kw['C16'] is None:
            kw = {k: v for k, v in kw.items() if k != 'C16'}
        out.append(('tetragonal', grp, kw))
    for kw in _grid(C11=[200.0, 300.0], C12=[60.0, 110.0], C13_C33=j1333, C14=[-20.0, 15.0], C44=[60.0, 110.0],
                    C15=[None, 9.0, -14.0] + ([0.0, 21.0] if T3 else [])):
        kw['C13'], kw['C33'] = kw.pop('C13_C33')
        grp = 'rhombohedral7' if kw['C15'] else 'rhombohedral6'
        if kw['C15'] is None:
            kw = {k: v for k, v in kw.items() if k != 'C15'}
        out.append(('rhombohedral', grp, kw))
    if T3:
        og = _grid(C11=[190.0, 280.0], C22=[230.0, 160.0], C33=[310.0, 205.0], C12=[55.0, 95.0], C13=[48.0, 88.0], C23=[66.0, 104.0],
                   C44=[45.0, 120.0], C55=[72.0, 98.0], C66=[110.0, 58.0])
    else:
        og = (dict(C11=d[0], C22=d[1], C33=d[2], C12=o12, C13=o13, C23=o23, C44=s[0], C55=s[1], C66=s[2])
              for d in ((190.0, 230.0, 310.0), (280.0, 160.0, 205.0)) for o12 in (55.0, 95.0) for o13 in (48.0, 88.0) for o23 in (66.0, 104.0)
              for s in ((45.0, 72.0, 110.0), (120.0, 98.0, 58.0)))
    for kw in og:
        out.append(('orthorhombic', 'orthorhombic', kw))
    mono_vals = [-17.0, 13.0] + ([0.0] if T3 else [])
    bases = [dict(C11=190.0, C22=230.0, C33=310.0, C12=55.0, C13=48.0, C23=66.0, C44=45.0, C55=72.0, C66=110.0),
             dict(C11=280.0, C22=160.0, C33=205.0, C12=95.0, C13=88.0, C23=104.0, C44=120.0, C55=98.0, C66=58.0)]
    for b in bases:
        for c15, c25, c35, c46 in itertools.product(mono_vals, repeat=4):
            kw = dict(b)
            kw.update(C15=c15, C25=1.3 * c25, C35=-0.8 * c35, C46=0.6 * c46)
            out.append(('monoclinic', 'monoclinic', kw))
    for name, c in _general():
        kw = {'C%d%d' % (i + 1, j + 1): float(c[i, j]) for i in range(6) for j in range(i, 6)}
        out.append(('triclinic', 'triclinic', kw))
    return out


# isotropic moduli: name -> function of (lambda, mu)
ISO_NAMES = {
    'M': lambda l, m: l + 2 * m, 'C11': lambda l, m: l + 2 * m,
    'lambda': lambda l, m: l, 'C12': lambda l, m: l,
    'mu': lambda l, m: m, 'C44': lambda l, m: m,
    'E': lambda l, m: m * (3 * l + 2 * m) / (l + m),
    'nu': lambda l, m: l / (2 * (l + m)),
    'K': lambda l, m: l + 2 * m / 3,
}
_SAME = [{'M', 'C11'}, {'lambda', 'C12'}, {'mu', 'C44'}]
ISO_PAIRS = [p for p in itertools.combinations(list(ISO_NAMES), 2) if set(p) not in _SAME]
LAMS = [0.3, 1.0, 2.5]
MUS = [0.4, 1.0, 3.0]

GENERAL = _general()
SYSTEM_SETS_ALL = _system_sets(THOROUGH)
_CORE = {repr(sorted(kw.items())) for _, _, kw in _system_sets(False)}     # the quick grid, a subset of the thorough one
NORMAL_SYSTEMS = ['triclinic', 'isotropic', 'cubic', 'hexagonal', 'tetragonal', 'rhombohedral', 'orthorhombic']
NORMAL_GROUP = {'triclinic': 'triclinic', 'isotropic': 'isotropic', 'cubic': 'cubic', 'hexagonal': 'hexagonal',
                'tetragonal': 'tetragonal7', 'rhombohedral': 'rhombohedral7', 'orthorhombic': 'orthorhombic'}


TRI = [(i, j) for i in range(6) for j in range(i, 6)]       # the 21 coordinates of a symmetric Voigt matrix
_SUBSPACE = {}


def invariant_subspace(grp_key):
    """orthonormal basis (21 x d) of the Voigt matrices whose tensor is invariant under the point group: range of the
    group-average projector, computed with the oracle rotation."""
    if grp_key not in _SUBSPACE:
        P = np.zeros((21, 21))
        for n, (i, j) in enumerate(TRI):
            e = np.zeros((6, 6))
            e[i, j] = e[j, i] = 1.0
            E = full_from_voigt(e)
            avg = sum(rot4(E, g) for g in GROUPS[grp_key]) / len(GROUPS[grp_key])
            for m, (a, b) in enumerate(TRI):
                P[m, n] = avg[PAIR[a] + PAIR[b]]
        u, sv, _ = np.linalg.svd(P)
        d = int((sv > 0.5).sum())
        assert np.all((sv[:d] > 1e-6)) and np.all(sv[d:] < 1e-9)
        _SUBSPACE[grp_key] = u[:, :d]
    return _SUBSPACE[grp_key]


def _admissible(system, kw):
    """The tensor 'of this crystal system with these named constants': the unique element of the point group's invariant
    subspace whose named Voigt entries have the given values (harness error if the names are not coordinates of that
    subspace).  Returns (positive definite with bounded condition?, its Voigt matrix)."""
    U = invariant_subspace(_group_key(system, kw))
    rows = [TRI.index((int(k[1]) - 1, int(k[2]) - 1)) for k in kw]
    vals = np.array([kw[k] for k in kw])
    A = U[rows]
    assert np.linalg.matrix_rank(A, tol=1e-9) == U.shape[1], ('named constants do not determine the tensor', system, kw)
    x, *_ = np.linalg.lstsq(A, vals, rcond=None)
    assert np.abs(A @ x - vals).max() < 1e-9 * np.abs(vals).max(), ('named constants inconsistent with the point group', system, kw)
    flat = U @ x
    cv = np.zeros((6, 6))
    for n, (i, j) in enumerate(TRI):
        cv[i, j] = cv[j, i] = flat[n]
    cv[np.abs(cv) < 1e-11 * np.abs(cv).max()] = 0.0
    return _spd_ok(cv), cv


def _group_key(system, kw):
    if system == 'tetragonal':
        return 'tetragonal7' if kw.get('C16') else 'tetragonal6'
    if system == 'rhombohedral':
        return 'rhombohedral7' if kw.get('C15') else 'rhombohedral6'
    return system


SYSTEM_SETS = []
CORE_SYSTEM = set()
N_REJECTED = 0
for _sys, _grp, _kw in SYSTEM_SETS_ALL:
    _ok, _cv = _admissible(_sys, _kw)
    if _ok:
        SYSTEM_SETS.append((_sys, _grp, _kw, _cv))
        if repr(sorted(_kw.items())) in _CORE:
            CORE_SYSTEM.add(len(SYSTEM_SETS) - 1)
    else:
        N_REJECTED += 1

# alternative ways of naming the same hexagonal / rhombohedral material (2 C66 = C11 - C12)
def variants(system, kw):
    out = [('canonical', kw)]
    if system in ('hexagonal', 'rhombohedral'):
        c66 = (kw['C11'] - kw['C12']) / 2
        a = dict(kw); a.pop('C12'); a['C66'] = c66
        b = dict(kw); b.pop('C11'); b['C66'] = c66
        c = dict(kw); c['C66'] = c66     # hexagonal: six names are read by the tetragonal reader, which must give the same matrix
        out += [('C11+C66', a), ('C12+C66', b), ('C11+C12+C66', c)]
    return out


def tensor_list():
    """every tensor that is rotated: ('general', i) and ('system', i)"""
    out = [('general', i) for i in range(len(GENERAL))]
    out += [('system', i) for i in range(len(SYSTEM_SETS))]
    out += [('isotropic', i) for i in range(len(LAMS) * len(MUS))]
    return out


def build(kind, i):
    """-> (real object, oracle full tensor of what was handed in, group key)"""
    if kind == 'general':
        c = GENERAL[i][1].copy()
        return EC(Cij=c.copy()), full_from_voigt(c), 'triclinic'
    if kind == 'system':
        system, grp, kw, cv = SYSTEM_SETS[i]
        return EC(**kw), full_from_voigt(cv), grp
    lam, mu = LAMS[i // len(MUS)], MUS[i % len(MUS)]
    return EC(**{'lambda': lam, 'mu': mu}), isotropic_full(lam, mu), 'isotropic'


# ---------------------------------------------------------------------------
# shared judgements

def close(a, b, tol):
    return np.abs(np.asarray(a) - np.asarray(b)).max() <= tol


def judge_representations(ec, C0, tag):
    """every getter agrees with the oracle expansion of the tensor C0; every setter restores it."""
    fails = []
    cmax = np.abs(C0).max()
    tol = 1e-9 * cmax
    c0 = np.array([[C0[PAIR[I] + PAIR[J]] for J in range(6)] for I in range(6)])
    S0 = compliance_full(C0)
    s0 = compliance_voigt_from_full(S0)
    stol = 1e-9 * np.abs(S0).max()
    got = {'Cij': ec.Cij, 'Cij9': ec.Cij9, 'Cijkl': ec.Cijkl, 'Sij': ec.Sij, 'Sijkl': ec.Sijkl}
    exp = {'Cij': (c0, tol), 'Cij9': (nine_from_full(C0), tol), 'Cijkl': (C0, tol), 'Sij': (s0, stol), 'Sijkl': (S0, stol)}
    chk.note('representation-conversions', 5)
    for name in got:
        e, t = exp[name]
        if np.shape(got[name]) != e.shape:
            fails.append(Fail(key='%s-get-%s-shape' % (tag, name), msg='%s has shape %s' % (name, np.shape(got[name]))))
        elif not close(got[name], e, t):
            idx = np.unravel_index(np.argmax(np.abs(got[name] - e)), e.shape)
            fails.append(Fail(key='%s-get-%s' % (tag, name), msg='%s differs from the tensor it must represent at index %s' % (name, idx),
                              observed=float(got[name][idx]), expected=float(e[idx])))
    if fails:
        return fails
    C, S = got['Cijkl'], got['Sijkl']
    # minor and major symmetries
    for name, X, t in (('Cijkl', C, tol), ('Sijkl', S, stol)):
        if not (close(X, X.transpose(1, 0, 2, 3), t) and close(X, X.transpose(0, 1, 3, 2), t)):
            fails.append(Fail(key='%s-%s-minor-symmetry' % (tag, name), msg='%s lacks a minor symmetry' % name))
        if not close(X, X.transpose(2, 3, 0, 1), t):
            fails.append(Fail(key='%s-%s-major-symmetry' % (tag, name), msg='%s lacks the major symmetry' % name))
    # C : S = symmetric identity
    I4 = sym_identity()
    cond = np.linalg.cond(mandel_from_full(C0))
    if not close(ddot(C, S, 2), I4, 1e-9) or not close(ddot(S, C, 2), I4, 1e-9):
        fails.append(Fail(key='%s-C:S-identity' % tag, msg='Cijkl : Sijkl is not the symmetric fourth-order identity',
                          max_dev=float(np.abs(ddot(C, S, 2) - I4).max()), cond=float(cond)))
    # setters: each representation rebuilds the same object
    rebuilt = {'Cij': lambda: EC(Cij=got['Cij']), 'Cij9': lambda: EC(Cij9=got['Cij9']), 'Cijkl': lambda: EC(Cijkl=got['Cijkl']),
               'Sij': lambda: EC(Sij=got['Sij']), 'Sijkl': lambda: EC(Sijkl=got['Sijkl']),
               'oracle-Cij9': lambda: EC(Cij9=nine_from_full(C0)), 'oracle-Cijkl': lambda: EC(Cijkl=C0.copy()),
               'oracle-Sij': lambda: EC(Sij=s0.copy()), 'oracle-Sijkl': lambda: EC(Sijkl=S0.copy())}
    chk.note('representation-conversions', len(rebuilt))
    for name, fn in rebuilt.items():
        try:
            c = fn().Cij
        except AssertionError as e:
            fails.append(Fail(key='%s-set-%s-refused' % (tag, name), msg='valid %s representation refused: %s' % (name, e)))
            continue
        t = tol if 'S' not in name else 1e-9 * cmax * max(1.0, cond / 10)
        if not close(c, c0, t):
            idx = np.unravel_index(np.argmax(np.abs(c - c0)), c0.shape)
            fails.append(Fail(key='%s-set-%s' % (tag, name), msg='object rebuilt from %s is a different tensor (Cij index %s)' % (name, idx),
                              observed=float(c[idx]), expected=float(c0[idx])))
    return fails


def judge_invariance(ec, C0, grp_key, tag):
    """C0 (oracle expansion) and the real object are invariant under every element of the group."""
    fails = []
    cmax = np.abs(C0).max()
    elements = GROUPS[grp_key] + EXTRA_INVARIANCE.get(grp_key, [])
    for n, g in enumerate(elements):
        if not close(rot4(C0, g), C0, 1e-9 * cmax):
            fails.append(Fail(key='%s-not-invariant-%s' % (tag, grp_key), msg='tensor is not invariant under element %d of point group %s' % (n, grp_key),
                              element=g, max_dev=float(np.abs(rot4(C0, g) - C0).max())))
            break
    if ec is not None and not fails:
        for n, g in enumerate(elements):
            chk.note('transforms', 1)
            c = ec.transform(g).Cijkl
            if not close(c, C0, 2e-8 * cmax):
                fails.append(Fail(key='%s-transform-not-invariant-%s' % (tag, grp_key),
                                  msg='transform() by element %d of point group %s changes the tensor' % (n, grp_key), element=g))
                break
    return fails


# ---------------------------------------------------------------------------
# clauses

@chk.clause('representations')
def representations(case):
    kind, i = case['tensor']
    ec, C0, grp = build(kind, i)
    chk.note('distinct-tensors', 1)
    return judge_representations(ec, C0, 'rep')


@chk.clause('constants')
def constants(case):
    """named constants of a crystal system: placement, point-group invariance, equivalent namings, normalisation."""
    system, grp, kw, cv = SYSTEM_SETS[case['k']]
    fails = []
    cmax = np.abs(cv).max()
    for vname, vkw in variants(system, kw):
        chk.note('constructor-calls', 1)
        try:
            ec = EC(**vkw)
        except Exception as e:
            fails.append(Fail(key='ctor-%s-%s-raises' % (system, vname), msg='%s: %s for admissible constants %s' % (type(e).__name__, e, vkw)))
            continue
        c = ec.Cij
        # 1. every named constant sits at its Voigt position (both triangles)
        for name, v in vkw.items():
            a, b = int(name[1]) - 1, int(name[2]) - 1
            if abs(c[a, b] - v) > 1e-9 * cmax or abs(c[b, a] - v) > 1e-9 * cmax:
                fails.append(Fail(key='ctor-%s-%s-placement-%s' % (system, vname, name), msg='%s=%s given, Cij[%d,%d]=%s' % (name, v, a, b, c[a, b])))
        # 2. invariant under the system's point group (oracle rotation of the oracle expansion of what the object holds,
        #    then the object's own transform)
        C = full_from_voigt(c)
        fails += judge_invariance(ec if vname == 'canonical' else None, C, grp, 'ctor-%s-%s' % (system, vname))
        # 3. the same material as the canonical naming (1 + 2 fix the tensor uniquely: the names are coordinates of the
        #    invariant subspace; cv is the invariant tensor carrying the named entries)
        if not close(c, cv, 1e-9 * cmax):
            idx = np.unravel_index(np.argmax(np.abs(c - cv)), cv.shape)
            fails.append(Fail(key='ctor-%s-%s-tensor' % (system, vname), msg='constants %s give Cij%s=%s, the %s tensor with these constants has %s'
                              % (vkw, idx, c[idx], system, cv[idx])))
    if fails:
        return fails
    ec = EC(**kw)
    C0 = full_from_voigt(cv)
    fails += judge_representations(ec, C0, 'ctor-' + system)
    # normalising a tensor of a system to that system changes nothing; it reports itself normal
    if system != 'monoclinic':
        chk.note('normalizations', 2)
        n1 = ec.normalized_as(system)
        if not close(n1.Cij, cv, 4e-9 * cmax):
            idx = np.unravel_index(np.argmax(np.abs(n1.Cij - cv)), cv.shape)
            fails.append(Fail(key='normalized_as-%s-not-fixed' % system, msg='normalized_as(%r) changes a %s tensor at Cij%s: %s -> %s'
                              % (system, system, idx, cv[idx], n1.Cij[idx])))
        if not close(n1.normalized_as(system).Cij, n1.Cij, 4e-9 * cmax):
            fails.append(Fail(key='normalized_as-%s-not-idempotent' % system, msg='normalized_as(%r) twice differs from once' % system))
        if not ec.is_normal(system):
            fails.append(Fail(key='is_normal-%s-false' % system, msg='is_normal(%r) is False for a tensor built from %s constants' % (system, system)))
    return fails


@chk.clause('isotropic')
def isotropic(case):
    n1, n2 = ISO_PAIRS[case['pair']]
    lam, mu = LAMS[case['lam']], MUS[case['mu']]
    v1, v2 = ISO_NAMES[n1](lam, mu), ISO_NAMES[n2](lam, mu)
    C0 = isotropic_full(lam, mu)
    cmax = np.abs(C0).max()
    fails = []
    chk.note('constructor-calls', 2)
    for order, kw in (('ab', {n1: v1, n2: v2}), ('ba', {n2: v2, n1: v1})):
        try:
            ec = EC(**kw)
        except Exception as e:
            return [Fail(key='iso-%s+%s-raises' % (n1, n2), msg='%s: %s for %s' % (type(e).__name__, e, kw))]
        if not close(ec.Cijkl, C0, 1e-9 * cmax):
            c = ec.Cij
            return [Fail(key='iso-%s+%s-tensor' % (n1, n2), msg='%s does not give lambda=%s mu=%s: C11=%s C12=%s C44=%s' % (kw, lam, mu, c[0, 0], c[0, 1], c[3, 3]))]
    fails += judge_representations(ec, C0, 'iso')
    K = lam + 2 * mu / 3
    for style in ('Voigt', 'Reuss', 'Hill'):
        if abs(ec.bulk(style) - K) > 1e-9 * cmax:
            fails.append(Fail(key='iso-bulk-' + style, msg='bulk(%r)=%s, K=%s' % (style, ec.bulk(style), K)))
        if abs(ec.shear(style) - mu) > 1e-9 * cmax:
            fails.append(Fail(key='iso-shear-' + style, msg='shear(%r)=%s, mu=%s' % (style, ec.shear(style), mu)))
    if abs(ec.bulk() - K) > 1e-9 * cmax or abs(ec.shear() - mu) > 1e-9 * cmax:
        fails.append(Fail(key='iso-default-style', msg='default style is not consistent'))
    chk.note('normalizations', 2)
    n = ec.normalized_as('isotropic')
    if not close(n.Cijkl, C0, 4e-9 * cmax):
        fails.append(Fail(key='normalized_as-isotropic-not-fixed', msg='normalized_as("isotropic") changes an isotropic tensor'))
    if not close(n.normalized_as('isotropic').Cij, n.Cij, 4e-9 * cmax):
        fails.append(Fail(key='normalized_as-isotropic-not-idempotent', msg='twice differs from once'))
    if not ec.is_normal('isotropic'):
        fails.append(Fail(key='is_normal-isotropic-false', msg='is_normal("isotropic") False for an isotropic tensor'))
    return fails


@chk.clause('rotation')
def rotation(case):
    """one tensor x every rotation of the menu: transform == tensor rotation, identity, inverse, strain energy, V/R/H moduli."""
    kind, i = case['tensor']
    ec, C0, grp = build(kind, i)
    k = case.get('scale', 1.0)
    if k != 1.0:
        # the same tensor held as small (large) numbers, as under working units where a pressure unit is large (small):
        # every clean-up threshold of the class is documented as relative to the largest constant
        ec, C0 = EC(Cij=k * np.asarray(ec.Cij)), k * C0
        chk.note('rotations-of-rescaled-tensors', 1)
    cmax = np.abs(C0).max()
    fails = []
    mod0 = moduli_from_full(C0)
    cond = np.linalg.cond(mandel_from_full(C0))
    # the moduli of the unrotated object are the invariants of the tensor
    for what, fn in (('bulk', ec.bulk), ('shear', ec.shear)):
        for style in ('Voigt', 'Reuss', 'Hill'):
            if abs(fn(style) - mod0[what][style]) > 1e-9 * cmax:
                fails.append(Fail(key='%s-%s-value' % (what, style), msg='%s(%r)=%s differs from the tensor invariant %s' % (what, style, fn(style), mod0[what][style])))
    # identity
    chk.note('transforms', 1)
    if not close(ec.transform(np.eye(3)).Cijkl, C0, 1e-9 * cmax):
        fails.append(Fail(key='transform-identity', msg='transform(identity) changes the tensor'))
    if fails:
        return fails
    seen = set()
    for r, (label, axes, T) in enumerate(ROTS):
        chk.note('transforms', 2)
        ec2 = ec.transform(axes)
        C2 = ec2.Cijkl
        exp = rot4(C0, T)
        scale = max(cmax, np.abs(exp).max())
        if np.abs(exp - C0).max() > 1e-6 * cmax:
            chk.note('tensor-rotation-pairs-that-change-the-tensor', 1)
        if not close(C2, exp, 2e-8 * scale):
            idx = np.unravel_index(np.argmax(np.abs(C2 - exp)), exp.shape)
            fails.append(Fail(key='transform-value', msg='transform(%s) is not the tensor rotation T T T T C (index %s)' % (label, idx),
                              observed=float(C2[idx]), expected=float(exp[idx])))
            seen.add('value')
        # strain energy of co-rotated strains
        if 'energy' not in seen:
            for e in STRAINS:
                e2 = T @ e @ T.T
                w0 = 0.5 * float(ddot(ddot(e, C0, 2), e, 2))
                w2 = 0.5 * float(ddot(ddot(e2, C2, 2), e2, 2))
                chk.note('strain-energy-evaluations', 1)
                if abs(w2 - w0) > 4.5 * (e ** 2).sum() * 2e-8 * scale:
                    fails.append(Fail(key='strain-energy', msg='strain energy density changes under transform(%s) with co-rotated strain' % label,
                                      before=w0, after=w2))
                    seen.add('energy')
                    break
        # Voigt / Reuss / Hill moduli
        for what in ('bulk', 'shear'):
            for style in ('Voigt', 'Reuss', 'Hill'):
                v = getattr(ec2, what)(style)
                t = 4e-8 * scale if style == 'Voigt' else 1e-6 * cond * abs(mod0[what][style])
                if abs(v - mod0[what][style]) > t and (what, style) not in seen:
                    fails.append(Fail(key='%s-%s-not-invariant' % (what, style), msg='%s(%r) changes under transform(%s): %s -> %s'
                                      % (what, style, label, mod0[what][style], v)))
                    seen.add((what, style))
        # inverse
        back = ec2.transform(T.T).Cijkl
        if not close(back, C0, 1.2e-7 * scale) and 'inverse' not in seen:
            fails.append(Fail(key='transform-inverse', msg='transform(%s) followed by the transposed axes does not restore the tensor' % label))
            seen.add('inverse')
    return fails


@chk.clause('composition')
def composition(case):
    """transform(A).transform(B) == transform(B A) for one tensor, one A and every B."""
    kind, i = case['tensor']
    ec, C0, grp = build(kind, i)
    label_a, axes_a, A = ROTS[case['a']]
    cmax = np.abs(C0).max()
    eca = ec.transform(axes_a)
    chk.note('transforms', 1)
    fails = []
    for label_b, axes_b, B in ROTS:
        chk.note('transforms', 2)
        chk.note('compositions', 1)
        two = eca.transform(axes_b).Cijkl
        one = ec.transform(B @ A).Cijkl
        scale = max(cmax, np.abs(one).max())
        if not close(two, one, 1.2e-7 * scale):
            fails.append(Fail(key='composition', msg='transform(%s).transform(%s) != transform(B A)' % (label_a, label_b)))
            break
        if not close(two, rot4(rot4(C0, A), B), 1.2e-7 * scale):
            fails.append(Fail(key='composition-value', msg='transform(%s).transform(%s) is not the twice rotated tensor' % (label_a, label_b)))
            break
    return fails


@chk.clause('normalize')
def normalize(case):
    """normalized_as(system) of a general tensor: idempotent, result has the symmetry of the system and is_normal."""
    kind, i = case['tensor']
    system = NORMAL_SYSTEMS[case['system']]
    ec, C0, grp = build(kind, i)
    cmax = np.abs(C0).max()
    chk.note('normalizations', 2)
    n1 = ec.normalized_as(system)
    n2 = n1.normalized_as(system)
    fails = []
    if not close(n2.Cij, n1.Cij, 4e-9 * cmax):
        idx = np.unravel_index(np.argmax(np.abs(n2.Cij - n1.Cij)), (6, 6))
        fails.append(Fail(key='normalized_as-%s-not-idempotent' % system, msg='normalized_as(%r) twice differs from once at Cij%s: %s vs %s'
                          % (system, idx, n2.Cij[idx], n1.Cij[idx])))
    if system == 'triclinic' and not close(n1.Cijkl, C0, 1e-9 * cmax):
        fails.append(Fail(key='normalized_as-triclinic-changes', msg='normalized_as("triclinic") changes the tensor'))
    fails += judge_invariance(None, full_from_voigt(n1.Cij), NORMAL_GROUP[system], 'normalized-' + system)
    if not n1.is_normal(system):
        fails.append(Fail(key='is_normal-%s-false-after-normalizing' % system, msg='is_normal(%r) False for the result of normalized_as(%r)' % (system, system)))
    return fails



# ---------------------------------------------------------------------------
# explicit-state search over ONE live ElasticConstants object
#
# A state is reached by replaying a history of reads (every representation getter, the six moduli, transform,
# normalized_as, is_normal, model) and writes (every representation setter and the crystal-system setters, for
# each tensor of a small menu) on a fresh real object.  The reference model is the index of the tensor last
# written.  States are merged only when the model state AND the complete internal state of the real object
# (vars(), byte for byte) coincide, so an implementation that starts caching a derived representation simply
# has more states, all of which are explored: every read must return the oracle expansion of the model tensor
# whatever was read or written before (this is what "every representation describes the same law" means for
# an object that lives longer than one call).

HT = None


def _history_menu():
    global HT
    if HT is None:
        dense = [c for name, c in GENERAL if name.startswith('dense')]
        cub = dict(C11=170.0, C12=70.0, C44=77.0)
        HT = [('general', dense[0], None), ('general', dense[1], None),
              ('cubic', full6_cubic(cub), cub)]
    return HT


def full6_cubic(kw):
    c = np.zeros((6, 6))
    for i in range(3):
        c[i, i] = kw['C11']
        c[i + 3, i + 3] = kw['C44']
        for j in range(3):
            if i != j:
                c[i, j] = kw['C12']
    return c


H_GET = ['Cij', 'Sij', 'Cij9', 'Cijkl', 'Sijkl']
H_ROT = [3, len(ROTS) - 1]
H_NORM = ['cubic', 'isotropic', 'rhombohedral']


def h_ops(state):
    out = [{'op': 'get', 'what': w} for w in H_GET]
    out += [{'op': 'mod', 'what': w, 'style': st} for w in ('bulk', 'shear') for st in ('Voigt', 'Reuss', 'Hill')]
    out += [{'op': 'transform', 'r': r} for r in H_ROT]
    out += [{'op': 'normalized_as', 'system': sy} for sy in H_NORM]
    out += [{'op': 'is_normal'}, {'op': 'model'}]
    for t in range(len(_history_menu())):
        out += [{'op': 'set', 'what': w, 't': t} for w in H_GET]
    out += [{'op': 'named', 't': 2}]
    return out


def _expect(C0, what):
    if what == 'Cijkl':
        return C0
    if what == 'Cij9':
        return nine_from_full(C0)
    if what == 'Cij':
        return np.array([[C0[PAIR[I] + PAIR[J]] for J in range(6)] for I in range(6)])
    S0 = compliance_full(C0)
    return S0 if what == 'Sijkl' else compliance_voigt_from_full(S0)


def _h_tol(C0, what):
    cond = np.linalg.cond(mandel_from_full(C0))
    if what.startswith('S'):
        return 1e-8 * np.abs(compliance_full(C0)).max() * max(1.0, cond / 10)
    return 1e-8 * np.abs(C0).max() * max(1.0, cond / 10)


def h_build(history):
    menu = _history_menu()
    ec = EC(Cij=menu[0][1].copy())
    model = 0
    fails = []
    for step, op in enumerate(history):
        C0 = full_from_voigt(menu[model][1])
        if op['op'] == 'get':
            got = getattr(ec, op['what'])
            exp = _expect(C0, op['what'])
            if np.shape(got) != exp.shape or not close(got, exp, _h_tol(C0, op['what'])):
                fails.append(Fail(key='read-%s-after-history' % op['what'],
                                  msg='%s read after %s is not the representation of the tensor last written' % (op['what'], [h['op'] + ':' + str(h.get('what', '')) for h in history[:step]])))
            else:
                got[...] = -7.0       # a returned array must not be live storage of the object
        elif op['op'] == 'mod':
            v = getattr(ec, op['what'])(op['style'])
            e = moduli_from_full(C0)[op['what']][op['style']]
            if abs(v - e) > 1e-6 * np.linalg.cond(mandel_from_full(C0)) * abs(e):
                fails.append(Fail(key='%s-%s-after-history' % (op['what'], op['style']), msg='%s(%r)=%s, tensor invariant %s' % (op['what'], op['style'], v, e)))
        elif op['op'] == 'transform':
            label, axes, T = ROTS[op['r']]
            got = ec.transform(axes).Cijkl
            exp = rot4(C0, T)
            if not close(got, exp, 2e-7 * np.abs(C0).max()):
                fails.append(Fail(key='transform-after-history', msg='transform(%s) after a history is not the tensor rotation' % label))
        elif op['op'] == 'normalized_as':
            n1 = ec.normalized_as(op['system'])
            if not close(n1.normalized_as(op['system']).Cij, n1.Cij, 4e-8 * np.abs(C0).max()):
                fails.append(Fail(key='normalized_as-%s-not-idempotent-after-history' % op['system'], msg='normalized_as twice differs from once'))
        elif op['op'] == 'is_normal':
            r = ec.is_normal('cubic')
            if bool(r) != (menu[model][0] == 'cubic'):
                fails.append(Fail(key='is_normal-after-history', msg='is_normal("cubic")=%s for a %s tensor' % (r, menu[model][0])))
        elif op['op'] == 'model':
            back = EC(model=ec.model())
            if not close(back.Cijkl, C0, 1e-8 * np.abs(C0).max()):
                fails.append(Fail(key='model-after-history', msg='model() round trip gives another tensor'))
        elif op['op'] == 'set':
            C1 = full_from_voigt(menu[op['t']][1])
            setattr(ec, op['what'], _expect(C1, op['what']).copy())
            model = op['t']
        elif op['op'] == 'named':
            ec.cubic(**menu[op['t']][2])
            model = op['t']
    return {'ec': ec, 'model': model, 'fails': fails}


def _internal(ec):
    out = []
    for k, v in sorted(vars(ec).items()):
        a = np.asarray(v) if v is not None else None
        out.append((k, None if a is None else (str(a.dtype), a.shape, a.tobytes().hex())))
    return out


def h_canon(state):
    return digest([state['model'], _internal(state['ec'])])


def h_check(history, state):
    fails = list(state['fails'])
    if fails:
        return fails
    import copy
    ec = copy.deepcopy(state['ec'])           # the invariant reads must not disturb the explored object
    C0 = full_from_voigt(_history_menu()[state['model']][1])
    chk.note('representation-conversions', 5)
    for order in (H_GET, H_GET[::-1]):
        for what in order:
            got = getattr(ec, what)
            exp = _expect(C0, what)
            if np.shape(got) != exp.shape or not close(got, exp, _h_tol(C0, what)):
                return [Fail(key='state-%s' % what, msg='in the state reached, %s is not the representation of the tensor last written (model tensor %d)' % (what, state['model']))]
    return []

def selftest():
    """the fast oracle rotation equals the 8-fold index loop; Voigt maps are mutually consistent."""
    C = full_from_voigt(GENERAL[-2][1])
    for _, _, T in (ROTS[5], ROTS[-1], ROTS[-3]):
        assert np.abs(rot4(C, T) - rot4_loops(C, T)).max() < 1e-12 * np.abs(C).max()
    S = compliance_full(C)
    assert np.abs(ddot(C, S, 2) - sym_identity()).max() < 1e-12
    for g in GROUPS:
        for m in GROUPS[g]:
            assert np.abs(m @ m.T - np.eye(3)).max() < 1e-12 and abs(np.linalg.det(m) - 1) < 1e-12, g
    for _, _, T in ROTS:
        assert np.abs(T @ T.T - np.eye(3)).max() < 1e-12 and abs(np.linalg.det(T) - 1) < 1e-12


def gen():
    tensors = tensor_list()
    for t in tensors:
        if t[0] == 'general':
            yield 'representations', {'tensor': t}
    for k in range(len(SYSTEM_SETS)):
        yield 'constants', {'k': k}
    for p in range(len(ISO_PAIRS)):
        for a in range(len(LAMS)):
            for b in range(len(MUS)):
                yield 'isotropic', {'pair': p, 'lam': a, 'mu': b}
    for t in tensors:
        yield 'rotation', {'tensor': t}
        if t[0] == 'general' or THOROUGH or t[1] in CORE_SYSTEM:
            yield 'rotation', {'tensor': t, 'scale': 1e-7}
            yield 'rotation', {'tensor': t, 'scale': 1e9}
    for t in tensors:
        for s in range(len(NORMAL_SYSTEMS)):
            if t[0] == 'general' or THOROUGH:
                yield 'normalize', {'tensor': t, 'system': s}
    for t in tensors:
        # quick: the dense general matrices (21 distinct entries); thorough: every general and isotropic tensor and the
        # core grid of every crystal system
        if (t[0] == 'general' and GENERAL[t[1]][0].startswith('dense')) or (THOROUGH and (t[0] != 'system' or t[1] in CORE_SYSTEM)):
            for a in range(len(ROTS)):
                yield 'composition', {'tensor': t, 'a': a}


if __name__ == '__main__':
    selftest()
    chk.extra['rejected_not_positive_definite'] = N_REJECTED
    ex = Explorer(chk, 'history', h_build, h_ops, h_check, h_canon, max_depth=4 if THOROUGH else 3)
    hist_cov = ex.run()
    chk.run_cases(gen(), batch=4)
    n = chk.notes
    ev = n.get('transforms', 0) + n.get('representation-conversions', 0) + n.get('constructor-calls', 0) + n.get('normalizations', 0)
    dn = n.get('tensor-rotation-pairs-that-change-the-tensor', 0) + len(tensor_list())
    sys.exit(chk.finish({'evaluations': ev, 'distinct_nontrivial': dn, 'calls_cases': sum(chk.counts.values()),
                         'tensors': len(tensor_list()), 'rotations': len(ROTS),
                         'constant_sets_rejected_not_positive_definite': N_REJECTED,
                         'history_states': hist_cov['states'], 'history_transitions': hist_cov['transitions'],
                         'history_max_depth_completed': hist_cov['max_depth_completed']}))
