"""C09 - atomman.unitconvert: invertible, precedence-correct, working-unit independent.

Two parts.

(1) The module-global unit table is a state reached by histories of
    ``reset_units`` calls.  Explicit-state search (Explorer) over the alphabet
    "every non-over-determined named choice of <=4 of length/mass/time/energy/
    charge x unit-name menu, seeds, two refused calls": the table after any
    history equals the table after the last call alone, every chosen unit is
    one, the table is dimensionally coherent.
(2) Bounded-exhaustive enumeration of the expression grammar (all binary trees
    with <= n leaves over names/literals and * / ^, three parenthesisations x
    four whitespace renderings) against an oracle that evaluates the tree
    directly; conversion to a canonical same-dimension expression must give the
    SI number in every table state; set/get inverse for scalars, lists, arrays;
    malformed strings derived from the enumerated ones must raise; the LAMMPS
    unit-style tables have the labelled dimensions.
"""
import itertools
import math
import re
import sys
from fractions import Fraction

import numpy as np

from mc.common import Check, Explorer, Fail, SEED, THOROUGH, assert_overlay

am = assert_overlay()
import atomman.unitconvert as uc          # noqa: E402
import atomman.lammps as lmp              # noqa: E402

chk = Check('C09', 'model_checking',
            'BFS over histories (depth<=2 all, depth 3 over a reduced alphabet in the thorough tier) of reset_units calls: '
            'every non-over-determined subset of <=4 of {length,mass,time,energy,charge} x unit-name menu, seeds, refused '
            'calls; a state is distinct by its last accepted call; every named choice is also called with every permutation of its keywords.  Grammar: every binary expression tree with <=n leaves '
            '(names m,s,kg,eV,angstrom,GPa; literals 2,0.5,1e-3,10; -2 as direct exponent; exponents are literal-only '
            'subtrees) x 3 parenthesisations x 4 whitespace renderings x working-unit configurations, each string parsed by '
            'the real code and compared with direct evaluation of the tree; distinct_nontrivial = distinct expression '
            'strings with at least one operator (counted under the first configuration only) + distinct table states')
chk.assumptions = [
    'parse vs tree evaluation 1e-12 relative (<=8 floating operations, pow included)',
    'set/get inverse 4 ulp relative (two roundings), value*factor kept inside 1e-100..1e100',
    'same-dimension conversion equals the SI number to 1e-10 (a power p amplifies the rounding of its base p times; |p|<=1000)',
    'chosen units equal one to 1e-12; table after a history vs after the last call alone 1e-13 relative',
    '(tree, configuration) pairs with an intermediate value outside 1e-150..1e150 are skipped and counted (float overflow '
    'is outside the statement); chained a^b^c without parentheses is outside the stated precedence and is not generated',
    'SI magnitudes used for coherence are the exactly defined ones only (no measured constants)',
    'electrical LAMMPS entries (charge, dipole, electric field) are outside the statement (mechanical entries only)',
]

DEFAULT = dict(length='angstrom', mass='amu', energy='eV', charge='e')


def set_default():
    uc.reset_units(**DEFAULT)


# --------------------------------------------------------------------------
# independent knowledge: dimensions (L, M, T, Q, Theta) and exact SI magnitudes

TWO_PI = 2 * math.pi
KNOWN = {
    # name: (SI value, dims)
    'm': (1.0, (1, 0, 0, 0, 0)), 'cm': (1e-2, (1, 0, 0, 0, 0)), 'mm': (1e-3, (1, 0, 0, 0, 0)),
    'um': (1e-6, (1, 0, 0, 0, 0)), 'nm': (1e-9, (1, 0, 0, 0, 0)), 'angstrom': (1e-10, (1, 0, 0, 0, 0)),
    'km': (1e3, (1, 0, 0, 0, 0)),
    'kg': (1.0, (0, 1, 0, 0, 0)), 'g': (1e-3, (0, 1, 0, 0, 0)), 'mg': (1e-6, (0, 1, 0, 0, 0)),
    'pg': (1e-15, (0, 1, 0, 0, 0)),
    's': (1.0, (0, 0, 1, 0, 0)), 'ms': (1e-3, (0, 0, 1, 0, 0)), 'us': (1e-6, (0, 0, 1, 0, 0)),
    'ns': (1e-9, (0, 0, 1, 0, 0)), 'ps': (1e-12, (0, 0, 1, 0, 0)), 'fs': (1e-15, (0, 0, 1, 0, 0)),
    'J': (1.0, (2, 1, -2, 0, 0)), 'mJ': (1e-3, (2, 1, -2, 0, 0)), 'kJ': (1e3, (2, 1, -2, 0, 0)),
    'erg': (1e-7, (2, 1, -2, 0, 0)), 'eV': (1.602176634e-19, (2, 1, -2, 0, 0)), 'kcal': (4184.0, (2, 1, -2, 0, 0)),
    'N': (1.0, (1, 1, -2, 0, 0)), 'dyn': (1e-5, (1, 1, -2, 0, 0)),
    'Pa': (1.0, (-1, 1, -2, 0, 0)), 'GPa': (1e9, (-1, 1, -2, 0, 0)), 'bar': (1e5, (-1, 1, -2, 0, 0)),
    'atm': (101325.0, (-1, 1, -2, 0, 0)),
    'C': (1.0, (0, 0, 0, 1, 0)), 'e': (1.602176634e-19, (0, 0, 0, 1, 0)), 'uC': (1e-6, (0, 0, 0, 1, 0)),
    'mC': (1e-3, (0, 0, 0, 1, 0)),
    'K': (1.0, (0, 0, 0, 0, 1)),
    'V': (1.0, (2, 1, -2, -1, 0)),
    'c0': (299792458.0, (1, 0, -1, 0, 0)),
    'mol': (6.02214076e23, (0, 0, 0, 0, 0)),
    'kB': (1.380649e-23, (2, 1, -2, 0, -1)),
    'hbar': (6.62607015e-34 / TWO_PI, (2, 1, -1, 0, 0)),
}
BASE = ['m', 'kg', 's', 'C', 'K']

# --------------------------------------------------------------------------
# part 1: reset_units histories

if THOROUGH:
    MENU = dict(length=['angstrom', 'nm', 'cm'], mass=['amu', 'g', 'mg'], time=['ps', 'fs', 'us'],
                energy=['eV', 'mJ', 'kcal'], charge=['e', 'uC', 'mC'])
else:
    MENU = dict(length=['angstrom', 'nm'], mass=['amu', 'g'], time=['ps', 'fs'],
                energy=['eV', 'mJ'], charge=['e', 'uC'])
DIMNAMES = ['length', 'mass', 'time', 'energy', 'charge']
SEEDS = [0, 1, 2, 'SI', 100 + SEED % 8]
if THOROUGH:
    SEEDS += [3, 4]


def consistent(sub):
    """a choice is consistent unless it fixes length, mass, time and energy together"""
    return not {'length', 'mass', 'time', 'energy'} <= set(sub)


def _ops():
    ops = []
    for k in range(1, 5):
        for sub in itertools.combinations(DIMNAMES, k):
            if not consistent(sub):
                continue
            for names in itertools.product(*[MENU[d] for d in sub]):
                ops.append({'op': 'named', 'units': dict(zip(sub, names))})
    for s in SEEDS:
        ops.append({'op': 'seed', 'seed': s})
    ops.append({'op': 'refused', 'how': 'seed+named'})
    ops.append({'op': 'refused', 'how': 'five'})
    return ops


OPS = _ops()
# reduced alphabet for the depth-3 search: first unit name of every dimension
OPS_SMALL = [o for o in OPS if (o['op'] == 'named' and all(v == MENU[d][0] for d, v in o['units'].items()))
             or (o['op'] == 'seed' and o['seed'] in (0, 'SI')) or o['op'] == 'refused']


def apply_op(op):
    """runs the real call; returns True when the call was refused with the documented ValueError"""
    if op['op'] == 'named':
        uc.reset_units(**op['units'])
    elif op['op'] == 'seed':
        uc.reset_units(op['seed'])
    else:
        try:
            if op['how'] == 'seed+named':
                uc.reset_units(1, length='nm')
            else:
                uc.reset_units(length='nm', mass='g', time='ps', energy='eV', charge='e')
        except ValueError:
            return True
        return False
    return None


def opkey(op):
    if op is None:
        return 'default'
    if op['op'] == 'named':
        return 'named:' + ','.join('%s=%s' % (d, op['units'][d]) for d in DIMNAMES if d in op['units'])
    if op['op'] == 'seed':
        return 'seed:%s' % op['seed']
    return 'refused:' + op['how']


def subkey(op):
    return '+'.join(sorted(op['units']))


class St:
    pass


_REF = {}


def reference_table(op):
    """table after the call alone (preceded only by the import-time default)"""
    k = opkey(op)
    if k not in _REF:
        set_default()
        if op is not None:
            apply_op(op)
        _REF[k] = dict(uc.unit)
        set_default()
    return _REF[k]


def build(hist):
    st = St()
    set_default()
    last = None
    st.trailing_refused = False
    st.refusal_missed = None
    for op in hist:
        r = apply_op(op)
        if r is None:
            last = op
            st.trailing_refused = False
        else:
            st.trailing_refused = True
            if r is False:
                st.refusal_missed = op
    st.last = last
    st.table = dict(uc.unit)
    # observations through the public functions, taken in the live state
    st.ones = {}
    if last is not None and last['op'] == 'named':
        for d, name in last['units'].items():
            st.ones[d] = (uc.unit[name], float(uc.parse(name)), float(uc.set_in_units(1.0, name)),
                          float(uc.get_in_units(1.0, name)))
    set_default()
    return st


def canon(st):
    return (opkey(st.last), st.trailing_refused)


def relerr(a, b):
    return abs(a - b) / abs(b) if b != 0 else abs(a)


def check(hist, st):
    fails = []
    if st.refusal_missed is not None:
        fails.append(Fail(key='not-refused:' + st.refusal_missed['how'],
                          msg='reset_units accepted a call its docstring says raises ValueError'))
    if st.trailing_refused:
        # what a refused call leaves behind is not specified; the next accepted call is checked
        return fails
    ref = reference_table(st.last)
    tab = st.table
    if set(tab) != set(ref):
        fails.append(Fail(key='table-keys', msg='unit names after the history differ from those after the last call alone',
                          extra=sorted(set(tab) ^ set(ref))[:8]))
        return fails
    bad = [n for n in ref if not (relerr(tab[n], ref[n]) <= 1e-13)]
    if bad:
        n = sorted(bad)[0]
        fails.append(Fail(key='history-leak', msg='table after the history differs from the table after its last call alone '
                          '(%d names, e.g. %s)' % (len(bad), n), name=n, observed=tab[n], expected=ref[n],
                          last=opkey(st.last)))
        return fails
    # chosen units are one
    for d, obs in st.ones.items():
        for how, v in zip(('table', 'parse', 'set_in_units', 'get_in_units'), obs):
            if not abs(v - 1.0) <= 1e-12:
                fails.append(Fail(key='chosen-not-one:%s:%s' % (subkey(st.last), d),
                                  msg='after reset_units(%s) the chosen %s unit %s is %r, not 1 (%s)'
                                  % (', '.join('%s=%r' % kv for kv in st.last['units'].items()), d,
                                     st.last['units'][d], v, how), observed=v, expected=1.0))
                break
    # coherence of the table: value == SI value x prod(base^dim)
    b = [tab[x] for x in BASE]
    if st.last is None or st.last['op'] == 'named':
        if not abs(tab['K'] - 1.0) <= 1e-12:
            fails.append(Fail(key='kelvin-not-one', msg='named working units leave K=%r' % tab['K']))
    for n, (si, dims) in KNOWN.items():
        exp = si
        for bi, di in zip(b, dims):
            exp *= bi ** di
        if not relerr(tab[n], exp) <= 1e-12:
            fails.append(Fail(key='incoherent:' + n, msg='unit[%r]=%r but SI value x base units^dims = %r' % (n, tab[n], exp),
                              last=opkey(st.last)))
            break
    chk.note('table-comparisons')
    return fails


def ops_all(st):
    return OPS


def ops_small(st):
    return OPS_SMALL



# --------------------------------------------------------------------------
# keyword order: reset_units(**kwargs) is a keyword call, so the working units it installs cannot depend on the order in
# which the caller wrote the keywords.  Every named choice of the menu x every permutation of its keywords.

NAMED_OPS = [o for o in OPS if o['op'] == 'named']


@chk.clause('kworder')
def kworder(case):
    op = NAMED_OPS[case['op']]
    ref = reference_table(op)
    fails = []
    items = list(op['units'].items())
    for perm in itertools.permutations(items):
        if list(perm) == items:
            continue
        set_default()
        try:
            uc.reset_units(**dict(perm))
            tab = dict(uc.unit)
        finally:
            set_default()
        chk.note('keyword-orders')
        bad = [n for n in ref if not (relerr(tab[n], ref[n]) <= 1e-13)]
        if bad:
            n = sorted(bad)[0]
            fails.append(Fail(key='keyword-order:' + subkey(op),
                              msg='reset_units(%s) installs other working units than the same keywords in the order %s (%d names differ, e.g. %s)'
                              % (', '.join('%s=%r' % kv for kv in perm), [k for k, _ in items], len(bad), n),
                              name=n, observed=tab[n], expected=ref[n]))
            break
    return fails

# --------------------------------------------------------------------------
# part 2: the expression grammar

ALPHA = {
    'full': (['m', 's', 'kg', 'eV', 'angstrom', 'GPa'], ['2', '0.5', '1e-3', '10']),
    'five': (['m', 's', 'eV'], ['2', '0.5']),
    'three': (['m', 's'], ['2']),
}
NEG = '-2'
NAME_DIMS = {n: tuple(Fraction(x) for x in KNOWN[n][1][:3]) for n in ALPHA['full'][0]}
NAME_SI = {n: KNOWN[n][0] for n in ALPHA['full'][0]}

_T = {}


def T(n, A, litonly=False):
    """all trees with n leaves; litonly: literal leaves only (used for exponents)"""
    key = (n, A, litonly)
    if key in _T:
        return _T[key]
    names, lits = ALPHA[A]
    if n == 1:
        out = [('L', t) for t in (lits if litonly else names + lits)]
    else:
        out = []
        for k in range(1, n):
            for op in '*/':
                for l in T(k, A, litonly):
                    for r in T(n - k, A, litonly):
                        out.append((op, l, r))
            for l in T(k, A, litonly):
                for r in E(n - k, A):
                    out.append(('^', l, r))
    _T[key] = out
    return out


def E(n, A):
    """exponent subtrees: dimensionless by construction; -2 only as a direct exponent"""
    if n == 1:
        return [('L', t) for t in ALPHA[A][1] + [NEG]]
    return T(n, A, True)


def iter_T(n, A, shard, nshards):
    """trees with n leaves whose left-subtree index is congruent to shard (complete over all shards)"""
    if n == 1:
        for i, t in enumerate(T(1, A)):
            if i % nshards == shard:
                yield t
        return
    for k in range(1, n):
        L = T(k, A)
        for op in '*/':
            R = T(n - k, A)
            for li in range(shard, len(L), nshards):
                for r in R:
                    yield (op, L[li], r)
        R = E(n - k, A)
        for li in range(shard, len(L), nshards):
            for r in R:
                yield ('^', L[li], r)


def count_T(n, A):
    if n == 1:
        return len(T(1, A))
    return sum(len(T(k, A)) * (2 * len(T(n - k, A)) + len(E(n - k, A))) for k in range(1, n))


class OutOfRange(Exception):
    pass


LO, HI = 1e-150, 1e150


def ev(t, leaf):
    """direct evaluation of the tree (the meaning the renderer encodes with ordinary precedence)"""
    if t[0] == 'L':
        return leaf[t[1]]
    a = ev(t[1], leaf)
    b = ev(t[2], leaf)
    try:
        if t[0] == '*':
            v = a * b
        elif t[0] == '/':
            v = a / b
        else:
            v = a ** b
    except (OverflowError, ZeroDivisionError):
        raise OutOfRange()
    if not (LO < abs(v) < HI):
        raise OutOfRange()
    return v


def exact(t):
    """value of a literal-only subtree: Fraction when rational, else float"""
    if t[0] == 'L':
        return Fraction(t[1])
    a, b = exact(t[1]), exact(t[2])
    if t[0] == '*':
        return a * b
    if t[0] == '/':
        return a / b
    if isinstance(a, Fraction) and isinstance(b, Fraction) and b.denominator == 1 and abs(b) <= 64:
        return a ** int(b)
    try:
        return float(a) ** float(b)
    except OverflowError:
        raise OutOfRange()


ZERO3 = (Fraction(0),) * 3


def dims(t):
    """(L, M, T) exponents of the tree"""
    if t[0] == 'L':
        return NAME_DIMS.get(t[1], ZERO3)
    a = dims(t[1])
    if t[0] == '^':
        x = exact(t[2])
        return tuple(ai * x if ai != 0 else ai for ai in a)
    b = dims(t[2])
    if t[0] == '*':
        return tuple(x + y for x, y in zip(a, b))
    return tuple(x - y for x, y in zip(a, b))


def toks(t, style, top=True):
    """token list.  style 0: minimal parentheses for ordinary precedence / left associativity;
    1: every internal non-root node parenthesised; 2: everything, leaves and root included."""
    if t[0] == 'L':
        return ['(', t[1], ')'] if style == 2 else [t[1]]
    op, l, r = t
    lt, rt = toks(l, style, False), toks(r, style, False)
    if style == 0:
        if op == '^':
            wl, wr = l[0] != 'L', r[0] != 'L'
        else:
            wl, wr = False, r[0] in '*/'
    else:
        wl, wr = l[0] != 'L', r[0] != 'L'
    if wl:
        lt = ['('] + lt + [')']
    if wr:
        rt = ['('] + rt + [')']
    res = lt + [op] + rt
    if style == 2 and top:
        res = ['('] + res + [')']
    return res


def spell(tk, w):
    if w == 0:
        return ''.join(tk)
    if w == 1:
        return ' '.join(tk)
    if w == 2:
        return ' \t' + '\t'.join(tk) + '\t '
    return '\n ' + ''.join(('  %s  ' % x) if x in '*/^' else x for x in tk) + ' \r\n'


def strings(t):
    """distinct strings of one tree: 3 parenthesisations x 4 whitespace renderings"""
    seen = []
    for style in (0, 1, 2):
        tk = toks(t, style)
        for w in (0, 1, 2, 3):
            s = spell(tk, w)
            if s not in seen:
                seen.append(s)
    return seen


# independent recursive-descent evaluator on the string (used for the harness self-check of the
# renderer, for hand-written strings and for the LAMMPS table entries)
_TOK = re.compile(r'\s*(?:(?P<num>-?(?:\d+\.?\d*|\.\d+)(?:[eE][+-]?\d+)?)|(?P<name>[A-Za-z_][A-Za-z_0-9]*)|(?P<op>[*/^()]))')


class Malformed(Exception):
    pass


def rd_eval(s, leaf):
    pos = 0
    out = []
    s2 = s.rstrip()
    while pos < len(s2):
        m = _TOK.match(s2, pos)
        if not m:
            raise Malformed('unknown character at %d' % pos)
        pos = m.end()
        if m.group('num') is not None:
            out.append(('num', float(m.group('num'))))
        elif m.group('name') is not None:
            out.append(('name', m.group('name')))
        else:
            out.append(('op', m.group('op')))
    i = [0]

    def peek():
        return out[i[0]] if i[0] < len(out) else (None, None)

    def primary():
        k, v = peek()
        i[0] += 1
        if k == 'num':
            return v
        if k == 'name':
            return leaf[v]
        if k == 'op' and v == '(':
            x = expr()
            if peek() != ('op', ')'):
                raise Malformed('unbalanced')
            i[0] += 1
            return x
        raise Malformed('operand expected')

    def power():
        x = primary()
        if peek() == ('op', '^'):
            i[0] += 1
            y = primary()
            if peek() == ('op', '^'):
                raise Malformed('chained power is outside the stated precedence')
            x = x ** y
        return x

    def expr():
        x = power()
        while peek() in (('op', '*'), ('op', '/')):
            o = peek()[1]
            i[0] += 1
            y = power()
            x = x * y if o == '*' else x / y
        return x

    x = expr()
    if i[0] != len(out):
        raise Malformed('trailing tokens')
    return x


class Leaf(dict):
    """literal tokens evaluate to their float, names to the live unit table"""

    def __missing__(self, k):
        v = float(k)
        self[k] = v
        return v


def live_leaf():
    lf = Leaf()
    for n in ALPHA['full'][0]:
        lf[n] = uc.unit[n]
    return lf


SI_LEAF = Leaf(NAME_SI)

# working-unit configurations for the grammar clauses
CFGS = [
    ('default', {'op': 'named', 'units': DEFAULT}),
    ('SI', {'op': 'seed', 'seed': 'SI'}),
    ('nm-g-ps', {'op': 'named', 'units': dict(length='nm', mass='g', time='ps')}),
    ('amu-ps-eV', {'op': 'named', 'units': dict(mass='amu', time='ps', energy='eV')}),
    ('seed3', {'op': 'seed', 'seed': 3}),
    ('seed-slice', {'op': 'seed', 'seed': 100 + SEED % 8}),
]

# (set name, n leaves, alphabet, shards, configuration indices)
SETS = [('n1', 1, 'full', 1, range(6)), ('n2', 2, 'full', 1, range(6)), ('n3', 3, 'full', 16, range(6)),
        ('n4-five', 4, 'five', 32, (0, 5))]
if THOROUGH:
    SETS += [('n4', 4, 'full', 512, (0, 2)), ('n5-three', 5, 'three', 64, (0,))]
SETMAP = {s[0]: s for s in SETS}


def fmt_frac(x):
    if isinstance(x, Fraction):
        return '%d/%d' % (x.numerator, x.denominator)
    return repr(float(x))


def ref_unit(d):
    return 'm^(%s)*kg^(%s)*s^(%s)' % tuple(fmt_frac(x) for x in d)


@chk.clause('grammar')
def grammar(case):
    """every string of every tree of one shard, under one configuration"""
    name, n, A, nsh, _ = SETMAP[case['set']]
    set_default()
    try:
        apply_op(CFGS[case['cfg']][1])
        leaf = live_leaf()
        base = [uc.unit['m'], uc.unit['kg'], uc.unit['s']]
        fails = []
        seen = set()
        for t in iter_T(n, A, case['shard'], nsh):
            try:
                exp = ev(t, leaf)
                si = ev(t, SI_LEAF)
                d = dims(t)
                # product of base units^dims through logarithms: the sequential product can pass through the subnormal
                # range (e.g. s^-23 = 1.5e-322 under the default units) and lose digits although the result is in range
                lg = math.fsum(float(di) * math.log(bi) for bi, di in zip(base, d))
                if not (math.log(LO) < lg < math.log(HI)):
                    raise OutOfRange()
                dimf = math.exp(lg)
            except (OutOfRange, OverflowError):
                chk.note('skipped-out-of-float-range')
                continue
            strs = strings(t)
            if case['cfg'] == SETMAP[case['set']][4][0]:
                chk.note('distinct-trees')
                if n > 1:
                    chk.note('distinct-strings-with-operator', len(strs))
            for s in strs:
                chk.note('strings-parsed')
                # harness self-check: the rendered string means the tree
                rd = rd_eval(s, leaf)
                assert relerr(rd, exp) <= 1e-12, ('renderer/oracle disagree', s, rd, exp)
                got = uc.parse(s)
                if not relerr(got, exp) <= 1e-12:
                    k = 'precedence' if '(' not in s else 'value'
                    if k not in seen:
                        seen.add(k)
                        fails.append(Fail(key='parse-' + k, msg='parse(%r)=%r, ordinary precedence gives %r (config %s)'
                                          % (s, got, exp, CFGS[case['cfg']][0]), observed=got, expected=exp, string=s))
            # dimension coherence of the parsed factor: SI number x base units^dims
            got = uc.parse(strs[0])
            if not relerr(got, si * dimf) <= 1e-10:
                if 'dim' not in seen:
                    seen.add('dim')
                    fails.append(Fail(key='parse-dimension', msg='parse(%r)=%r but SI value x base^dims = %r (config %s)'
                                      % (strs[0], got, si * dimf, CFGS[case['cfg']][0])))
        return fails
    finally:
        set_default()


def value_menu():
    rng = np.arange(1, 19, dtype=float).reshape(2, 3, 3)
    return [
        ('float', 1.5), ('neg-int', -3), ('zero', 0.0), ('int', 7),
        ('list', [1.0, -2.5, 3e-7]), ('tuple', (2.0, 4.0)), ('nested-int-list', [[1, 2], [3, 4]]),
        ('0d', np.array(2.25)), ('(1,)', np.array([0.125])), ('(3,)', np.array([1.0, -2.0, 3.5])),
        ('(2,2)', np.array([[1.5, 2.5], [-3.5, 1e3]])), ('(2,3,3)', rng / 7.0),
        ('int-array', np.arange(6).reshape(2, 3)), ('np.float64', np.float64(0.3)),
    ]


VALUES = value_menu()
EPS = np.finfo(float).eps


@chk.clause('roundtrip')
def roundtrip(case):
    """get_in_units(set_in_units(v,u),u) == v; one-way values == v*factor, v/factor"""
    name, n, A, nsh, _ = SETMAP[case['set']]
    set_default()
    try:
        apply_op(CFGS[case['cfg']][1])
        leaf = live_leaf()
        fails = []
        seen = set()

        def bad(key, msg, **kw):
            if key not in seen:
                seen.add(key)
                fails.append(Fail(key=key, msg=msg, **kw))
        vals = VALUES if n <= 2 else [VALUES[0], VALUES[10]]
        for t in iter_T(n, A, case['shard'], nsh):
            try:
                f = ev(t, leaf)
            except OutOfRange:
                continue
            if not (1e-100 < f < 1e100):
                chk.note('roundtrip-skipped-factor-range')
                continue
            u = spell(toks(t, 0), case['cfg'] % 2)
            for vname, v in vals:
                chk.note('roundtrips')
                a = np.asarray(v, dtype=float)
                w = uc.set_in_units(v, u)
                back = uc.get_in_units(w, u)
                g = uc.get_in_units(v, u)
                if np.shape(w) != a.shape or np.shape(back) != a.shape or np.shape(g) != a.shape:
                    bad('shape:' + vname, 'shape %s -> set %s -> get %s for unit %r' % (a.shape, np.shape(w), np.shape(back), u))
                    continue
                if np.any(np.abs(np.asarray(back) - a) > 4 * EPS * np.abs(a)):
                    bad('not-inverse', 'get_in_units(set_in_units(v,%r),%r) != v for %s' % (u, u, vname),
                        observed=back, expected=a)
                if np.any(np.abs(np.asarray(w) - a * f) > 1e-12 * np.abs(a * f)):
                    bad('set-value', 'set_in_units(v,%r) != v*factor' % u, observed=w, expected=a * f)
                if np.any(np.abs(np.asarray(g) - a / f) > 1e-12 * np.abs(a / f)):
                    bad('get-value', 'get_in_units(v,%r) != v/factor' % u, observed=g, expected=a / f)
        return fails
    finally:
        set_default()


@chk.clause('state-invariance')
def state_invariance(case):
    """in the table state after one reset_units call: converting 1 <expression> into the canonical expression
    m^a*kg^b*s^c of the same dimension gives the SI number, whatever the working units"""
    op = OPS[case['op']]
    set_default()
    try:
        apply_op(op)
        leaf = live_leaf()
        base = [uc.unit['m'], uc.unit['kg'], uc.unit['s']]
        fails = []
        for n in (1, 2, 3):
            for t in iter_T(n, 'full', case['shard'], case['nshards']):
                try:
                    ev(t, leaf)
                    si = ev(t, SI_LEAF)
                    d = dims(t)
                    dimf = 1.0
                    for bi, di in zip(base, d):
                        p = bi ** float(di)
                        if not (LO < p < HI):
                            raise OutOfRange()
                        dimf *= p
                    if not (LO < dimf < HI):
                        raise OutOfRange()
                except (OutOfRange, OverflowError):
                    chk.note('skipped-out-of-float-range')
                    continue
                e1 = spell(toks(t, 0), 0)
                e2 = ref_unit(d)
                got = float(uc.get_in_units(uc.set_in_units(1.0, e1), e2))
                chk.note('conversions')
                if not relerr(got, si) <= 1e-10:
                    fails.append(Fail(key='conversion-depends-on-working-units:' + (subkey(op) if op['op'] == 'named' else 'seed'),
                                      msg='1 %s = %r %s after %s; in SI it is %r' % (e1, got, e2, opkey(op), si),
                                      observed=got, expected=si))
                    return fails
        return fails
    finally:
        set_default()


BADCH = ['#', '+', '$', ',']


@chk.clause('malformed')
def malformed(case):
    """strings derived from the enumerated ones by deleting one parenthesis, replacing one operator by a blank,
    or inserting one unknown character at a token boundary must raise"""
    name, n, A, nsh, _ = SETMAP[case['set']]
    set_default()
    try:
        fails = []
        seen = set()
        leaf = live_leaf()

        def must_raise(kind, s):
            chk.note('malformed-strings')
            # the reference evaluator must also reject it (otherwise the mutation produced a valid string)
            try:
                rd_eval(s, leaf)
            except (Malformed, KeyError, ValueError, OverflowError, ZeroDivisionError):
                pass
            else:
                chk.note('malformed-but-valid-skipped')
                return
            try:
                r = uc.parse(s)
            except Exception:
                return
            if kind not in seen:
                seen.add(kind)
                fails.append(Fail(key='accepted-' + kind, msg='parse(%r) returned %r instead of raising' % (s, r), string=s))
        for t in iter_T(n, A, case['shard'], nsh):
            for style in (0, 1, 2):
                tk = toks(t, style)
                for w in (0, 1):
                    for i, x in enumerate(tk):
                        if x in '()':
                            must_raise('unbalanced', spell(tk[:i] + tk[i + 1:], w))
                        elif x in '*/^' and i > 0:
                            must_raise('missing-operator', spell(tk[:i] + tk[i + 1:], 1))
                            if w == 0:
                                must_raise('missing-operator', ''.join(tk[:i]) + ' ' + ''.join(tk[i + 1:]))
                    if style == 0 or n <= 2:
                        for i in range(len(tk) + 1):
                            for c in BADCH:
                                must_raise('unknown-character', spell(tk[:i] + [c] + tk[i:], w))
        if case['shard'] == 0 and n == 1:
            for s in ('foo', 'm*foo', 'Angstrom', 'm*', '(', ')', '()', 'm^', 'm**2', 'm//s'):
                try:
                    r = uc.parse(s)
                except Exception:
                    continue
                fails.append(Fail(key='accepted-hand:' + s, msg='parse(%r) returned %r instead of raising' % (s, r)))
        return fails
    finally:
        set_default()


LITVALS = [('1.5', 1.5), ('-3', -3.0), ('1e-3', 1e-3), ('[1.0, 2.0]', [1.0, 2.0]), ('(1, 2)', [1.0, 2.0]),
           ('[[1, 2], [3, 4]]', [[1.0, 2.0], [3.0, 4.0]])]


@chk.clause('literal')
def literal(case):
    """set_literal('<value> <expression>') == value x factor; without unit the value itself"""
    name, n, A, nsh, _ = SETMAP[case['set']]
    set_default()
    try:
        apply_op(CFGS[case['cfg']][1])
        leaf = live_leaf()
        fails = []
        seen = set()
        for t in iter_T(n, A, case['shard'], nsh):
            try:
                f = ev(t, leaf)
            except OutOfRange:
                continue
            for w in (0, 1, 3):
                u = spell(toks(t, 0), w)
                for txt, v in LITVALS:
                    for sep in (' ', '   '):
                        chk.note('literals')
                        got = uc.set_literal(txt + sep + u)
                        exp = np.asarray(v) * f
                        if np.shape(got) != exp.shape or np.any(np.abs(got - exp) > 1e-12 * np.abs(exp)):
                            if 'lit' not in seen:
                                seen.add('lit')
                                fails.append(Fail(key='set_literal-value', msg='set_literal(%r) = %r, expected %r'
                                                  % (txt + sep + u, got, exp)))
        if case['shard'] == 0 and n == 1:
            for txt, v in LITVALS:
                got = uc.set_literal('  ' + txt + ' ')
                if np.shape(got) != np.shape(v) or np.any(np.asarray(got) != np.asarray(v)):
                    fails.append(Fail(key='set_literal-nounit', msg='set_literal(%r) = %r' % (txt, got)))
            for txt in ('abc', '', '1.5 foo', 'nm 1.5'):
                try:
                    r = uc.set_literal(txt)
                except ValueError:
                    continue
                fails.append(Fail(key='set_literal-accepted', msg='set_literal(%r) returned %r; the docstring says ValueError' % (txt, r)))
        return fails
    finally:
        set_default()


@chk.clause('special')
def special(case):
    """units None / 'scaled' / a number; refusals of reset_units"""
    set_default()
    try:
        apply_op(CFGS[case['cfg']][1])
        fails = []
        for u in (None, 'scaled'):
            if uc.parse(u) != 1:
                fails.append(Fail(key='parse-none', msg='parse(%r) != 1' % (u,)))
            for vname, v in VALUES:
                a = np.asarray(v, dtype=float)
                for fn in (uc.set_in_units, uc.get_in_units):
                    r = fn(v, u)
                    if np.shape(r) != a.shape or not np.array_equal(np.asarray(r, dtype=float), a):
                        fails.append(Fail(key='identity-unit', msg='%s(v,%r) is not the identity for %s' % (fn.__name__, u, vname)))
        if uc.parse(2.5) != 2.5:
            fails.append(Fail(key='parse-number', msg='parse(2.5) != 2.5'))
        for kw, seed in ((dict(length='nm'), 1), (dict(length='nm', mass='g', time='ps', energy='eV', charge='e'), None)):
            before = dict(uc.unit)
            try:
                uc.reset_units(seed, **kw)
            except ValueError:
                if dict(uc.unit) != before:
                    chk.note('refused-call-changed-table')
                continue
            fails.append(Fail(key='not-refused', msg='reset_units(%r, **%r) did not raise ValueError' % (seed, kw)))
        return fails
    finally:
        set_default()


# --------------------------------------------------------------------------
# LAMMPS unit-style tables

STYLES = ['lj', 'real', 'metal', 'si', 'cgs', 'electron', 'micro', 'nano']
QDIMS = {  # (L, M, T, Q, Theta) of every mechanical quantity label
    'mass': (0, 1, 0, 0, 0), 'length': (1, 0, 0, 0, 0), 'time': (0, 0, 1, 0, 0), 'energy': (2, 1, -2, 0, 0),
    'velocity': (1, 0, -1, 0, 0), 'force': (1, 1, -2, 0, 0), 'torque': (2, 1, -2, 0, 0),
    'temperature': (0, 0, 0, 0, 1), 'pressure': (-1, 1, -2, 0, 0), 'dynamic viscosity': (-1, 1, -1, 0, 0),
    'density': (-3, 1, 0, 0, 0), 'ang-mom': (2, 1, -1, 0, 0), 'ang-vel': (0, 0, -1, 0, 0), 'volume': (3, 0, 0, 0, 0),
}
ELECTRICAL = ('charge', 'dipole', 'electric field')
LMT = [('m', 'cm', 'mm'), ('kg', 'g', 'mg'), ('s', 'ms', 'us')]
LMT_LOG = [(0.0, 2.0, 3.0), (0.0, 3.0, 6.0), (0.0, 3.0, 6.0)]   # log10 of the base unit m / kg / s in working units


@chk.clause('lammps')
def lammps(case):
    style = STYLES[case['style']]
    set_default()
    try:
        fails = []
        tab = lmp.style.unit(style)
        if style == 'lj':
            for q, v in tab.items():
                chk.note('lammps-entries')
                if v is not None:
                    fails.append(Fail(key='lj-not-none:' + q, msg="lammps.style.unit('lj')[%r] is %r, not None (reduced units have no unit)" % (q, v)))
                else:
                    if uc.parse(v) != 1 or float(uc.set_in_units(2.5, v)) != 2.5:
                        fails.append(Fail(key='lj-not-identity:' + q, msg='lj entry does not convert as the identity'))
            return fails
        mech = [q for q in tab if q in QDIMS]
        unknown = [q for q in tab if q not in QDIMS and q not in ELECTRICAL]
        if unknown:
            fails.append(Fail(key='unknown-label', msg='labels without a known dimension: %r' % unknown))
        # (a) length, mass, time exponents, exactly, from the 27 named configurations
        rows, logs = [], {q: [] for q in mech}
        for i, j, k in itertools.product(range(3), repeat=3):
            uc.reset_units(length=LMT[0][i], mass=LMT[1][j], time=LMT[2][k])
            rows.append([1.0, LMT_LOG[0][i], LMT_LOG[1][j], LMT_LOG[2][k]])
            for q in mech:
                logs[q].append(math.log10(uc.parse(tab[q])))
        Amat = np.array(rows)
        for q in mech:
            chk.note('lammps-entries')
            sol, res, _, _ = np.linalg.lstsq(Amat, np.array(logs[q]), rcond=None)
            fit = Amat @ sol
            if np.abs(fit - logs[q]).max() > 1e-9:
                fails.append(Fail(key='not-a-monomial:%s:%s' % (style, q), msg='factor of %r is not a power law of the base units' % tab[q]))
                continue
            if np.abs(sol[1:] - np.array(QDIMS[q][:3], float)).max() > 1e-9:
                fails.append(Fail(key='dimension:%s:%s' % (style, q),
                                  msg='%s %s = %r has (L,M,T) exponents %s, the quantity has %s'
                                  % (style, q, tab[q], np.round(sol[1:], 6).tolist(), list(QDIMS[q][:3]))))
        # (b) all five exponents from SI + 6 random working-unit seeds
        rows, logs = [], {q: [] for q in mech}
        for s in ('SI', 0, 1, 2, 3, 4, 5, 100 + SEED % 8):
            uc.reset_units(s)
            rows.append([1.0] + [math.log10(uc.unit[b]) for b in BASE])
            for q in mech:
                logs[q].append(math.log10(uc.parse(tab[q])))
        Amat = np.array(rows)
        for q in mech:
            sol, res, _, _ = np.linalg.lstsq(Amat, np.array(logs[q]), rcond=None)
            if np.abs(Amat @ sol - logs[q]).max() > 1e-9 or np.abs(sol[1:] - np.array(QDIMS[q], float)).max() > 1e-8:
                fails.append(Fail(key='dimension5:%s:%s' % (style, q),
                                  msg='%s %s = %r has (L,M,T,Q,Theta) exponents %s, the quantity has %s'
                                  % (style, q, tab[q], np.round(sol[1:], 6).tolist(), list(QDIMS[q]))))
        return fails
    finally:
        set_default()


@chk.clause('lammps-unknown')
def lammps_unknown(case):
    try:
        lmp.style.unit('imperial')
    except ValueError:
        return []
    return [Fail(key='unknown-style-accepted', msg="style.unit('imperial') did not raise ValueError")]


def gen():
    for name, n, A, nsh, cfgs in SETS:
        for c in cfgs:
            for sh in range(nsh):
                yield 'grammar', {'set': name, 'shard': sh, 'cfg': c}
    for name, n, A, nsh, cfgs in SETS:
        if n <= 3:
            for c in cfgs:
                for sh in range(nsh):
                    yield 'roundtrip', {'set': name, 'shard': sh, 'cfg': c}
            for sh in range(nsh):
                yield 'malformed', {'set': name, 'shard': sh}
            for c in (0, 2, 5):
                for sh in range(nsh):
                    yield 'literal', {'set': name, 'shard': sh, 'cfg': c}
    nsh = 4
    for k, op in enumerate(OPS):
        if op['op'] == 'refused':
            continue
        for sh in range(nsh):
            yield 'state-invariance', {'op': k, 'shard': sh, 'nshards': nsh}
    for k in range(len(NAMED_OPS)):
        yield 'kworder', {'op': k}
    for c in range(len(CFGS)):
        yield 'special', {'cfg': c}
    for s in range(len(STYLES)):
        yield 'lammps', {'style': s}
    yield 'lammps-unknown', {}


if __name__ == '__main__':
    ex = Explorer(chk, 'table-history', build, ops_all, check, canon, max_depth=2)
    cov = ex.run()
    cov['fixed_point_reached'] = cov['max_depth_completed'] <= 2
    if THOROUGH:
        ex3 = Explorer(chk, 'table-history', build, ops_small, check, canon, max_depth=3, expand_all=True)
        cov3 = ex3.run()
        cov['transitions'] += cov3['transitions']
        cov['traces_validated_against_impl'] += cov3['traces_validated_against_impl']
        cov['depth3_reduced_alphabet_histories'] = cov3['transitions']
    chk.run_cases(gen(), batch=1)
    cov['operation_instances'] = len(OPS)
    cov['evaluations'] = (chk.notes.get('strings-parsed', 0) + chk.notes.get('roundtrips', 0) + chk.notes.get('conversions', 0)
                          + chk.notes.get('malformed-strings', 0) + chk.notes.get('literals', 0) + cov['transitions'])
    cov['distinct_nontrivial'] = chk.notes.get('distinct-strings-with-operator', 0) + cov['states']
    cov['trees'] = {s[0]: count_T(s[1], s[2]) for s in SETS}
    set_default()
    sys.exit(chk.finish(cov))
