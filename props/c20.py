"""C20 - atomman.mep: Euler / Runge-Kutta integrators have their nominal order, the numerical
gradient is second order, string relaxation with climbing finds the minima and the saddle.

Bounded-exhaustive enumeration (nothing sampled):
  taylor / order : integrator x dimension 1..6 x matrix kind x vector x call form; inside a case every
                   step size h of the menu.  Oracle: the Taylor polynomial of exp(hA) (own mat-vec loop)
                   and exp(hA)y from a 40-term long-double series.
  gradient       : function x base point x array shape x input form x shift.  Oracle: analytic gradient,
                   analytic leading error term shift^2 * d^3f/dx_i^3 / 6 and a bound of the next term.
  options        : create_path with every spelling of (integratorfxn, gradientfxn, gradientkwargs),
                   defaults included: the path must be created and must take a (plain and a climbing) step.
                   (How options are resolved / carried through relax() is not part of the property: not judged.)
  relax          : surface (a,H,k,c) x initial string x image count x time step x integrator, relaxed with
                   climbing (as relax(r, 0) then relax(0, c), for 7 images also as one call relax(r, c))
                   until relax()'s own convergence test stops it.  Oracle: closed-form minima,
                   saddle, barrier and Hessian eigenvalues of
                   V = H((x/a)^2-1)^2 + k/2 (y - c (x^2-a^2)(1 + s x/a))^2.
"""
import contextlib
import io
import itertools
import math
import sys

import numpy as np

from mc.common import Check, Fail, SEED, THOROUGH, assert_overlay

am = assert_overlay()
import atomman.mep as mep  # noqa: E402

EPS = 2.0 ** -52

chk = Check('C20', 'exploration',
            'full products: integrators {euler, rungekutta} x dimension 1..6 x matrix kinds {diagonal, skew, nilpotent, '
            'dense, seed-dense} x 3 vectors x call forms {vector, rows (N,d), list, extra keyword, float scalar for d=1}, '
            'every h in {0.4,0.2,0.1,0.05,0.025} inside a case; gradient: 5 functions (quadratic d=3, quartic d=3, '
            'exp-linear d=6, sine d=1, double well d=2) x 6(+1 seed) base points x shapes {(d,), (N,d), (M,N,d)} x '
            '{ndarray, nested list} x shifts {1e-2, 5e-3, 2.5e-3, default}; options: 6 integratorfxn x 5 gradientfxn x '
            '5 gradientkwargs spellings (defaults included), each path created and stepped; relax: surfaces (a,H,k,c) in '
            '2x2x2x3 (+1 seed surface) x 3 initial strings (straight, bent up, bent down) x {7,11,15} images x '
            '{default, half default} time step x 2 integrators, plus relax-scaled: 2 surfaces at length scales 3e-5 and 2e3 (E = L^2 V(p/L), shift 1e-3 L) x strings x 2 integrators -- thorough: the full product; quick: for every '
            '(surface, integrator) three (string, images, time step) triples arranged so that every parameter value and '
            'every (string, images) pair occurs with both integrators.  evaluations = individual oracle comparisons; '
            'non-trivial = integrator cases whose leading error term is non-zero, gradient cases with a non-zero third '
            'derivative, relaxations whose highest image is off the saddle (|E-H| > 1e-5 H) before climbing')
chk.assumptions = [
    'one integrator step compared with the Taylor polynomial to 1e-13 * sum_k |(hA)^k y|/k! (rounding of <= 5 '
    'mat-vec products of dimension <= 6)',
    'one-step error ratio on halving h: 2^(p+1) * [(1-d(h))/(1+d(h/2)), (1+d(h))/(1-d(h/2))] with '
    'd(h) = sum_{k>=p+2} |(hA)^k y/k!| / |(hA)^(p+1) y/(p+1)!| + 8 eps |y| e^(h|A|)/|leading term| (triangle inequality on the '
    'exponential series: the relative size of everything beyond the leading error term); the interval is inside +-15% '
    'for the pairs counted in notes[order-pairs-with-interval-inside-15%]; pairs with d(h/2) > 0.5 carry no information '
    'and are counted as skipped; cases whose leading error term vanishes identically (nilpotent / zero matrices, '
    'integer arithmetic) must be exact to 1e-13',
    'central difference: |cd - grad f - s^2 T3| <= s^4 |T5 bound| + 50 eps (mag f + |x| |grad f|)/s componentwise norm; '
    'ratio of errors on halving s equals 4 within the same derived interval whenever the neglected terms are < 3% '
    'of the leading one; quadratics exact to the rounding allowance',
    'relax() is run with caps 5000+5000 steps and must stop by its own test; with the documented default tolerance '
    'tol = max(N^-4,1e-10) on displacement per unit time; "the highest image" is the highest image of the relaxed '
    'string before climbing, observed by calling relax(r, 0) and then relax(0, c) (7-image strings: also relax(r, c)); '
    '|grad V| <= 1.01 tol/(1 - ts L/2) at both ends and at the '
    'highest image (L = largest |Hessian eigenvalue| at the stationary points, ts L < 0.25 asserted; the factor is '
    '1.00..1.12 over the menu), positions '
    'within 3 tol/|lambda|min of the minima (-a,0),(+a,0) and of the saddle (0,-c a^2), |Emax - H| <= 1e-5 H',
    'scipy CubicSpline and numpy linear algebra are trusted; analytic gradients of the test functions were '
    'derived by hand (a slip in one of them shows as a violation of the second-order clause on the unmodified code)',
]

# --------------------------------------------------------------------------------------------
# integrators: menus

INTEGRATORS = [('euler', 1), ('rungekutta', 4)]
DIMS = [1, 2, 3, 4, 5, 6]
HS = [0.4, 0.2, 0.1, 0.05, 0.025]
DIAG = [-1.0, 0.5, -0.25, 0.75, -0.5, 1.0]
SKEW = [1.0, -0.5, 0.75, 0.25, -1.0]
MATKINDS = ['diagonal', 'skew', 'nilpotent', 'dense', 'seed-dense']
FORMS = ['vector', 'rows', 'list', 'keyword', 'scalar']
NVEC = 3


def matrix(kind, d):
    A = np.zeros((d, d))
    if kind == 'diagonal':
        A[np.arange(d), np.arange(d)] = DIAG[:d]
    elif kind == 'skew':
        for i in range(d - 1):
            A[i, i + 1] = SKEW[i]
            A[i + 1, i] = -SKEW[i]
    elif kind == 'nilpotent':
        for i in range(d):
            for j in range(i + 1, d):
                A[i, j] = 1.0 + (i + j) % 2          # small integers: powers are exact
    else:
        ph = 0.0 if kind == 'dense' else 0.37 * (1 + SEED % 8)
        for i in range(d):
            for j in range(d):
                A[i, j] = math.sin(1.0 + 3.0 * i + 7.0 * j + ph) + 0.3 * math.cos(2.0 * i - j + ph)
        A *= 1.1 / np.linalg.norm(A, 2)
    return A


def vector(v, d):
    if v == 0:
        y = np.zeros(d)
        y[0] = 1.0
    elif v == 1:
        y = np.ones(d)
    else:
        y = np.array([(-1.0) ** i * (i + 1.0) / d for i in range(d)])
    return y


def taylor_terms(A, y, h, n):
    """[(hA)^k y / k!  for k = 0..n] by repeated mat-vec (independent of the code under test)"""
    out = [np.array(y, dtype=float)]
    for k in range(1, n + 1):
        out.append((h / k) * (A @ out[-1]))
    return out


def exp_action(A, y, h):
    """exp(hA) y from a 40-term series in long double (|hA| <= 0.5: terms fall below 1e-60)"""
    Al = A.astype(np.longdouble)
    t = y.astype(np.longdouble)
    s = t.copy()
    for k in range(1, 41):
        t = (np.longdouble(h) / k) * (Al @ t)
        s = s + t
    return s


def call_integrator(name, A, y, h, form):
    """one step of the real integrator in the given call form; returns an array shaped like y"""
    f = getattr(mep.integrator, name)
    d = len(y)
    if form == 'vector':
        return np.asarray(f(lambda c: A @ c, y.copy(), h))
    if form == 'rows':
        Y = np.vstack([y, 2.0 * y, -0.5 * y])
        R = np.asarray(f(lambda c: c @ A.T, Y, h))
        if R.shape != Y.shape:
            raise ValueError('rows result shape %s' % (R.shape,))
        # linearity in y is exact for factors 2 and -0.5 (powers of two)
        if not (np.array_equal(R[1], 2.0 * R[0]) and np.array_equal(R[2], -0.5 * R[0])):
            raise ValueError('rows of an (N,d) coordinate array are not integrated independently')
        return R[0]
    if form == 'list':
        return np.asarray(f(lambda c: A @ np.asarray(c), y.tolist(), h))
    if form == 'keyword':
        return np.asarray(f(lambda c, M=None, scale=None: scale * (M @ c), y.copy(), h, M=2.0 * A, scale=0.5))
    if form == 'scalar':
        assert d == 1
        r = f(lambda c: A[0, 0] * c, float(y[0]), h)
        if np.ndim(r) != 0:
            raise ValueError('float coordinate gives a result of ndim %d' % np.ndim(r))
        return np.array([float(r)])
    raise KeyError(form)


def integrator_setup(case):
    name, p = INTEGRATORS[case['integ']]
    d = DIMS[case['dim']]
    A = matrix(MATKINDS[case['kind']], d)
    y = vector(case['vec'], d)
    return name, p, d, A, y, FORMS[case['form']]


@chk.clause('taylor')
def taylor(case):
    name, p, d, A, y, form = integrator_setup(case)
    fails = []
    for h in HS:
        try:
            got = call_integrator(name, A, y, h, form)
        except ValueError as e:
            return [Fail(key='%s-%s-form' % (name, form), msg=str(e), h=h)]
        terms = taylor_terms(A, y, h, p)
        want = sum(terms)
        scale = sum(np.linalg.norm(t) for t in terms)
        err = np.linalg.norm(got - want)
        chk.note('taylor-comparisons')
        if got.shape != want.shape or not err <= 1e-13 * scale:
            other = sum(taylor_terms(A, y, h, 5 - p))
            fails.append(Fail(key='%s-not-taylor%d' % (name, p),
                              msg='%s step on y\'=Ay (dim %d, %s, h=%g, %s form) differs from sum_{k<=%d} (hA)^k y/k! by %.3g (scale %.3g)'
                                  % (name, d, MATKINDS[case['kind']], h, form, p, err, scale),
                              observed=got, expected=want, h=h,
                              distance_to_other_degree=float(np.linalg.norm(got - other))))
            break
    return fails


def remainder_ratio(A, y, h, p):
    """sum_{k>=p+2} |(hA)^k y/k!| / |(hA)^(p+1) y/(p+1)!|: how far the one-step error of an order-p method can deviate,
    relatively, from its leading term (triangle inequality on the exponential series)"""
    t = taylor_terms(A, y, h, 40)
    lead = np.linalg.norm(t[p + 1])
    return sum(np.linalg.norm(x) for x in t[p + 2:]) / lead, lead


@chk.clause('order')
def order(case):
    name, p, d, A, y, form = integrator_setup(case)
    nrm = np.linalg.norm(A, 2)
    lead = y.copy()
    for _ in range(p + 1):
        lead = A @ lead
    exact_method = not np.any(lead)         # A^(p+1) y == 0 (exact arithmetic for the integer nilpotent menu)
    errs, scales = [], []
    for h in HS:
        try:
            got = call_integrator(name, A, y, h, form)
        except ValueError as e:
            return [Fail(key='%s-%s-form' % (name, form), msg=str(e), h=h)]
        ex = exp_action(A, y, h)
        errs.append(float(np.linalg.norm((got.astype(np.longdouble) - ex).astype(float))))
        scales.append(float(np.linalg.norm(y) * math.exp(h * nrm)))
    fails = []
    if exact_method:
        chk.note('order-exact-cases')
        for h, e, s in zip(HS, errs, scales):
            chk.note('order-comparisons')
            if not e <= 1e-13 * s:
                fails.append(Fail(key='%s-exact-case' % name,
                                  msg='A^%d y = 0, so one %s step must equal exp(hA)y; error %.3g at h=%g' % (p + 1, name, e, h),
                                  observed=e, h=h))
                break
        return fails
    chk.note('order-nontrivial-cases')
    for i in range(len(HS) - 1):
        h, h2 = HS[i], HS[i + 1]
        d1, lead_h = remainder_ratio(A, y, h, p)
        d2, lead_h2 = remainder_ratio(A, y, h2, p)
        d1 += 8 * EPS * scales[i] / lead_h
        d2 += 8 * EPS * scales[i + 1] / lead_h2
        if d2 > 0.5:
            chk.note('order-pairs-skipped-remainder-bound>50%')
            continue
        if d1 < 0.075 and d2 < 0.075:
            chk.note('order-pairs-with-interval-inside-15%')
        lo = 2 ** (p + 1) * (1 - d1) / (1 + d2)
        hi = 2 ** (p + 1) * (1 + d1) / (1 - d2)
        ratio = errs[i] / errs[i + 1] if errs[i + 1] > 0 else float('inf')
        chk.note('order-comparisons')
        if not lo <= ratio <= hi:
            fails.append(Fail(key='%s-order-ratio' % name,
                              msg='one-step error of %s falls by %.3f when h is halved (%g -> %g); order %d demands %.2f..%.2f '
                                  '(dim %d, %s)' % (name, ratio, h, h2, p, lo, hi, d, MATKINDS[case['kind']]),
                              observed=ratio, expected=[lo, hi], errors=errs))
            break
    return fails


# --------------------------------------------------------------------------------------------
# gradient: functions with analytic gradient, third-derivative term and fifth-derivative bound

QM = np.array([[2.0, -0.5, 0.3], [-0.5, 1.5, 0.7], [0.3, 0.7, -1.0]])
QB = np.array([0.4, -1.2, 0.8])
QW = np.array([1.0, -0.6, 0.8])
EA = np.array([0.7, -0.5, 0.3, 0.9, -0.8, 0.4])
SW, SP = 1.3, 0.4
DWP = dict(a=1.2, H=1.5, k=2.0, c=0.4)


def _x(p, i):
    return np.asarray(p, dtype=float)[..., i]


class Fn:
    pass


def f_quadratic():
    F = Fn()
    F.name, F.d = 'quadratic', 3
    F.f = lambda p: 0.5 * np.einsum('...i,ij,...j->...', np.asarray(p, float), QM, np.asarray(p, float)) + np.asarray(p, float) @ QB + 0.25
    F.g = lambda p: np.asarray(p, float) @ QM + QB
    F.t3 = lambda p: np.zeros(np.shape(p))
    F.t5 = lambda p, s: np.zeros(np.shape(p))
    F.mag = lambda p: 0.5 * np.einsum('...i,ij,...j->...', np.abs(p), np.abs(QM), np.abs(p)) + np.abs(p) @ np.abs(QB) + 0.25
    return F


def f_quartic():
    F = Fn()
    F.name, F.d = 'quartic', 3
    F.f = lambda p: (QW * np.asarray(p, float) ** 4).sum(axis=-1) / 4 + _x(p, 0) * _x(p, 1) * _x(p, 2) + 0.5 * _x(p, 0) ** 2 * _x(p, 1)

    def g(p):
        p = np.asarray(p, float)
        x, y, z = p[..., 0], p[..., 1], p[..., 2]
        out = QW * p ** 3
        out[..., 0] += y * z + x * y
        out[..., 1] += x * z + 0.5 * x ** 2
        out[..., 2] += x * y
        return out
    F.g = g
    F.t3 = lambda p: QW * np.asarray(p, float)            # (1/6) d^3/dx_i^3 of w x^4/4 = w x
    F.t5 = lambda p, s: np.zeros(np.shape(p))
    F.mag = lambda p: (np.abs(QW) * np.asarray(p, float) ** 4).sum(axis=-1) / 4 + np.abs(_x(p, 0) * _x(p, 1) * _x(p, 2)) + 0.5 * np.abs(_x(p, 0) ** 2 * _x(p, 1))
    return F


def f_exp():
    F = Fn()
    F.name, F.d = 'exp-linear', 6
    F.f = lambda p: np.exp(np.asarray(p, float) @ EA)
    F.g = lambda p: F.f(p)[..., None] * EA
    F.t3 = lambda p: F.f(p)[..., None] * EA ** 3 / 6
    F.t5 = lambda p, s: F.f(p)[..., None] * np.abs(EA) ** 5 * np.exp(np.abs(EA) * s) / 120
    F.mag = lambda p: F.f(p) * (1 + np.abs(p) @ np.abs(EA))
    return F


def f_sine():
    F = Fn()
    F.name, F.d = 'sine', 1
    F.f = lambda p: np.sin(SW * _x(p, 0) + SP)
    F.g = lambda p: SW * np.cos(SW * np.asarray(p, float) + SP)
    F.t3 = lambda p: -SW ** 3 * np.cos(SW * np.asarray(p, float) + SP) / 6
    F.t5 = lambda p, s: np.full(np.shape(p), SW ** 5 / 120)
    F.mag = lambda p: 1.0 + SW * np.abs(_x(p, 0))
    return F


def f_doublewell():
    a, H, k, c = DWP['a'], DWP['H'], DWP['k'], DWP['c']
    F = Fn()
    F.name, F.d = 'double-well', 2
    F.f = lambda p: H * ((_x(p, 0) / a) ** 2 - 1) ** 2 + 0.5 * k * (_x(p, 1) - c * (_x(p, 0) ** 2 - a ** 2)) ** 2

    def g(p):
        p = np.asarray(p, float)
        x, y = p[..., 0], p[..., 1]
        u = y - c * (x ** 2 - a ** 2)
        out = np.empty(p.shape)
        out[..., 0] = 4 * H * x * ((x / a) ** 2 - 1) / a ** 2 - 2 * k * c * x * u
        out[..., 1] = k * u
        return out

    def t3(p):
        p = np.asarray(p, float)
        out = np.zeros(p.shape)
        out[..., 0] = (24 * H / a ** 4 + 12 * k * c ** 2) * p[..., 0] / 6
        return out
    F.g, F.t3 = g, t3
    F.t5 = lambda p, s: np.zeros(np.shape(p))
    F.mag = lambda p: H * ((_x(p, 0) / a) ** 2 + 1) ** 2 + 0.5 * k * (np.abs(_x(p, 1)) + abs(c) * (_x(p, 0) ** 2 + a ** 2)) ** 2
    return F


FUNCS = [f_quadratic(), f_quartic(), f_exp(), f_sine(), f_doublewell()]
# base points (first d components are used); the third one is integer-valued
POINTS = [[0.3, -0.7, 1.1, 0.45, -0.2, 0.9],
          [-1.25, 0.6, 0.35, -0.9, 1.4, -0.55],
          [1.0, -1.0, 2.0, -2.0, 1.0, -1.0],
          [0.05, 1.45, -0.65, 0.8, -1.1, 0.15],
          [-0.45, -0.35, -1.35, 1.2, 0.5, -1.45],
          [1.4, 0.85, -0.15, -0.3, -0.75, 0.6],
          [0.11 + 0.13 * (SEED % 8), -0.52 + 0.09 * (SEED % 8), 0.77 - 0.17 * (SEED % 8),
           -0.93 + 0.21 * (SEED % 8), 0.29 - 0.07 * (SEED % 8), 1.21 - 0.19 * (SEED % 8)]]
SHAPES = ['point', 'N', 'MN']
GFORMS = ['ndarray', 'list']
SHIFTS = [1e-2, 5e-3, 2.5e-3, None]
DEFAULT_SHIFT = 1e-5          # documented default of central_difference


def gradient_coord(F, case):
    base = np.array(POINTS[case['point']][:F.d])
    shape = SHAPES[case['shape']]
    if shape == 'point':
        c = base
    else:
        off = np.array([[0.1 * j * (-1) ** (i + j) for i in range(F.d)] for j in range(4)])
        c = base[None, :] + off                               # (4,d)
        if shape == 'MN':
            c = np.stack([c, c[::-1] * 0.5, c + 0.05])        # (3,4,d)
    return c


def call_gradient(F, coord, form, shift):
    arg = coord.tolist() if form == 'list' else coord.copy()
    if form == 'list' and np.all(coord == np.round(coord)):
        # a user writes integer-valued points as plain ints: central_difference(f, [1, -1, 2])
        arg = np.round(coord).astype(int).tolist()
        chk.note('gradient-integer-typed-input')
    kw = {} if shift is None else {'shift': shift}
    return mep.gradient.central_difference(F.f, arg, **kw)


@chk.clause('gradient')
def gradient(case):
    F = FUNCS[case['fn']]
    coord = gradient_coord(F, case)
    form = GFORMS[case['form']]
    shift = SHIFTS[case['shift']]
    s = DEFAULT_SHIFT if shift is None else shift
    got = np.asarray(call_gradient(F, coord, form, shift))
    fails = []
    if got.shape != coord.shape:
        return [Fail(key='gradient-shape', msg='gradient of coord shape %s has shape %s' % (coord.shape, got.shape))]
    g, t3 = F.g(coord), F.t3(coord)

    def allowance(sh):
        rnd = 50 * EPS * (np.abs(F.mag(coord))[..., None] + np.abs(coord) * np.abs(g)) / sh
        return sh ** 4 * np.abs(F.t5(coord, sh)) + rnd
    err = got - g
    resid = np.abs(err - s * s * t3)
    al = allowance(s)
    chk.note('gradient-comparisons', int(np.size(got)))
    if np.any(t3 != 0):
        chk.note('gradient-nontrivial-cases')
    if not np.all(resid <= al):
        i = np.unravel_index(int(np.argmax(resid - al)), resid.shape)
        exactq = not np.any(t3)
        key = 'gradient-not-exact-for-quadratic' if exactq else 'gradient-error-not-second-order'
        if not np.all(np.abs(err) <= 10 * (s * s * np.abs(t3) + al) + 1e-6 * np.abs(g)):
            key = 'gradient-wrong'
        if got.dtype.kind != 'f':
            key = 'gradient-truncated-for-integer-typed-points'
        fails.append(Fail(key=key,
                          msg='central_difference(%s, %s %s, shift=%s): component %s is %.12g, analytic %.12g, error %.3g but '
                              's^2 f\'\'\'/6 = %.3g (allowed deviation from it %.3g)'
                              % (F.name, form, coord.shape, shift, i, got[i], g[i], err[i], s * s * t3[i], al[i]),
                          observed=got[i], expected=g[i]))
        return fails
    if shift is not None:
        # second order: the error falls by 4 when the shift is halved
        got2 = np.asarray(call_gradient(F, coord, form, s / 2))
        pts = coord.reshape(-1, F.d)
        e1 = np.linalg.norm((got - g).reshape(-1, F.d), axis=1)
        e2 = np.linalg.norm((got2 - g).reshape(-1, F.d), axis=1)
        L1 = s * s * np.linalg.norm(t3.reshape(-1, F.d), axis=1)
        r1 = np.linalg.norm(allowance(s).reshape(-1, F.d), axis=1)
        r2 = np.linalg.norm(allowance(s / 2).reshape(-1, F.d), axis=1)
        for j in range(len(pts)):
            if L1[j] == 0:
                continue
            d1, d2 = r1[j] / L1[j], r2[j] / (L1[j] / 4)
            if d2 > 0.03:
                chk.note('gradient-ratio-skipped-remainder-bound>3%')
                continue
            lo, hi = 4 * (1 - d1) / (1 + d2), 4 * (1 + d1) / (1 - d2)
            ratio = e1[j] / e2[j] if e2[j] > 0 else float('inf')
            chk.note('gradient-ratio-comparisons')
            if not lo <= ratio <= hi:
                fails.append(Fail(key='gradient-ratio',
                                  msg='central_difference(%s) error falls by %.4f (not 4) when shift %g is halved at %s'
                                      % (F.name, ratio, s, pts[j]), observed=ratio, expected=[lo, hi]))
                break
    return fails


# --------------------------------------------------------------------------------------------
# two-minimum surfaces with closed-form stationary points

SA = [1.0, 1.5]
SH = [1.0, 2.0]
SK = [2.0, 5.0]
SC = [0.0, 0.4, -0.25]
SKEWNESS = 0.5                      # s: makes the two halves of the valley unequal in length (c != 0)
SEED_SURFACES = [(1.2, 1.4, 3.0, 0.3, 0.5), (1.3, 0.8, 2.5, -0.35, 0.4), (0.9, 1.7, 4.0, 0.45, -0.5),
                 (1.4, 1.2, 3.5, 0.2, 0.8), (1.1, 2.2, 2.2, -0.3, -0.6), (1.25, 0.9, 4.5, 0.5, 0.3),
                 (0.95, 1.1, 2.8, 0.35, 0.7), (1.35, 1.9, 3.2, -0.2, 0.9)]
SURFACES = [(a, H, k, c, SKEWNESS) for a in SA for H in SH for k in SK for c in SC] + [SEED_SURFACES[SEED % 8]]
STRINGS = ['straight', 'bent-up', 'bent-down']
NIMAGES = [7, 11, 15]
TSFACTORS = [1.0, 0.5]
RELAX_INTEGRATORS = ['rk', 'euler']
STEPCAP = 5000


class Surface:
    """V = H((x/a)^2-1)^2 + k/2 (y - phi(x))^2,  phi = c (x^2-a^2)(1 + s x/a);  phi(+-a) = 0.
    dV/dy = 0 <=> y = phi(x); then dV/dx = W'(x) = 4Hx((x/a)^2-1)/a^2 = 0 <=> x in {0, +-a}:
    minima (+-a, 0) with V = 0, saddle (0, -c a^2) with V = H, nothing else."""

    def __init__(self, a, H, k, c, s):
        self.a, self.H, self.k, self.c, self.s = a, H, k, c, s
        self.minima = [np.array([-a, 0.0]), np.array([a, 0.0])]
        self.saddle = np.array([0.0, -c * a * a])
        self.calls = 0

    def phi(self, x):
        return self.c * (x ** 2 - self.a ** 2) * (1 + self.s * x / self.a)

    def dphi(self, x):
        return 2 * self.c * x * (1 + self.s * x / self.a) + self.c * (x ** 2 - self.a ** 2) * self.s / self.a

    def V(self, p):
        p = np.asarray(p, float)
        x, y = p[..., 0], p[..., 1]
        return self.H * ((x / self.a) ** 2 - 1) ** 2 + 0.5 * self.k * (y - self.phi(x)) ** 2

    def grad(self, p):
        p = np.asarray(p, float)
        x, y = p[..., 0], p[..., 1]
        u = y - self.phi(x)
        g = np.empty(p.shape)
        g[..., 0] = 4 * self.H * x * ((x / self.a) ** 2 - 1) / self.a ** 2 - self.k * self.dphi(x) * u
        g[..., 1] = self.k * u
        return g

    def hessian_on_valley(self, x):
        """Hessian at (x, phi(x)) (where the k-term's first-order factor vanishes)"""
        d = self.dphi(x)
        wxx = 4 * self.H * (3 * x * x / self.a ** 2 - 1) / self.a ** 2
        return np.array([[wxx + self.k * d * d, -self.k * d], [-self.k * d, self.k]])

    def eig2(self, x):
        """eigenvalues of the symmetric 2x2 Hessian in closed form"""
        M = self.hessian_on_valley(x)
        tr, det = M[0, 0] + M[1, 1], M[0, 0] * M[1, 1] - M[0, 1] ** 2
        r = math.sqrt(tr * tr / 4 - det)
        return tr / 2 - r, tr / 2 + r


def initial_string(kind, a, n):
    t = np.linspace(0.0, 1.0, n)
    p0, p1 = np.array([-1.15 * a, 0.25]), np.array([0.9 * a, -0.2])
    c = p0[None, :] + t[:, None] * (p1 - p0)[None, :]
    if kind == 'bent-up':
        c[:, 1] += 0.6 * np.sin(np.pi * t)
    elif kind == 'bent-down':
        c[:, 1] -= 0.8 * np.sin(np.pi * t)
    return c


def quiet(fn, *args, **kwargs):
    buf = io.StringIO()
    with contextlib.redirect_stdout(buf):
        r = fn(*args, **kwargs)
    return r, buf.getvalue()


def own_tangent(coord):
    d = coord[1:] - coord[:-1]
    d = d / np.linalg.norm(d, axis=1)[:, None]
    t = np.empty_like(coord)
    t[0], t[-1] = d[0], d[-1]
    t[1:-1] = d[:-1] + d[1:]
    return t / np.linalg.norm(t, axis=1)[:, None]


@chk.clause('relax')
def relax(case):
    S = Surface(*SURFACES[case['surf']])
    n = NIMAGES[case['n']]
    kind = STRINGS[case['string']]
    integ = RELAX_INTEGRATORS[case['integ']]
    start = initial_string(kind, S.a, n)
    fails = []
    # another, unrelated path with default settings was built earlier and had its gradient step retuned in place (the
    # gradientkwargs attribute hands out the dict the path uses): the settings of one path are not those of the next
    try:
        other = mep.create_path(initial_string(kind, S.a, n), S.V, integratorfxn=integ)
        if isinstance(other.gradientkwargs, dict):
            other.gradientkwargs['shift'] = 0.4 * S.a
            chk.note('relax-after-another-path-was-retuned')
    except TypeError:
        pass
    try:
        path = mep.create_path(start, S.V, integratorfxn=integ)
    except TypeError as e:
        # reported, then the relaxation itself is still examined with the documented equivalent of the default
        fails.append(Fail(key='create_path-default-gradientkwargs-refused', msg='create_path(coord, energyfxn, integratorfxn=%r) raises TypeError: %s' % (integ, e)))
        path = mep.create_path(start, S.V, integratorfxn=integ, gradientkwargs={})
    tol = max(float(n) ** -4, 1e-10)                       # documented default tolerance
    ts0 = 0.05 * min(0.2, 1.0 / n)                         # documented default time step
    if not (abs(path.default_tolerance - tol) <= 1e-15 and abs(path.default_timestep - ts0) <= 1e-15):
        fails.append(Fail(key='documented-defaults', msg='default_tolerance/default_timestep are not max(N^-4,1e-10) / 0.05 min(0.2,1/N)',
                          observed=[path.default_tolerance, path.default_timestep], expected=[tol, ts0]))
    ts = ts0 * TSFACTORS[case['ts']]
    kw = {} if case['ts'] == 0 else {'timestep': ts}
    cap = int(round(STEPCAP / TSFACTORS[case['ts']]))      # the same pseudo-time for every time step
    lam_min = [S.eig2(-S.a), S.eig2(S.a)]
    lam_sad = S.eig2(0.0)
    lam_max = max(lam_min[0][1], lam_min[1][1], abs(lam_sad[0]), lam_sad[1])
    lam_abs = min(abs(lam_sad[0]), abs(lam_sad[1]))
    # relax() stops when every image moved less than tol*ts in one step.  An end image and the climbing image are not
    # touched by the re-spacing (they are spline knots that keep their arc coordinate), so their displacement is the
    # integrator step alone: |dx|/ts = |phi(-ts M) grad V| >= (1 - ts L/2) |grad V| for Euler (phi = 1) and Runge-Kutta
    # (phi(z) = 1 + z/2 + z^2/6 + z^3/24), M the Hessian, L its largest |eigenvalue|; 1% for the anharmonic part.
    assert ts * lam_max < 0.25 and lam_sad[0] < 0 < lam_sad[1] and min(lam_min[0][0], lam_min[1][0]) > 0
    gfac = 1.01 / (1.0 - ts * lam_max / 2)
    tag0 = '%s surf=%s %s N=%d ts=%g' % (integ, SURFACES[case['surf']], kind, n, ts)

    def nsteps(out):
        return [int(l.split(':')[1]) for l in out.splitlines() if 'steps performed' in l]

    # relaxation and climbing as two calls, so that the relaxed string before climbing can be seen
    relaxed, out1 = quiet(path.relax, relaxsteps=cap, climbsteps=0, **kw)
    steps = nsteps(out1)
    chk.note('relax-steps-total', sum(steps))
    if len(steps) != 1 or steps[0] >= cap:
        return fails + [Fail(key='not-converged', msg='%s: relax(relaxsteps=%d) did not stop by its own convergence test: %s' % (tag0, cap, steps))]
    E0 = S.V(relaxed.coord)
    i0 = int(np.argmax(E0))
    if np.shape(relaxed.coord) != start.shape or i0 in (0, n - 1):
        return fails + [Fail(key='relaxed-string-has-no-interior-maximum', msg='%s: highest image of the relaxed string is %d' % (tag0, i0))]
    if abs(float(E0[i0]) - S.H) > 1e-5 * S.H:
        chk.note('relax-nontrivial-climb')
    climbed, out2 = quiet(relaxed.relax, relaxsteps=0, climbsteps=cap, **kw)
    finals = [('two calls', climbed, nsteps(out2), 1)]
    if case['n'] == 0:
        # ... and in one call (the shortest strings only: same work again)
        both, out3 = quiet(path.relax, relaxsteps=cap, climbsteps=cap, **kw)
        finals.append(('one call', both, nsteps(out3), 2))
        # ... and with tolerance=0: 'until the displacement drops below the tolerance or the maximum number of steps is
        # reached' then means all steps.  With three times the steps the default tolerance needed, the string has to be
        # much closer than that tolerance asks for: the error falls geometrically, (tol)^3 in 3 S steps up to a constant,
        # down to the bias of the numerical gradient (shift 1e-5: ~1e-9); 1e-2 tol is asked for.
        s3 = nsteps(out3)
        if len(s3) == 2 and max(s3) < cap:
            B = 3 * max(s3)
            allsteps, outz = quiet(path.relax, relaxsteps=B, climbsteps=B, tolerance=0, **kw)
            sz = nsteps(outz)
            chk.note('relax-comparisons', 4)
            chk.note('relax-steps-total', 2 * B)
            tagz = tag0 + ' (tolerance=0, %d+%d steps)' % (B, B)
            if sz != [B, B]:
                fails.append(Fail(key='tolerance-zero-stops-early', msg='%s: steps performed %s' % (tagz, sz), observed=sz, expected=[B, B]))
            elif np.shape(allsteps.coord) != start.shape:
                fails.append(Fail(key='path-shape', msg='%s: relaxed path has shape %s' % (tagz, np.shape(allsteps.coord))))
            else:
                gz = np.linalg.norm(S.grad(allsteps.coord), axis=1)
                Ez = S.V(allsteps.coord)
                iz = int(np.argmax(Ez))
                worst = max(float(gz[0]), float(gz[-1]), float(gz[iz]))
                if not worst <= 1e-2 * tol:
                    fails.append(Fail(key='tolerance-zero-not-tighter', msg='%s: |grad V| at the ends / highest image is %.3g, %.3g, %.3g; '
                                      'expected below 1e-2 x default tolerance = %.3g' % (tagz, gz[0], gz[-1], gz[iz], 1e-2 * tol)))
                elif not abs(float(Ez[iz]) - S.H) <= 1e-7 * S.H:
                    fails.append(Fail(key='barrier', msg='%s: highest energy %.12g, true barrier %.12g' % (tagz, Ez[iz], S.H)))

    for mode, final, steps, nexpect in finals:
        tag = tag0 + ' (%s)' % mode
        chk.note('relax-comparisons', 9)
        chk.note('relax-steps-total', steps[-1] if steps else 0)
        if len(steps) != nexpect or max(steps) >= cap:
            fails.append(Fail(key='not-converged', msg='%s: relax did not stop by its own convergence test within %d steps: %s' % (tag, cap, steps)))
            continue
        coord = final.coord
        if coord.shape != start.shape:
            fails.append(Fail(key='path-shape', msg='%s: relaxed path has shape %s' % (tag, coord.shape)))
            continue
        nf = len(fails)
        g = S.grad(coord)
        E = S.V(coord)
        # ends in the minima
        for e, (idx, m) in enumerate(zip((0, -1), S.minima)):
            dist = float(np.linalg.norm(coord[idx] - m))
            gn = float(np.linalg.norm(g[idx]))
            if not dist <= 3 * tol / lam_min[e][0]:
                fails.append(Fail(key='end-not-in-minimum', msg='%s: end %d at %s, minimum %s, distance %.3g > 3 tol/lambda = %.3g'
                                                                % (tag, e, coord[idx], m, dist, 3 * tol / lam_min[e][0]), observed=coord[idx], expected=m))
            elif not gn <= gfac * tol:
                fails.append(Fail(key='end-gradient', msg='%s: |grad V| = %.3g at end %d > %.3f tol = %.3g' % (tag, gn, e, gfac, gfac * tol)))
        # the highest image of the relaxed string has been brought to the saddle (and is still the highest)
        i = int(np.argmax(E))
        gn = float(np.linalg.norm(g[i0]))
        dist = float(np.linalg.norm(coord[i0] - S.saddle))
        if i != i0:
            fails.append(Fail(key='highest-image-changed', msg='%s: image %d was the highest of the relaxed string, after climbing image %d is the highest '
                                                               '(image %d at %s, saddle %s)' % (tag, i0, i, i0, coord[i0], S.saddle)))
        elif not dist <= 3 * tol / lam_abs:
            fails.append(Fail(key='highest-image-not-at-saddle', msg='%s: highest image %d at %s, saddle %s, distance %.3g > 3 tol/|lambda| = %.3g'
                                                                     % (tag, i, coord[i], S.saddle, dist, 3 * tol / lam_abs), observed=coord[i], expected=S.saddle))
        elif not gn <= gfac * tol:
            fails.append(Fail(key='saddle-gradient', msg='%s: |grad V| = %.3g at the highest image > %.3f tol = %.3g' % (tag, gn, gfac, gfac * tol)))
        if not abs(float(E[i]) - S.H) <= 1e-5 * S.H:
            fails.append(Fail(key='barrier', msg='%s: highest energy %.9g, true barrier %.9g' % (tag, E[i], S.H), observed=float(E[i]), expected=S.H))
        if len(fails) > nf:
            continue
        # the path object's own observables on the relaxed path
        Ep = np.asarray(final.energy())
        gp = np.asarray(final.grad_energy())
        fp = np.asarray(final.force)
        ap = np.asarray(final.arccoord)
        gtol = 1e-7 * (1 + np.abs(g).max())                    # shift 1e-5: truncation ~1e-10 d3V, rounding ~50 eps V/1e-5
        seg = np.linalg.norm(coord[1:] - coord[:-1], axis=1)
        if not (Ep.shape == (n,) and np.array_equal(Ep, E)):
            fails.append(Fail(key='path-energy', msg='%s: path.energy() differs from the energy function at path.coord' % tag))
        if not (gp.shape == (n, 2) and np.abs(gp - g).max() <= gtol):
            fails.append(Fail(key='path-grad-energy', msg='%s: path.grad_energy() differs from the analytic gradient by %.3g' % (tag, np.abs(gp - g).max())))
        elif not (fp.shape == (n,) and np.abs(fp - np.einsum('ij,ij->i', g, own_tangent(coord))).max() <= 2 * gtol):
            fails.append(Fail(key='path-force', msg='%s: path.force is not grad E . unit tangent' % tag))
        if not (ap.shape == (n,) and ap[0] == 0 and np.abs(ap[1:] - np.cumsum(seg)).max() <= 1e-12 * seg.sum()):
            fails.append(Fail(key='path-arccoord', msg='%s: path.arccoord is not the cumulative chord length' % tag))
    return fails


# --------------------------------------------------------------------------------------------
# create_path options


# --------------------------------------------------------------------------------------------
# the same surfaces at another length scale: E(p) = L^2 V(p / L).  The gradient flow in u = p/L is then exactly that
# of V, so time steps and the convergence measure per unit length carry over; only the finite-difference step of the
# numerical gradient has to suit the scale (gradientkwargs={'shift': 1e-3 L}).  Relaxation with climbing must still put
# the ends into (+-a L, 0) and the highest image onto the saddle with the barrier L^2 H.

SCALES = [3e-5, 2e3]
SCALED_SURFACES = [1, 16]


@chk.clause('relax-scaled')
def relax_scaled(case):
    S = Surface(*SURFACES[SCALED_SURFACES[case['surf']]])
    L = SCALES[case['scale']]
    n = 11
    start = initial_string(STRINGS[case['string']], S.a, n) * L
    integ = {'rk': 'rungekutta', 'euler': 'euler'}[RELAX_INTEGRATORS[case['integ']]]

    def E(p):
        return L * L * S.V(np.asarray(p, float) / L)
    fails = []
    try:
        path = mep.create_path(start, E, gradientkwargs={'shift': 1e-3 * L}, integratorfxn=integ)
        tol = max(float(n) ** -4, 1e-10) * L
        kw = {}
        if case.get('ts'):
            # a caller-chosen time step well away from the default one (still inside the stable range ts*Lambda < 2)
            kw['timestep'] = case['ts'] * path.default_timestep
        final, _ = quiet(path.relax, relaxsteps=STEPCAP, climbsteps=STEPCAP, tolerance=tol, **kw)
    except Exception as e:
        return [Fail(key='scaled-exception:%s' % type(e).__name__, msg='relaxation on the surface scaled by L=%g raised %s: %s' % (L, type(e).__name__, e))]
    chk.note('relax-comparisons', 4)
    c = np.asarray(final.coord) / L
    lam = min(abs(x) for x in S.eig2(S.a) + S.eig2(-S.a) + S.eig2(0.0))
    dtol = 3 * max(float(n) ** -4, 1e-10) / lam + 1e-5          # position tolerance in units of L (+ finite-difference bias ~ shift^2)
    for end, m in ((0, S.minima[0]), (-1, S.minima[1])):
        if np.linalg.norm(c[end] - m) > dtol:
            fails.append(Fail(key='scaled-end-not-in-minimum', msg='L=%g %s %s: end image %d at %s L, minimum %s L (distance %.3g L)'
                              % (L, integ, STRINGS[case['string']], end, c[end].tolist(), m.tolist(), np.linalg.norm(c[end] - m))))
    en = np.asarray(final.energy()) / (L * L)
    top = int(np.argmax(en))
    if np.linalg.norm(c[top] - S.saddle) > dtol:
        fails.append(Fail(key='scaled-highest-image-not-at-saddle', msg='L=%g %s %s: highest image %d at %s L, saddle %s L'
                          % (L, integ, STRINGS[case['string']], top, c[top].tolist(), S.saddle.tolist())))
    elif np.linalg.norm(S.grad(c[top])) > 3 * max(float(n) ** -4, 1e-10) + 1e-5:
        fails.append(Fail(key='scaled-saddle-gradient', msg='L=%g %s ts=%s: |grad V| at the highest image is %.3g (per unit length), the convergence tolerance is %.3g'
                          % (L, integ, case.get('ts'), np.linalg.norm(S.grad(c[top])), max(float(n) ** -4, 1e-10))))
    elif abs(en[top] - S.H) > 1e-4 * S.H:
        fails.append(Fail(key='scaled-barrier', msg='L=%g: energy of the highest image %.8g L^2, barrier %.8g L^2' % (L, en[top], S.H)))
    return fails

DEFAULT = '<default>'


class Counting:
    def __init__(self, fn):
        self.fn, self.n = fn, 0

    def __call__(self, *a, **k):
        self.n += 1
        return self.fn(*a, **k)


def analytic_gradientfxn(S):
    def gfx(fxn, coord, shift=None):
        return S.grad(coord)
    return gfx


INTEG_OPTS = [DEFAULT, 'rk', 'rungekutta', 'callable-rungekutta', 'euler', 'callable-euler']
GRAD_OPTS = [DEFAULT, 'cdiff', 'central_difference', 'callable-central_difference', 'callable-analytic']
KW_OPTS = [DEFAULT, None, {}, {'shift': 1e-5}, {'shift': 1e-3}]
OPT_SURFACES = [1, 16]             # indices into SURFACES: one bent-skewed, one with a=1.5
NRELAX, NCLIMB = 3, 2


def build_opts(case, S, count=False):
    io_, go, ko = INTEG_OPTS[case['integ']], GRAD_OPTS[case['grad']], KW_OPTS[case['kw']]
    kw = {}
    if count:
        # callables are documented option values: wrap the functions the spelling stands for, to count their use
        ic, gc = opt_classes(case)
        kw['integratorfxn'] = Counting(getattr(mep.integrator, ic))
        kw['gradientfxn'] = Counting(analytic_gradientfxn(S) if gc == 'analytic' else mep.gradient.central_difference)
    else:
        if io_ != DEFAULT:
            kw['integratorfxn'] = {'callable-rungekutta': mep.integrator.rungekutta, 'callable-euler': mep.integrator.euler}.get(io_, io_)
        if go != DEFAULT:
            kw['gradientfxn'] = {'callable-central_difference': mep.gradient.central_difference,
                                 'callable-analytic': analytic_gradientfxn(S)}.get(go, go)
    if not (isinstance(ko, str) and ko == DEFAULT):
        kw['gradientkwargs'] = None if ko is None else dict(ko)
    return kw


def opt_classes(case):
    io_, go, ko = INTEG_OPTS[case['integ']], GRAD_OPTS[case['grad']], KW_OPTS[case['kw']]
    ic = 'euler' if 'euler' in io_ else 'rungekutta'
    if go == 'callable-analytic':
        gc = 'analytic'
    else:
        gc = 'cdiff(1e-3)' if isinstance(ko, dict) and ko.get('shift') == 1e-3 else 'cdiff(1e-5)'
    return ic, gc


def reference_step_coord(S, start, ic, gc):
    """step() / step(climbindex=middle) of a path built with explicit callables and an explicit shift: the canonical
    spelling of an option-equivalence class (the re-spacing of step() is not part of the property, so the oracle for
    the option clauses is equivalence of spellings, not an independent step)"""
    kw = {'integratorfxn': mep.integrator.euler if ic == 'euler' else mep.integrator.rungekutta}
    if gc == 'analytic':
        kw['gradientfxn'] = analytic_gradientfxn(S)
        kw['gradientkwargs'] = {}
    else:
        kw['gradientfxn'] = mep.gradient.central_difference
        kw['gradientkwargs'] = {'shift': 1e-3 if gc == 'cdiff(1e-3)' else 1e-5}
    p = mep.create_path(start, S.V, **kw)
    return p.step().coord, p.step(climbindex=len(start) // 2).coord


@chk.clause('options')
def options(case):
    S = Surface(*SURFACES[OPT_SURFACES[case['surf']]])
    n = 7
    start = initial_string('bent-up', S.a, n)
    fails = []
    kw = build_opts(case, S)
    label = ', '.join('%s=%s' % (k, v if isinstance(v, (str, dict, type(None))) else getattr(v, '__name__', 'callable')) for k, v in kw.items()) or 'defaults'
    chk.note('options-comparisons', 6)
    try:
        path = mep.create_path(start, S.V, **kw)
    except Exception as e:
        return [Fail(key='create_path-refuses-documented-options', msg='create_path(coord, energyfxn, %s) raises %s: %s' % (label, type(e).__name__, e))]
    # The statement needs no more from the options than that every documented way of choosing them yields a path
    # that can be stepped (the relaxation clauses run both integrators and both gradient kinds to the saddle).
    # How an option is resolved, or whether relax() keeps a non-default choice for later steps, is documented
    # behaviour beyond the property and is deliberately NOT judged here.
    try:
        p1 = path.step()
        p2 = path.step(climbindex=n // 2)
    except Exception as e:
        return [Fail(key='step-raises-with-documented-options', msg='create_path(coord, energyfxn, %s).step() raises %s: %s' % (label, type(e).__name__, e))]
    for q in (p1, p2):
        if np.shape(q.coord) != np.shape(start) or not np.all(np.isfinite(q.coord)):
            fails.append(Fail(key='step-shape-with-documented-options', msg='%s: step() returns coord of shape %s' % (label, np.shape(q.coord))))
            break
    return fails


REFUSALS = ['style', 'energyfxn', 'gradientkwargs', 'gradientfxn-str', 'integratorfxn-str', 'gradientfxn-type', 'integratorfxn-type', 'style-long']


def _unused_refusals(case):
    S = Surface(*SURFACES[1])
    start = initial_string('straight', S.a, 7)
    what = REFUSALS[case['what']]
    chk.note('options-comparisons')
    ok = dict(gradientkwargs={})
    try:
        if what == 'style':
            want = ValueError
            mep.create_path(start, S.V, style='NEB', **ok)
        elif what == 'style-long':
            p = mep.create_path(start, S.V, style='improved_string_method', **ok)
            return [] if isinstance(p, mep.ISMPath) else [Fail(key='style-long', msg='improved_string_method does not give an ISMPath')]
        elif what == 'energyfxn':
            want = TypeError
            mep.create_path(start, 3.0, **ok)
        elif what == 'gradientkwargs':
            want = TypeError
            mep.create_path(start, S.V, gradientkwargs=[('shift', 1e-3)])
        elif what == 'gradientfxn-str':
            want = ValueError
            mep.create_path(start, S.V, gradientfxn='forward', **ok)
        elif what == 'integratorfxn-str':
            want = ValueError
            mep.create_path(start, S.V, integratorfxn='verlet', **ok)
        elif what == 'gradientfxn-type':
            want = TypeError
            mep.create_path(start, S.V, gradientfxn=1.0, **ok)
        else:
            want = TypeError
            mep.create_path(start, S.V, integratorfxn=1.0, **ok)
    except (ValueError, TypeError) as e:
        if isinstance(e, want):
            return []
        return [Fail(key='refusal-type-' + what, msg='invalid %s refused with %s, documented %s' % (what, type(e).__name__, want.__name__))]
    return [Fail(key='refusal-missing-' + what, msg='invalid %s accepted' % what)]


# --------------------------------------------------------------------------------------------

def relax_cases():
    ns, nn, nt = len(STRINGS), len(NIMAGES), len(TSFACTORS)
    for si in range(len(SURFACES)):
        for ii in range(len(RELAX_INTEGRATORS)):
            if THOROUGH:
                triples = list(itertools.product(range(ns), range(nn), range(nt)))
            else:
                # three triples per (surface, integrator): every surface sees every string and every image count;
                # the offsets rotate with the surface index so that every value of a, H, k, c meets all 9
                # (string, N) pairs and all (string, ts), (N, ts) pairs with each integrator (assert_quick_cover)
                triples = [((j + si) % ns, (j + 2 * si + si // 3) % nn, (j + si // 2 + ii) % nt) for j in range(3)]
            for st, n, t in triples:
                yield 'relax', {'surf': si, 'string': st, 'n': n, 'ts': t, 'integ': ii}


def gen():
    # slowest first, so the pool stays busy
    yield from relax_cases()
    for ii, di, ki, vi in itertools.product(range(len(INTEGRATORS)), range(len(DIMS)), range(len(MATKINDS)), range(NVEC)):
        for fi, form in enumerate(FORMS):
            if form == 'scalar' and DIMS[di] != 1:
                continue
            c = {'integ': ii, 'dim': di, 'kind': ki, 'vec': vi, 'form': fi}
            yield 'taylor', c
            yield 'order', dict(c)
    for fn, pt, sh, fo, sf in itertools.product(range(len(FUNCS)), range(len(POINTS)), range(len(SHAPES)), range(len(GFORMS)), range(len(SHIFTS))):
        yield 'gradient', {'fn': fn, 'point': pt, 'shape': sh, 'form': fo, 'shift': sf}
    for su, sc, st, ii in itertools.product(range(len(SCALED_SURFACES)), range(len(SCALES)), range(len(STRINGS) if THOROUGH else 1), range(len(RELAX_INTEGRATORS))):
        yield 'relax-scaled', {'surf': su, 'scale': sc, 'string': (st + 1) % len(STRINGS), 'integ': ii}
        if sc == 0 or THOROUGH:
            yield 'relax-scaled', {'surf': su, 'scale': sc, 'string': (st + 1) % len(STRINGS), 'integ': ii, 'ts': 8.0}
    for su, ii, gi, ki in itertools.product(range(len(OPT_SURFACES)), range(len(INTEG_OPTS)), range(len(GRAD_OPTS)), range(len(KW_OPTS))):
        yield 'options', {'surf': su, 'integ': ii, 'grad': gi, 'kw': ki}


def assert_quick_cover():
    """the quick sub-product still shows every parameter value, every (string, images) pair and both time steps
    to both integrators, and every surface to every string, image count and integrator"""
    cases = [c for _, c in relax_cases()]
    for ii in range(len(RELAX_INTEGRATORS)):
        mine = [c for c in cases if c['integ'] == ii]
        assert {(c['string'], c['n']) for c in mine} == set(itertools.product(range(len(STRINGS)), range(len(NIMAGES))))
        assert {c['ts'] for c in mine} == set(range(len(TSFACTORS)))
        for si in range(len(SURFACES)):
            here = [c for c in mine if c['surf'] == si]
            assert {c['string'] for c in here} == set(range(len(STRINGS))) and {c['n'] for c in here} == set(range(len(NIMAGES)))
        for pos, menu in enumerate((SA, SH, SK, SC)):
            for v in menu:
                here = [c for c in mine if SURFACES[c['surf']][pos] == v]
                assert {(c['string'], c['n']) for c in here} == set(itertools.product(range(3), range(3)))
                assert {(c['string'], c['ts']) for c in here} == set(itertools.product(range(3), range(2)))
                assert {(c['n'], c['ts']) for c in here} == set(itertools.product(range(3), range(2)))


if __name__ == '__main__':
    assert_quick_cover()
    chk.run_cases(gen(), batch=4)
    nt = chk.notes
    cov = {'evaluations': sum(nt.get(k, 0) for k in ('taylor-comparisons', 'order-comparisons', 'gradient-comparisons',
                                                      'gradient-ratio-comparisons', 'relax-comparisons', 'options-comparisons')),
           'distinct_nontrivial': nt.get('order-nontrivial-cases', 0) + nt.get('gradient-nontrivial-cases', 0) + nt.get('relax-nontrivial-climb', 0),
           'calls_cases': sum(chk.counts.values()),
           'relaxations': chk.counts.get('relax', 0)}
    sys.exit(chk.finish(cov))
