"""C08 - load(dump(system)) returns the system: LAMMPS data file, LAMMPS dump file, generic table, POSCAR.

Bounded-exhaustive enumeration over the C07 system alphabet (full products of the menus below, nothing
sampled) plus fault enumeration of the written texts (every permutation of the <=4 atom / velocity lines,
every comment / blank-line insertion point, every required element deleted in turn).

Oracle: the loaded System is compared with the ORIGINAL system as constructed (cell, natoms, atype,
positions, every carried property with its shape, pbc for dump files, symbols for POSCAR).  The tolerance of
each number is half a unit of the last digit of the token that was printed for it (tokens are read by the
independent format readers of mc/refs/c07_parsers.py), converted back to working units with the independent
unit table mc/refs/c07_units.py.  No atomman loader is used to compute an expectation.
"""
import io
import itertools
import os
import re
import shutil
import sys
import tempfile

import numpy as np

from mc.common import Check, Fail, THOROUGH, assert_overlay
from mc.refs import c07_parsers as P
from mc.refs import c07_units as U

am = assert_overlay()
from atomman.load import FileFormatError  # noqa: E402
from props import c07 as C7  # noqa: E402   (system alphabet, column tables, cell rule shared with C07)

chk = Check('C08', 'fault_enumeration',
            'full product: C07 systems (orthogonal/triclinic, origin 0/generic, atoms inside / outside by several cells / on '
            'faces, type gap + unused trailing type, N=3/4(/6), with/without velocity, charge, (3,3) float, int extras) x 8 pbc x '
            'every atom_style the system can supply x 8 unit styles x float formats x input forms (str, path, open binary '
            'stream) for data files; systems x 8 pbc x 8 unit styles x formats x column variants (all properties, pos / spos / '
            'upos / supos, own atom ids) x prop_info (writer\'s / inferred from the header) x forms for dump files; tables '
            '(default / named units / scaled; header) and POSCAR (direct/Cartesian x box_scale x symbols x header line) x forms; '
            'text faults: all permutations of the <=4 atom lines and, independently, of the velocity lines (thorough: their full product), a comment on each '
            'header / section / atom line, a blank line at each header gap and section boundary, each required element '
            '(N atoms, xlo xhi, ylo yhi, zlo zhi, Atoms keyword, Atoms section) deleted -> FileFormatError.  '
            'evaluation = one load() compared with the original system; non-trivial = load that needed image flags, an '
            'extended box, a scaled column, a scale factor != 1, a non-identity line permutation or a perturbed text')
chk.assumptions = [
    'tolerance of every loaded number = half a unit of the last printed digit of its token (read by the independent '
    'parsers), divided by the independent unit factor, propagated linearly through image-flag / bounding-box / scaled-'
    'coordinate / scale-factor arithmetic, plus 1e-12 relative for float rounding',
    'unit factors (only used to scale tolerances): LAMMPS units page + CODATA constants from scipy.constants',
    'data files: along non-periodic directions the writer\'s documented wrap extends the box; there the loaded cell must '
    'equal the cell the independent parser reads from the file and contain the original cell',
    'a (units, float_format) pair whose box extent is below 200 units of the last printed digit is not resolvable by '
    'that format and is not judged (counted as unresolvable)',
    'units=electron defines no density unit: atom styles with a density column are refused by the writer (nothing to load)',
    'POSCAR has no origin: direct mode compares box-relative coordinates, Cartesian mode only systems with origin 0; atoms '
    'are grouped by type and compared as multisets per type',
    'dump files with own atom ids: the loader orders atoms by id; the expectation is the original system in id order',
    'table written with header=True is loaded with header=0 (pandas option passed through, as documented)',
]

UNITS = C7.UNITS
PBCS = C7.PBCS
SYSDEFS = C7.SYSDEFS
ATOM_STYLES = C7.ATOM_STYLES
if THOROUGH:
    FORMATS = ['%.13f', '%.10e', '%.6f', '%.16e']
    FORMS = ['str', 'path', 'stream', 'file']
else:
    FORMATS = ['%.13f', '%.10e']
    FORMS = ['str', 'path', 'stream']


# ---------------------------------------------------------------------------------------------
# helpers

class Forms:
    """hands one text to a loader as str, as a path, as an in-memory binary stream, as an open binary file"""

    def __init__(self):
        self.tmp = None
        self.k = 0
        self.open = []

    def give(self, text, form):
        if form == 'str':
            return text
        if form == 'stream':
            return io.BytesIO(text.encode())
        if self.tmp is None:
            self.tmp = tempfile.mkdtemp(prefix='c08_')
        self.k += 1
        path = os.path.join(self.tmp, 'f%d.txt' % self.k)
        with open(path, 'w') as f:
            f.write(text)
        if form == 'path':
            return path
        assert form == 'file'
        h = open(path, 'rb')
        self.open.append(h)
        return h

    def close(self):
        for h in self.open:
            try:
                h.close()
            except Exception:
                pass
        if self.tmp is not None:
            shutil.rmtree(self.tmp, ignore_errors=True)


def close(a, b, tol):
    a, b = np.asarray(a, float), np.asarray(b, float)
    if a.shape != b.shape:
        return False
    return bool(np.all(np.abs(a - b) <= tol))


def prefixed(fails, pre):
    out = []
    for f in fails:
        f = Fail(f)
        f['key'] = pre + f['key']
        out.append(f)
    return out


def compare_props(s2, want, tag):
    """want: {name: (array, tol array)}; shape and values of every carried property"""
    fails = []
    have = s2.atoms_prop()
    for name, (w, tol) in want.items():
        if name not in have:
            fails.append(Fail(key='%s-prop-missing-%s' % (tag, name), msg='loaded system lacks the carried property %s' % name))
            continue
        got = np.asarray(s2.atoms.view[name])
        w = np.asarray(w)
        if got.shape != w.shape:
            fails.append(Fail(key='%s-prop-shape-%s' % (tag, name), msg='property %s loaded with shape %s, original %s' % (name, got.shape, w.shape)))
            continue
        if w.dtype.kind in 'iu':
            ok = np.array_equal(got, w)
        else:
            ok = close(got, w, tol)
        if not ok:
            fails.append(Fail(key='%s-prop-value-%s' % (tag, name), msg='property %s differs from the original beyond the printed precision' % name,
                              observed=got, expected=w, tol=np.max(tol)))
    return fails


# ---------------------------------------------------------------------------------------------
# LAMMPS data files

def data_reference(text, rec, style, units):
    """what a load of this file has to return, from the ORIGINAL system record; tolerances from the printed tokens.
    Returns ('skip', None) / ('fail', [Fail]) / ('ok', ref)."""
    fl = U.factor(units, 'length')
    n = rec['n']
    try:
        d = P.parse_data(text, style)
    except P.FormatError as e:
        if str(e).startswith('box:'):
            # is the box resolvable at all by this float_format?  (same rule as C07)
            m = re.search(r'\((\S+) (\S+)\)', str(e))
            hu = max(P.Num(m.group(1)).hu, P.Num(m.group(2)).hu)
            if (np.diag(rec['vects']) * fl).min() < 200 * hu:
                return 'skip', None
        return 'fail', [Fail(key='data-writer-malformed', msg='independent read_data parser rejects the written file (C07 matter): %s' % e)]
    fo, fv, hfo, hfv = P.data_cell(d)
    if (np.diag(rec['vects']) * fl).min() < 200 * max(hfo.max(), hfv.max()):
        return 'skip', None
    ids = d['atoms']['id']
    if sorted(ids) != list(range(1, n + 1)):
        return 'fail', [Fail(key='data-writer-ids', msg='written ids are not 1..N (C07 matter)')]
    row = np.argsort(ids)
    flags = d['flags'][row] if d['flags'] is not None else np.zeros((n, 3), int)
    hxyz = np.array([[d['atoms'][c][r].hu for c in 'xyz'] for r in row])
    eps = 1e-12 * (np.abs(rec['vects']).max() + np.abs(rec['origin']).max() + np.abs(rec['pos']).max())
    ref = dict(fl=fl, fo=fo, fv=fv, hfo=hfo, hfv=hfv, flags=flags, eps=eps,
               postol=(hxyz + np.abs(flags) @ hfv) / fl + eps)
    # carried properties: every non-position column of the Atoms and Velocities tables
    want = {}
    tables = [(d['atoms'], row)]
    if d['velocities'] is not None:
        tables.append((d['velocities'], np.argsort(d['velocities']['id'])))
    comp_tol = {}
    for table, r in tables:
        for col, toks in table.items():
            if col in ('id', 'type', 'x', 'y', 'z'):
                continue
            pname, comp, q = C7.COLPROP[col]
            f = U.factor(units, q)
            hu = np.array([toks[j].hu if isinstance(toks[j], P.Num) else 0.0 for j in r]) / f
            comp_tol.setdefault(pname, {})[comp] = hu
    for pname, comps in comp_tol.items():
        w = np.asarray(rec['props'][pname])
        if None in comps:
            tol = comps[None]
        else:
            tol = np.stack([comps[k] for k in range(w.shape[1])], axis=1)
        want[pname] = (w, tol + 1e-12 * np.abs(w))
    ref['want'] = want
    ref['has_flags'] = bool(np.any(flags != 0))
    exact = [i for i in range(3) if rec['pbc'][i]]
    ref['exact'] = exact
    ref['extended'] = bool(len(exact) < 3 and np.abs(np.diag(fv @ np.linalg.inv(rec['vects'] * fl)) - 1).max() > 1e-6)
    return 'ok', ref


def judge_data(s2, ref, rec, tag='data'):
    fails = []
    n = rec['n']
    if s2.natoms != n:
        return [Fail(key=tag + '-natoms', msg='loaded %d atoms, original has %d' % (s2.natoms, n))]
    fl, eps = ref['fl'], ref['eps']
    # cell: what the file says (all directions) ...
    if not close(s2.box.vects * fl, ref['fv'], ref['hfv'] + eps * fl) or not close(s2.box.origin * fl, ref['fo'], ref['hfo'] + eps * fl):
        fails.append(Fail(key=tag + '-cell-vs-file', msg='loaded cell differs from the written bounds/tilts beyond the printed precision',
                          observed=[s2.box.origin * fl, s2.box.vects * fl], expected=[ref['fo'], ref['fv']]))
    # ... and the original cell (exact along periodic directions, containing it along extended ones)
    fails += C7.check_cell(s2.box.origin * fl, s2.box.vects * fl, ref['hfo'], ref['hfv'], rec, fl, tag, ref['exact'])
    if not np.array_equal(np.asarray(s2.pbc, bool), np.asarray(rec['pbc'], bool)):
        fails.append(Fail(key=tag + '-pbc', msg='pbc passed to the loader not kept'))
    if not np.array_equal(s2.atoms.atype, rec['atype']):
        fails.append(Fail(key=tag + '-atype', msg='atom types differ', observed=s2.atoms.atype, expected=rec['atype']))
    if not close(s2.atoms.pos, rec['pos'], ref['postol']):
        d = (s2.atoms.pos - rec['pos']) @ np.linalg.inv(rec['vects'])
        key = '-position-off-by-cell-vector' if np.abs(d).max() > 0.5 else '-position'
        fails.append(Fail(key=tag + key, msg='loaded positions (image flags applied) differ from the original positions',
                          observed=s2.atoms.pos, expected=rec['pos'], tol=ref['postol'].max()))
    fails += compare_props(s2, ref['want'], tag)
    return fails


def data_kwargs(rec, style, units):
    return dict(pbc=rec['pbc'], atom_style=style, units=units)


@chk.clause('data')
def data(case):
    C7.reset_units()
    sd = SYSDEFS[case['sys']]
    pbc = PBCS[case['pbc']]
    style, units, fmt = ATOM_STYLES[case['style']], UNITS[case['units']], FORMATS[case['fmt']]
    s, rec = C7.make_system(sd, pbc)
    if C7.refusal_expected(style, units, 'velocity' in rec['props']):
        chk.note('data-writer-refusal-no-unit')
        return []
    text = s.dump('atom_data', atom_style=style, units=units, float_format=fmt, return_info=False)
    st, ref = data_reference(text, rec, style, units)
    if st == 'skip':
        chk.note('data-unresolvable-format')
        return []
    if st == 'fail':
        return ref
    fails = []
    fm = Forms()
    try:
        for form in FORMS:
            try:
                s2 = am.load('atom_data', fm.give(text, form), **data_kwargs(rec, style, units))
            except Exception as e:
                fails.append(Fail(key='data-%s-exception-%s' % (form, type(e).__name__), msg='load of a written data file (%s) raised %s: %s' % (form, type(e).__name__, e)))
                continue
            fails += prefixed(judge_data(s2, ref, rec), '' if form == 'str' else form + ':')
            chk.note('data-loads')
            if ref['has_flags']:
                chk.note('data-loads-with-image-flags')
            elif ref['extended']:
                chk.note('data-loads-with-extended-box')
    finally:
        fm.close()
    return fails


# ---- text faults

def split_data(text):
    """line structure of a written data file (pure text; nothing from atomman)"""
    lines = text.split('\n')
    trailing = lines[-1] == ''
    if trailing:
        lines = lines[:-1]
    kw = {}
    for k, l in enumerate(lines):
        w = l.split('#')[0].split()
        if w in (['Atoms'], ['Velocities']):
            kw[w[0]] = k
    n = None
    for l in lines:
        w = l.split()
        if len(w) == 2 and w[1] == 'atoms':
            n = int(w[0])
    return lines, kw, n, trailing


def join(lines, trailing=True):
    return '\n'.join(lines) + ('\n' if trailing else '')


def permuted(text, aperm, vperm):
    lines, kw, n, tr = split_data(text)
    out = list(lines)
    a0 = kw['Atoms'] + 2
    for j, p in enumerate(aperm):
        out[a0 + j] = lines[a0 + p]
    if 'Velocities' in kw and vperm is not None:
        v0 = kw['Velocities'] + 2
        for j, p in enumerate(vperm):
            out[v0 + j] = lines[v0 + p]
    return join(out, tr)


def header_lines(lines, kw):
    """indices of the non-blank header lines (after the title line, before the Atoms keyword)"""
    return [k for k in range(1, kw['Atoms']) if lines[k].strip()]


def comment_variants(text):
    """(name, text, loader kwargs override) - every place where read_data allows a trailing comment / free text"""
    lines, kw, n, tr = split_data(text)
    out = []
    hdr = header_lines(lines, kw)
    for k in hdr:
        l2 = list(lines)
        l2[k] = lines[k] + ' # comment %d' % k
        out.append(('hdr-%s' % '-'.join(w for w in lines[k].split() if w.isalpha()), join(l2, tr), {}))
    l2 = [l + '   # c' if k in hdr else l for k, l in enumerate(lines)]
    out.append(('hdr-all', join(l2, tr), {}))
    for title in ('LAMMPS data file written by atomman (C08 title line)', '# title comment', '   '):
        out.append(('title', join([title] + lines[1:], tr), {}))
    l2 = list(lines)
    l2.insert(hdr[0], '# a line holding only a comment')
    out.append(('comment-only-line', join(l2, tr), {}))
    a0 = kw['Atoms'] + 2
    for j in range(n):
        l2 = list(lines)
        l2[a0 + j] = lines[a0 + j] + ' # atom %d' % j
        out.append(('atom-line', join(l2, tr), {}))
    l2 = list(lines)
    for j in range(n):
        l2[a0 + j] = lines[a0 + j] + '  #x'
    out.append(('atom-lines-all', join(l2, tr), {}))
    if 'Velocities' in kw:
        v0 = kw['Velocities'] + 2
        l2 = list(lines)
        l2[kw['Velocities']] = 'Velocities # comment'
        out.append(('velocities-keyword', join(l2, tr), {}))
        for j in range(n):
            l2 = list(lines)
            l2[v0 + j] = lines[v0 + j] + ' # vel %d' % j
            out.append(('velocity-line', join(l2, tr), {}))
    # the atom_style comment of the Atoms keyword line: absent (style given) / only source of the style
    l2 = list(lines)
    l2[kw['Atoms']] = 'Atoms'
    out.append(('no-style-hint', join(l2, tr), {}))
    out.append(('style-from-hint', text, {'atom_style': None}))
    return out


def blank_variants(text):
    lines, kw, n, tr = split_data(text)
    out = []
    spots = list(range(1, kw['Atoms'] + 1))          # before header line k / before the Atoms keyword
    if 'Velocities' in kw:
        spots.append(kw['Velocities'])
    spots.append(len(lines))                          # end of file
    for k in spots:
        for blank in ('', '   ', '\t'):
            l2 = list(lines)
            l2.insert(k, blank)
            out.append(('blank-at-%s' % ('eof' if k == len(lines) else 'atoms' if k == kw['Atoms'] else 'velocities' if k == kw.get('Velocities') else 'header'),
                        join(l2, tr), {}))
        l2 = list(lines)
        l2.insert(k, '')
        l2.insert(k, '')
        out.append(('blank2', join(l2, tr), {}))
    out.append(('no-final-newline', join(lines, False), {}))
    out.append(('trailing-spaces', join([l + '  ' if l.strip() else l for l in lines], tr), {}))
    return out


def missing_variants(text):
    lines, kw, n, tr = split_data(text)
    out = []
    for k in header_lines(lines, kw):
        w = lines[k].split()
        name = ' '.join(w[-2:]) if w[-1] != 'atoms' else 'atoms'
        if name in ('atoms', 'xlo xhi', 'ylo yhi', 'zlo zhi'):
            out.append((name.replace(' ', '-'), join(lines[:k] + lines[k + 1:], tr)))
    a = kw['Atoms']
    end = kw.get('Velocities', len(lines))
    out.append(('Atoms-keyword', join(lines[:a] + lines[a + 1:], tr)))
    out.append(('Atoms-section', join(lines[:a] + lines[end:], tr)))
    out.append(('Atoms-to-eof', join(lines[:a], tr)))
    return out


FAULT_PBCS = [0, 2, 5, 7] if not THOROUGH else list(range(8))     # TTT, TFT, FTF, FFF
FAULT_STYLES = ['atomic', 'full', 'hybrid charge sphere']
FAULT_UNITS = ['metal'] if not THOROUGH else ['metal', 'si']


def _fault_setup(case):
    C7.reset_units()
    sd = SYSDEFS[case['sys']]
    pbc = PBCS[case['pbc']]
    style, units = case['style'], case['units']
    s, rec = C7.make_system(sd, pbc)
    text = s.dump('atom_data', atom_style=style, units=units, float_format='%.13f' if units != 'si' else '%.10e', return_info=False)
    st, ref = data_reference(text, rec, style, units)
    return rec, text, st, ref, style, units


@chk.clause('data-perm')
def data_perm(case):
    """atom lines in permutation case['aperm'] x permutations of the velocity lines"""
    rec, text, st, ref, style, units = _fault_setup(case)
    if st != 'ok':
        return ref if st == 'fail' else []
    n = rec['n']
    aperm = list(itertools.permutations(range(n)))[case['aperm']]
    hasvel = 'velocity' in rec['props']
    allp = list(itertools.permutations(range(n)))
    vperms = allp if hasvel else [None]
    if hasvel and (n > 4 or (not THOROUGH and case['aperm'] != 0)):
        # quick tier: every velocity permutation with the atom lines in place, every atom permutation with the
        # velocity lines in place / permuted alike / permuted by the mirror-image permutation; thorough: full product
        vperms = [allp[0], aperm, allp[-1 - case['aperm']] if n <= 4 else allp[-1]]
    fails = []
    for vperm in vperms:
        t2 = permuted(text, aperm, vperm)
        ident = list(aperm) == sorted(aperm) and (vperm is None or list(vperm) == sorted(vperm))
        try:
            s2 = am.load('atom_data', t2, **data_kwargs(rec, style, units))
        except Exception as e:
            fails.append(Fail(key='perm-exception-%s' % type(e).__name__, msg='load with permuted atom/velocity lines raised: %s' % e, aperm=aperm, vperm=vperm))
            continue
        f = judge_data(s2, ref, rec, 'perm')
        for x in f:
            x['aperm'], x['vperm'] = aperm, vperm
        fails += f
        chk.note('data-perm-loads')
        if not ident:
            chk.note('data-perm-loads-nonidentity')
            if ref['has_flags']:
                chk.note('data-perm-loads-nonidentity-with-image-flags')
        if fails and len(fails) > 6:
            break
    return fails


@chk.clause('data-text')
def data_text(case):
    """comments / blank lines the format allows: same system"""
    rec, text, st, ref, style, units = _fault_setup(case)
    if st != 'ok':
        return ref if st == 'fail' else []
    variants = comment_variants(text) if case['kind'] == 'comment' else blank_variants(text)
    fails = []
    fm = Forms()
    try:
        for name, t2, kwo in variants:
            for form in case['forms']:
                kw = data_kwargs(rec, style, units)
                kw.update(kwo)
                try:
                    s2 = am.load('atom_data', fm.give(t2, form), **kw)
                except Exception as e:
                    fails.append(Fail(key='%s-%s-exception-%s' % (case['kind'], name, type(e).__name__),
                                      msg='load of a data file with an allowed %s (%s) raised: %s' % (case['kind'], name, e)))
                    continue
                fails += judge_data(s2, ref, rec, '%s-%s' % (case['kind'], name))
                chk.note('data-text-loads')
    finally:
        fm.close()
    return fails


@chk.clause('data-missing')
def data_missing(case):
    """each required element deleted in turn -> FileFormatError (never a System)"""
    rec, text, st, ref, style, units = _fault_setup(case)
    fails = []
    fm = Forms()
    try:
        for name, t2 in missing_variants(text):
            for form in case['forms']:
                for kw in (data_kwargs(rec, style, units), {}):
                    try:
                        s2 = am.load('atom_data', fm.give(t2, form), **kw)
                    except FileFormatError:
                        chk.note('data-missing-rejected')
                        continue
                    except Exception as e:
                        fails.append(Fail(key='missing-%s-wrong-exception-%s' % (name, type(e).__name__),
                                          msg='data file without %s: %s instead of FileFormatError: %s' % (name, type(e).__name__, e), form=form))
                        continue
                    fails.append(Fail(key='missing-%s-loaded' % name, msg='data file without %s was loaded (natoms=%s)' % (name, getattr(s2, 'natoms', None)), form=form))
    finally:
        fm.close()
    return fails


# ---------------------------------------------------------------------------------------------
# LAMMPS dump files

DUMP_VARIANTS = C7.DUMP_VARIANTS          # all, pos, spos, upos, supos, ownid
OWN_IDS = C7.OWN_IDS
POSCOLS = C7.POSCOLS


def dump_colmap(rec):
    colmap = dict(C7.DUMPCOL)
    for pname, a in rec['props'].items():
        a = np.asarray(a)
        if a.ndim == 1:
            colmap.setdefault(pname, (pname, None, None))
        else:
            for idx in itertools.product(*[range(k) for k in a.shape[1:]]):
                colmap.setdefault(pname + ''.join('[%d]' % i for i in idx), (pname, idx if len(idx) > 1 else idx[0], None))
    return colmap


def dump_reference(text, rec, units, ids):
    fl = U.factor(units, 'length')
    n = rec['n']
    try:
        d = P.parse_dump(text)
    except P.FormatError as e:
        return 'fail', [Fail(key='dump-writer-malformed', msg='independent dump parser rejects the written file (C07 matter): %s' % e)]
    hb = np.array([[x.hu for x in r] for r in d['bounds']])
    if (np.diag(rec['vects']) * fl).min() < 200 * hb.max():
        return 'skip', None
    fo, fv, hfo, hfv = P.dump_cell(d)
    if np.any(np.diag(fv) <= 0):
        return 'skip', None
    cols = d['columns']
    fids = [P.as_int(r[cols.index('id')], 'id') for r in d['rows']]
    if sorted(fids) != sorted(ids):
        return 'fail', [Fail(key='dump-writer-ids', msg='written ids are not the system\'s (C07 matter)')]
    order = np.argsort(ids)                              # loader: atoms in id order
    row = [fids.index(ids[j]) for j in order]           # file row of the j-th atom of the expectation
    eps = 1e-12 * (np.abs(rec['vects']).max() + np.abs(rec['origin']).max() + np.abs(rec['pos']).max())
    ref = dict(fl=fl, fo=fo, fv=fv, hfo=hfo, hfv=hfv, eps=eps, order=order, scaled=False)
    tok = {c: [P.Num(d['rows'][r][j]) if c not in P.INT_COLUMNS else None for r in row] for j, c in enumerate(cols)}
    # the first position-type column set is the one the loader turns into pos
    first = None
    for c in cols:
        for pname, names in POSCOLS.items():
            if c == names.split()[0] and first is None:
                first = pname
    names = POSCOLS[first].split()
    hv = np.array([[tok[c][j].hu for c in names] for j in range(n)])
    if first in ('spos', 'supos'):
        val = np.array([[float(tok[c][j]) for c in names] for j in range(n)])
        ref['postol'] = (hfo + hv @ np.abs(fv) + np.abs(val) @ hfv) / fl + eps
        ref['scaled'] = True
    else:
        ref['postol'] = hv / fl + eps
    colmap = dump_colmap(rec)
    poscolnames = set(' '.join(POSCOLS.values()).split()) | {'id', 'type'}
    comp_tol = {}
    for c in cols:
        if c in poscolnames:
            continue
        pname, comp, q = colmap[c]
        f = U.factor(units, q)
        w = np.asarray(rec['props'][pname])
        if w.dtype.kind in 'iu':
            hu = np.zeros(n)
        else:
            hu = np.array([P.Num(d['rows'][r][cols.index(c)]).hu for r in row]) / f
        comp_tol.setdefault(pname, {})[comp] = hu
    want = {}
    for pname, comps in comp_tol.items():
        w = np.asarray(rec['props'][pname])[order]
        tol = np.zeros(w.shape)
        for comp, hu in comps.items():
            if comp is None:
                tol = hu
            else:
                tol[(slice(None),) + (comp if isinstance(comp, tuple) else (comp,))] = hu
        want[pname] = (w, tol + 1e-12 * np.abs(w))
    ref['want'] = want
    return 'ok', ref


def judge_dump(s2, ref, rec, tag='dump'):
    fails = []
    n = rec['n']
    if s2.natoms != n:
        return [Fail(key=tag + '-natoms', msg='loaded %d atoms, original has %d' % (s2.natoms, n))]
    fl, eps, order = ref['fl'], ref['eps'], ref['order']
    if not close(s2.box.vects * fl, rec['vects'] * fl, ref['hfv'] + eps * fl) or not close(s2.box.origin * fl, rec['origin'] * fl, ref['hfo'] + eps * fl):
        fails.append(Fail(key=tag + '-cell', msg='loaded cell differs from the original beyond the printed precision',
                          observed=[s2.box.origin, s2.box.vects], expected=[rec['origin'], rec['vects']]))
    if not np.array_equal(np.asarray(s2.pbc, bool), np.asarray(rec['pbc'], bool)):
        fails.append(Fail(key=tag + '-pbc', msg='loaded pbc %s, original %s' % (list(s2.pbc), rec['pbc'])))
    if not np.array_equal(s2.atoms.atype, rec['atype'][order]):
        fails.append(Fail(key=tag + '-atype', msg='atom types differ', observed=s2.atoms.atype, expected=rec['atype'][order]))
    if not close(s2.atoms.pos, rec['pos'][order], ref['postol']):
        fails.append(Fail(key=tag + '-position' + ('-scaled' if ref['scaled'] else ''), msg='loaded positions differ from the original positions',
                          observed=s2.atoms.pos, expected=rec['pos'][order], tol=ref['postol'].max()))
    fails += compare_props(s2, ref['want'], tag)
    return fails


def _dump_setup(case):
    C7.reset_units()
    sd = SYSDEFS[case['sys']]
    pbc = PBCS[case['pbc']]
    units, fmt, var = UNITS[case['units']], FORMATS[case['fmt']], DUMP_VARIANTS[case['var']]
    s, rec = C7.make_system(sd, pbc, own_id=OWN_IDS if var == 'ownid' else None)
    kw = {}
    if var in POSCOLS:
        names = ['atom_id', 'atype', var]
        for extra in ('velocity', 'charge'):
            if extra in rec['props']:
                names.append(extra)
        kw['prop_name'] = names
    text, pinfo = s.dump('atom_dump', lammps_units=units, float_format=fmt, return_prop_info=True, **kw)
    ids = [int(x) for x in rec['props'].pop('atom_id')] if var == 'ownid' else list(range(1, rec['n'] + 1))
    if var in POSCOLS:
        rec['props'] = {k: v for k, v in rec['props'].items() if k in ('velocity', 'charge')}
    st, ref = dump_reference(text, rec, units, ids)
    return rec, text, pinfo, st, ref, units, var, ids


@chk.clause('dump')
def dump(case):
    rec, text, pinfo, st, ref, units, var, ids = _dump_setup(case)
    if st == 'skip':
        chk.note('dump-unresolvable-format')
        return []
    if st == 'fail':
        return ref
    fails = []
    modes = ['info'] + (['auto'] if var in POSCOLS else [])
    fm = Forms()
    try:
        for mode in modes:
            for form in FORMS:
                kw = dict(lammps_units=units)
                if mode == 'info':
                    kw['prop_info'] = pinfo
                try:
                    s2 = am.load('atom_dump', fm.give(text, form), **kw)
                except Exception as e:
                    fails.append(Fail(key='dump-%s-%s-exception-%s' % (mode, form, type(e).__name__),
                                      msg='load of a written dump file (%s, prop_info %s) raised %s: %s' % (form, mode, type(e).__name__, e)))
                    continue
                pre = ('' if form == 'str' else form + ':') + ('' if mode == 'info' else 'auto:')
                fails += prefixed(judge_dump(s2, ref, rec), pre)
                if 'atom_id' in s2.atoms_prop() and not np.array_equal(s2.atoms.view['atom_id'], sorted(ids)):
                    fails.append(Fail(key=pre + 'dump-atom-id', msg='loaded atom_id is not the id column in ascending order'))
                chk.note('dump-loads')
                if ref['scaled']:
                    chk.note('dump-loads-with-scaled-columns')
                elif var == 'ownid':
                    chk.note('dump-loads-reordered-by-id')
    finally:
        fm.close()
    return fails


@chk.clause('dump-perm')
def dump_perm(case):
    """every permutation of the atom lines of a dump file"""
    rec, text, pinfo, st, ref, units, var, ids = _dump_setup(case)
    if st != 'ok':
        return ref if st == 'fail' else []
    lines = text.split('\n')
    k0 = [k for k, l in enumerate(lines) if l.startswith('ITEM: ATOMS')][0] + 1
    n = rec['n']
    fails = []
    perms = list(itertools.permutations(range(n)))
    if n > 4:
        perms = [p for p in perms if p[4:] == tuple(range(4, n))] + [perms[-1]]
    for perm in perms:
        l2 = list(lines)
        for j, p in enumerate(perm):
            l2[k0 + j] = lines[k0 + p]
        for mode in ['info'] + (['auto'] if var in POSCOLS else []):
            kw = dict(lammps_units=units)
            if mode == 'info':
                kw['prop_info'] = pinfo
            try:
                s2 = am.load('atom_dump', '\n'.join(l2), **kw)
            except Exception as e:
                fails.append(Fail(key='dump-perm-exception-%s' % type(e).__name__, msg='load with permuted atom lines raised: %s' % e, perm=perm))
                continue
            f = judge_dump(s2, ref, rec, 'dump-perm')
            for x in f:
                x['perm'] = perm
            fails += f
            chk.note('dump-perm-loads')
            if list(perm) != sorted(perm):
                chk.note('dump-perm-loads-nonidentity')
        if len(fails) > 6:
            break
    return fails


# ---------------------------------------------------------------------------------------------
# generic table

TABLE_VARIANTS = C7.TABLE_VARIANTS        # default, named, scaled


@chk.clause('table')
def table(case):
    C7.reset_units()
    sd = SYSDEFS[case['sys']]
    fmt, var, header = FORMATS[case['fmt']], TABLE_VARIANTS[case['var']], bool(case['header'])
    s, rec = C7.make_system(sd, PBCS[case['pbc']])
    n = rec['n']
    if var == 'default':
        names = ['atype', 'pos'] + list(rec['props'])
        units = [None] * len(names)
        text, pinfo = s.dump('table', header=header, float_format=fmt, return_prop_info=True)
    else:
        names = ['atype', 'pos']
        units = [None, 'nm' if var == 'named' else 'scaled']
        if 'velocity' in rec['props']:
            names.append('velocity')
            units.append('m/s')
        if 'stress' in rec['props']:
            names += ['stress', 'charge', 'tag']
            units += ['GPa', 'C', None]
        text, pinfo = s.dump('table', prop_name=list(names), unit=list(units), header=header, float_format=fmt, return_prop_info=True)
    lines = text.split('\n')
    if lines[-1] == '':
        lines = lines[:-1]
    if header:
        lines = lines[1:]
    if len(lines) != n:
        return [Fail(key='table-writer-lines', msg='%d lines for %d atoms (C07 matter)' % (len(lines), n))]
    # tolerances from the tokens, in the column order requested from the writer
    toks = [l.split(' ') for l in lines]
    want = {}
    postol = None
    c = 0
    eps = 1e-12 * (np.abs(rec['vects']).max() + np.abs(rec['origin']).max() + np.abs(rec['pos']).max())
    try:
        for nm, un in zip(names, units):
            w = np.asarray(rec['atype'] if nm == 'atype' else (rec['pos'] if nm == 'pos' else rec['props'][nm]))
            k = int(np.prod(w.shape[1:]))
            if w.dtype.kind in 'iu':
                hu = np.zeros((n, k))
            else:
                hu = np.array([[P.Num(toks[r][c + j]).hu for j in range(k)] for r in range(n)])
            c += k
            if un == 'scaled':
                tol = hu @ np.abs(rec['vects']) + eps
            elif un is not None:
                tol = hu / U.named_factor(un)
            else:
                tol = hu
            tol = tol.reshape(w.shape) + 1e-12 * np.abs(w)
            if nm == 'pos':
                postol = tol + eps
            elif nm != 'atype':
                want[nm] = (w, tol)
    except (P.FormatError, IndexError) as e:
        return [Fail(key='table-writer-token', msg='written table has a malformed token (C07 matter): %s' % e)]
    fails = []
    fm = Forms()
    try:
        for form in FORMS:
            box = am.Box(vects=rec['vects'].copy(), origin=rec['origin'].copy())
            kw = dict(box=box, prop_info=pinfo)
            if header:
                kw['header'] = 0
            try:
                s2 = am.load('table', fm.give(text, form), **kw)
            except Exception as e:
                fails.append(Fail(key='table-%s-exception-%s' % (form, type(e).__name__), msg='load of a written table (%s) raised %s: %s' % (form, type(e).__name__, e)))
                continue
            pre = '' if form == 'str' else form + ':'
            if s2.natoms != n:
                fails.append(Fail(key=pre + 'table-natoms', msg='loaded %d atoms, original %d' % (s2.natoms, n)))
                continue
            if not (np.array_equal(s2.box.vects, rec['vects']) and np.array_equal(s2.box.origin, rec['origin'])):
                fails.append(Fail(key=pre + 'table-box', msg='the box handed to the loader is not the box of the loaded system'))
            if not np.array_equal(s2.atoms.atype, rec['atype']):
                fails.append(Fail(key=pre + 'table-atype', msg='atom types differ'))
            if not close(s2.atoms.pos, rec['pos'], postol):
                fails.append(Fail(key=pre + 'table-position-%s' % var, msg='loaded positions differ from the original (pos written with unit %s, prop_info as returned by the writer)' % units[1],
                                  observed=s2.atoms.pos, expected=rec['pos']))
            fails += prefixed(compare_props(s2, want, 'table'), pre)
            chk.note('table-loads')
            if var == 'scaled':
                chk.note('table-loads-with-scaled-columns')
    finally:
        fm.close()
    return fails


# ---------------------------------------------------------------------------------------------
# POSCAR

POSCAR_STYLES = C7.POSCAR_STYLES
POSCAR_SCALES = C7.POSCAR_SCALES
POSCAR_SYMS = C7.POSCAR_SYMS
POSCAR_FORMATS = C7.POSCAR_FORMATS
POSCAR_HEADERS = ['c08 header line', '', '# 3 atoms'] + (['12 4', 'Direct'] if THOROUGH else [])


def match_multiset(got, want, tol):
    """is there a bijection rows(got) -> rows(want) within tol?  (<= 6 rows)"""
    n = len(got)
    for perm in itertools.permutations(range(n)):
        if all(np.all(np.abs(got[j] - want[p]) <= tol[p]) for j, p in enumerate(perm)):
            return True
    return False


@chk.clause('poscar')
def poscar(case):
    C7.reset_units()
    sd = dict(SYSDEFS[case['sys']])
    cstyle, bscale = POSCAR_STYLES[case['style']], POSCAR_SCALES[case['scale']]
    symmode, fmt, header = POSCAR_SYMS[case['sym']], POSCAR_FORMATS[case['fmt']], POSCAR_HEADERS[case['header']]
    cart = cstyle[0] in 'cCkK'
    if cart and np.any(np.array(sd['origin']) != 0):
        chk.note('poscar-skipped-cartesian-with-origin')
        return []
    kw = {}
    if symmode == 'none':
        sd['symbols'] = None
    s, rec = C7.make_system(sd, PBCS[0])
    if symmode == 'explicit':
        kw['symbols'] = tuple('XYZWVU'[:rec['natypes']])
    want_symbols = kw.get('symbols', rec['symbols'])
    text = s.dump('poscar', header=header, coordstyle=cstyle, box_scale=bscale, float_format=fmt, **kw)
    try:
        d = P.parse_poscar(text)
    except P.FormatError as e:
        return [Fail(key='poscar-writer-malformed', msg='independent POSCAR parser rejects the written file (C07 matter): %s' % e)]
    n = rec['n']
    if sum(d['counts']) != n:
        return [Fail(key='poscar-writer-counts', msg='written counts do not sum to natoms (C07 matter)')]
    eps = 1e-12 * np.abs(rec['vects']).max()
    types = [a for a in range(1, rec['natypes'] + 1)]
    if cart:
        wantpos = rec['pos']                         # origin is 0 here
        # tolerance per printed coordinate c: |s|*hu(c) + hu(s)*|c|
        tolrows = d['hcart'] + eps
    else:
        wantpos = rec['rel'] @ rec['vects']          # the loader has no origin to restore
        tolrows = d['hfrac'] @ np.abs(rec['vects']) + np.abs(d['frac']) @ d['hvects'] + eps
    # rows of the file are grouped by type in ascending type order
    file_type = np.concatenate([np.full(c, a + 1) for a, c in enumerate(d['counts'])]).astype(int)
    fails = []
    fm = Forms()
    try:
        for form in FORMS:
            try:
                s2 = am.load('poscar', fm.give(text, form))
            except Exception as e:
                fails.append(Fail(key='poscar-%s-exception-%s' % (form, type(e).__name__), msg='load of a written POSCAR (%s) raised %s: %s' % (form, type(e).__name__, e)))
                continue
            pre = '' if form == 'str' else form + ':'
            if s2.natoms != n:
                fails.append(Fail(key=pre + 'poscar-natoms', msg='loaded %d atoms, original %d' % (s2.natoms, n)))
                continue
            if not close(s2.box.vects, rec['vects'], d['hvects'] + eps):
                fails.append(Fail(key=pre + 'poscar-cell', msg='loaded box vectors differ from the original', observed=s2.box.vects, expected=rec['vects']))
            if not np.array_equal(np.sort(s2.atoms.atype), np.sort(rec['atype'])):
                fails.append(Fail(key=pre + 'poscar-atype', msg='atom types (as a multiset) differ', observed=s2.atoms.atype, expected=np.sort(rec['atype'])))
                continue
            for a in types:
                got = s2.atoms.pos[s2.atoms.atype == a]
                w = wantpos[rec['atype'] == a]
                t = np.max(tolrows[file_type == a], axis=0) if np.any(file_type == a) else None
                if len(got) and not match_multiset(got, w, [t] * len(w)):
                    key = 'poscar-position-cartesian-scale' if (cart and bscale != 1) else ('poscar-position-cartesian' if cart else 'poscar-position-direct')
                    fails.append(Fail(key=pre + key, msg='positions of the atoms of type %d differ from the original (coordstyle %s, box_scale %s)' % (a, cstyle, bscale),
                                      observed=got, expected=w))
                    break
            if want_symbols is not None:
                if tuple(s2.symbols) != tuple(want_symbols):
                    fails.append(Fail(key=pre + 'poscar-symbols', msg='loaded symbols %s, written %s' % (s2.symbols, want_symbols)))
            else:
                if any(x is not None for x in s2.symbols) or len(s2.symbols) < max(rec['atype']):
                    fails.append(Fail(key=pre + 'poscar-symbols-none', msg='no symbols written, loaded %s' % (s2.symbols,)))
            chk.note('poscar-loads')
            if bscale != 1:
                chk.note('poscar-loads-with-scale')
    finally:
        fm.close()
    return fails


# ---------------------------------------------------------------------------------------------


# --------------------------------------------------------------------------
# configurations: the same physical system dumped and loaded under a SEQUENCE of working-unit choices inside one
# process (default -> nm/kg/ns/C -> default -> cm/g/s/C).  Whatever was dumped before, load(dump(system)) must return
# the system: positions, velocities and charge are compared as physical quantities (angstrom, angstrom/ps, e).

UNIT_SEQ = [dict(length='angstrom', mass='amu', energy='eV', charge='e'), dict(length='nm', mass='kg', time='ns', charge='C'),
            dict(length='angstrom', mass='amu', energy='eV', charge='e'), dict(length='cm', mass='g', time='s', charge='C')]
SEQ_FORMATS = [('atom_data', dict(atom_style='charge', units='metal')), ('atom_data', dict(atom_style='charge', units='real')),
               ('atom_dump', dict(lammps_units='metal')), ('table', None)]


@chk.clause('unit-sequence')
def unit_sequence(case):
    import atomman.unitconvert as uc
    fmt, kw = SEQ_FORMATS[case['fmt']]
    order = UNIT_SEQ[case['start']:] + UNIT_SEQ[:case['start']]
    fails = []
    vects_A = np.array([[4.0, 0, 0], [1.1, 5.0, 0], [-0.7, 0.9, 6.0]])
    rel = np.array([[0.31, 0.47, 0.62], [0.05, 0.93, 0.5], [0.98, 0.02, 0.97]])
    pos_A = rel @ vects_A
    vel = np.array([[0.5, -1.0, 2.0], [1.5, 0.25, -0.75], [-2.0, 1.0, 0.5]])      # angstrom/ps
    q = np.array([0.5, -1.0, 0.25])                                                 # e
    try:
        for step, cfg in enumerate(order):
            uc.reset_units(**cfg)
            L, V, Q = uc.set_in_units(1.0, 'angstrom'), uc.set_in_units(1.0, 'angstrom/ps'), uc.set_in_units(1.0, 'e')
            s0 = am.System(atoms=am.Atoms(atype=[1, 2, 1], pos=pos_A * L, velocity=vel * V, charge=q * Q),
                           box=am.Box(vects=vects_A * L), symbols=('Al', 'Ni'))
            if fmt == 'table':
                text, pi = s0.dump('table', prop_name=['atype', 'pos', 'velocity', 'charge'], table_name=['type', ['x', 'y', 'z'], ['vx', 'vy', 'vz'], 'q'],
                                   unit=[None, 'angstrom', 'angstrom/ps', 'e'], float_format='%.13e', return_prop_info=True)
                s1 = am.load('table', text, box=s0.box, symbols=('Al', 'Ni'), prop_info=pi)
            elif fmt == 'atom_data':
                text = s0.dump('atom_data', float_format='%.13e', return_info=False, **kw)
                s1 = am.load('atom_data', text, symbols=('Al', 'Ni'), **kw)
            else:
                text = s0.dump('atom_dump', float_format='%.13e', **kw)
                s1 = am.load('atom_dump', text, symbols=('Al', 'Ni'), **kw)
            chk.note('unit-sequence-loads')
            tag = 'step%d-%s' % (step, cfg['length'])
            got = {'cell': np.array(s1.box.vects) / L, 'pos': np.array(s1.atoms.pos) / L, 'velocity': np.array(s1.atoms.velocity) / V,
                   'charge': np.array(s1.atoms.charge) / Q}
            exp = {'cell': vects_A, 'pos': pos_A, 'velocity': vel, 'charge': q}
            for name in exp:
                if np.shape(got[name]) != exp[name].shape or np.abs(got[name] - exp[name]).max() > 1e-9 * np.abs(exp[name]).max():
                    fails.append(Fail(key='unit-sequence-%s-%s' % (fmt, name),
                                      msg='%s (%s) dumped and loaded under working units %s as step %d of the sequence %s: %s comes back as %s, expected %s (physical units)'
                                      % (fmt, kw, cfg, step, [c['length'] for c in order], name, np.asarray(got[name]).tolist(), exp[name].tolist())))
            if fails:
                return fails
    finally:
        C7.reset_units()
    return fails

def gen():
    for si, sd in enumerate(SYSDEFS):
        styles = C7.styles_for(sd)
        n = len(sd['rel'])
        nperm = len(list(itertools.permutations(range(n))))
        for pi in range(len(PBCS)):
            for st in styles:
                for ui in range(len(UNITS)):
                    for fi in range(len(FORMATS)):
                        yield 'data', {'sys': si, 'pbc': pi, 'style': ATOM_STYLES.index(st), 'units': ui, 'fmt': fi}
            for ui in range(len(UNITS)):
                for fi in range(len(FORMATS)):
                    for vi in range(len(DUMP_VARIANTS)):
                        yield 'dump', {'sys': si, 'pbc': pi, 'units': ui, 'fmt': fi, 'var': vi}
        for pi in FAULT_PBCS:
            for st in [x for x in FAULT_STYLES if x in styles]:
                for ai in (range(nperm) if n <= 4 else list(range(24)) + [nperm - 1]):
                    yield 'data-perm', {'sys': si, 'pbc': pi, 'style': st, 'units': 'metal', 'aperm': ai}
                for un in FAULT_UNITS:
                    for kind in ('comment', 'blank'):
                        yield 'data-text', {'sys': si, 'pbc': pi, 'style': st, 'units': un, 'kind': kind, 'forms': FORMS}
                    yield 'data-missing', {'sys': si, 'pbc': pi, 'style': st, 'units': un, 'forms': FORMS}
        for pi in (0, 7):
            for vi in range(len(DUMP_VARIANTS)):
                yield 'dump-perm', {'sys': si, 'pbc': pi, 'units': 0, 'fmt': 0, 'var': vi}
        for pi in (0,):
            for fi in range(len(FORMATS)):
                for vi in range(len(TABLE_VARIANTS)):
                    for h in (0, 1):
                        yield 'table', {'sys': si, 'pbc': pi, 'fmt': fi, 'var': vi, 'header': h}
        for ci in range(len(POSCAR_STYLES)):
            for bi in range(len(POSCAR_SCALES)):
                for yi in range(len(POSCAR_SYMS)):
                    for fi in range(len(POSCAR_FORMATS)):
                        for hi in range(len(POSCAR_HEADERS)):
                            yield 'poscar', {'sys': si, 'style': ci, 'scale': bi, 'sym': yi, 'fmt': fi, 'header': hi}


def gen_all():
    yield from gen()
    for f in range(len(SEQ_FORMATS)):
        for st in range(len(UNIT_SEQ)):
            yield 'unit-sequence', {'fmt': f, 'start': st}


if __name__ == '__main__':
    chk.run_cases(gen_all(), batch=8)
    N = chk.notes
    ev = sum(N.get(k, 0) for k in ('data-loads', 'data-perm-loads', 'data-text-loads', 'data-missing-rejected', 'dump-loads',
                                   'dump-perm-loads', 'table-loads', 'poscar-loads', 'unit-sequence-loads'))
    nt = sum(N.get(k, 0) for k in ('data-loads-with-image-flags', 'data-loads-with-extended-box', 'data-perm-loads-nonidentity',
                                   'data-text-loads', 'data-missing-rejected', 'dump-loads-with-scaled-columns',
                                   'dump-loads-reordered-by-id', 'dump-perm-loads-nonidentity', 'table-loads-with-scaled-columns',
                                   'poscar-loads-with-scale'))
    sys.exit(chk.finish({'evaluations': ev, 'distinct_nontrivial': nt, 'cases': sum(chk.counts.values())}))
