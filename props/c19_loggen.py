"""C19 helper - an independent synthesiser of LAMMPS log/screen output and its reference model.

Nothing here imports atomman or pandas.  A log is produced as a list of tagged
lines so that the check can cut it at every line boundary of the last block
(and inside its last row).  The reference model of a log is

    {'version': str, 'date': (y, m, d), 'tables': [{'cols': [...], 'rows': [[token, ...], ...]}, ...]}

where the tokens are exactly the printed strings.

Layout facts used (LAMMPS src/finish.cpp, thermo.cpp, min.cpp; two generations):
  old  (<= 2016): 'Memory usage per processor = X Mbytes', thermo header 'Step Temp ... ' and rows '%8d %12.8g ... '
  new  (>= 2016): 'Per MPI rank memory allocation (min/avg/max) = a | b | c Mbytes', (2022+) aligned header/rows
  after the table: 'Loop time of ...', optional 'Performance:' / '% CPU use' lines, 'Minimization stats:' for minimize,
  the timing breakdown ('MPI task timing breakdown:' table, or the pre-2015 'Pair  time (%) = ...' lines, or nothing
  with `timer off`), the 'Nlocal:' histograms and neighbour statistics.
"""

MONTH = ['Jan', 'Feb', 'Mar', 'Apr', 'May', 'Jun', 'Jul', 'Aug', 'Sep', 'Oct', 'Nov', 'Dec']

# (version string inside the parentheses, date)
VERSIONS_OLD = [('1 Feb 2014', (2014, 2, 1)), ('30 Jul 2016', (2016, 7, 30)), ('15 May 2015', (2015, 5, 15))]
VERSIONS_NEW = [('29 Oct 2020', (2020, 10, 29)), ('2 Aug 2023 - Update 1', (2023, 8, 2)),
                ('7 Aug 2019', (2019, 8, 7)), ('3 Mar 2020', (2020, 3, 3)),
                ('22 Dec 2022 - Development - patch_22Dec2022-184-g4bc1ae5f5d', (2022, 12, 22)),
                ('23 Jun 2022 - Update 4', (2022, 6, 23)), ('17 Nov 2016', (2016, 11, 17)),
                ('29 Sep 2021 - Update 3', (2021, 9, 29))]

# thermo keyword sets: (name, kind)   kind 'i' integer column, 'f' float column, 'L' large value that is fractional in even and integral in odd blocks
KEYSETS = [
    [('Step', 'i'), ('Temp', 'f'), ('E_pair', 'f'), ('E_mol', 'z'), ('TotEng', 'f'), ('Press', 'f')],
    [('Step', 'i'), ('Atoms', 'i'), ('PotEng', 'f'), ('Lx', 'f'), ('Pxx', 'f'), ('v_strain', 'e'), ('c_msd[4]', 'f'), ('Volume', 'L')],
    [('Step', 'i'), ('Time', 'f'), ('CPU', 'e'), ('KinEng', 'f'), ('Volume', 'g'), ('f_1', 'f'), ('Dihed', 'i'),
     ('v_n', 'i'), ('Pzz', 'f')],
]

# float value families  value = a + b*step + c*(block+1)*(step % 7 + 1)
_FAM = {'f': [(-13419.839, 1.37, 0.011), (300.0, -0.25, 0.5), (1.01325, 0.0005, 0.0003), (-0.5, 0.01, 0.002),
              (40.5, 0.0, 0.125), (2.5, 0.75, 1.0)],
        'e': [(1.2345678e-05, 3.1e-07, 1.0e-09), (-2.5e-11, 1.0e-12, 1.0e-13)],
        'g': [(1.5e+08, 12345.0, 3.0), (6.4e+10, 1.0e7, 11.0)]}


def _value(kind, j, step, block, salt):
    if kind == 'z':
        return 0.0
    if kind == 'L':
        # a large quantity that fluctuates in one run (NPT volume 1000128.8 ...) and is constant-integral in the next
        # (NVT: printed '1000010'): the later run's column is integer-typed, the earlier one's values are not integral
        # although their fractional part is below 1e-5 relative
        return 1000123.75 + 0.5 * step if block % 2 == 0 else float(1000000 + step)
    fam = _FAM[kind]
    a, b, c = fam[(j + salt) % len(fam)]
    return a + b * step + c * (block + 1 + salt) * (step % 7 + 1)


def _ivalue(j, step, block, salt):
    # integer columns other than Step: atoms count (constant), counters
    return [4000, 3998 - block, 17 * (block + 1) + step // 10, -(step % 4)][(j + salt) % 4]


def shape_space(thorough=False):
    """all generator shapes (dicts of small values)"""
    out = []
    for banner in ('new', 'old'):
        for nblocks in (1, 2, 3):
            for keymode in (0, 1, 2, 3):           # 3 = a different keyword set in every block
                for relation in (('none',) if nblocks == 1 else ('boundary', 'disjoint', 'overlap')):
                    for timing in (('new', 'none') if banner == 'new' else ('new', 'none', 'old')):
                        for filler in ('plain', 'rich'):
                            out.append(dict(banner=banner, nblocks=nblocks, keymode=keymode, relation=relation,
                                            timing=timing, filler=filler))
    return out


def build(shape, nrows=3, salt=0, style=None, start=0):
    """-> (lines, model)   lines = [(text_without_newline, tag, block)], tag in
    pre / banner / header / row / loop / post / end;  model as in the module docstring.
    `start` is the timestep at which the first block begins (a log continuing an earlier one)."""
    banner, nblocks, keymode = shape['banner'], shape['nblocks'], shape['keymode']
    relation, timing, filler = shape['relation'], shape['timing'], shape['filler']
    if style is None:
        # printed style of header and rows: old -> '%8d %12.8g ', new -> aligned columns with leading blanks
        style = 'old' if (banner == 'old' or keymode % 2 == 0) else 'new'
    if banner == 'old':
        vers = {'old': VERSIONS_OLD[0], 'new': VERSIONS_OLD[1], 'none': VERSIONS_OLD[2]}[timing]
    else:
        vers = VERSIONS_NEW[(salt + nblocks + 3 * keymode + (4 if timing == 'new' else 0) + (1 if filler == 'rich' else 0))
                            % len(VERSIONS_NEW)]
    lines = []
    add = lambda t, tag, b=-1: lines.append((t, tag, b))
    add('LAMMPS (%s)' % vers[0], 'pre')
    if banner == 'new':
        add('  using 1 OpenMP thread(s) per MPI task', 'pre')
    for t in ('units metal', 'atom_style atomic', 'boundary p p p', 'read_data atom.dat'):
        add(t, 'pre')
    if banner == 'new':
        add('Reading data file ...', 'pre')
    add('  orthogonal box = (0 0 0) to (40.5 40.5 40.5)', 'pre')
    add('  1 by 1 by 1 MPI processor grid', 'pre')
    add('  reading atoms ...', 'pre')
    add('  4000 atoms', 'pre')
    if filler == 'rich':
        add('', 'pre')
        add('# potential: a comment with "two words" quoted', 'pre')
        add('pair_style eam/alloy', 'pre')
        add("pair_coeff * * Al.eam.alloy Al  # it's echoed as is", 'pre')
        add('   ', 'pre')
        add('variable s string "a b c d e f g h i j k l"', 'pre')
        add('print "Step Temp are not a header here"', 'pre')
        add('Step Temp are not a header here', 'pre')
        add('\t', 'pre')
    tables = []
    stride = 10
    for b in range(nblocks):
        ks = KEYSETS[(keymode + b) % 3] if keymode == 3 else KEYSETS[keymode]
        minimize = (keymode in (0, 3)) and (b % 2 == 0)
        n = nrows + (b % 2)
        if b > 0:
            prev_last, prev_steps = steps[-1], steps
            if relation == 'boundary':
                start = prev_last
            elif relation == 'disjoint':
                start = prev_last + 5 * stride
            else:
                start = prev_last
        steps = [start + stride * k for k in range(n)]
        if minimize and n > 1:
            steps[-1] -= 3          # a minimisation converges off the thermo grid
        if b > 0 and relation == 'overlap':
            # overlapping tail: restarted from the checkpoint of the second-last thermo step of the previous
            # run; the two repeated steps are printed again (same thermo grid inside the overlap), then it goes on
            steps = prev_steps[-2:] + steps[1:]
        # ---- commands echoed before the block
        if filler == 'rich' and b > 0:
            add('', 'pre', b)
            add('thermo_style custom ' + ' '.join(k.lower() for k, _ in ks), 'pre', b)
            add('WARNING: New thermo_style command, previous thermo_modify settings will be lost (../output.cpp:705)',
                'pre', b)
            add('  ', 'pre', b)
        add('thermo %d' % stride, 'pre', b)
        if minimize:
            add('minimize 0.0 1e-8 1000 10000', 'pre', b)
        else:
            add('run %d' % (steps[-1] - steps[0]), 'pre', b)
        if banner == 'new':
            add('Neighbor list info ...', 'pre', b)
            add('  update every 1 steps, delay 10 steps, check yes', 'pre', b)
            add('  max neighbors/atom: 2000, page size: 100000', 'pre', b)
            add('  master list distance cutoff = 8.28721', 'pre', b)
            add('  binsize = 4.143605, bins = 10 10 10', 'pre', b)
        if minimize:
            add('Setting up cg style minimization ...', 'pre', b)
            add('  Unit style    : metal', 'pre', b)
            add('  Current step  : %d' % steps[0], 'pre', b)
        if banner == 'new':
            add('Per MPI rank memory allocation (min/avg/max) = 4.321 | 4.321 | 4.321 Mbytes', 'banner', b)
        else:
            add('Memory usage per processor = 2.76913 Mbytes', 'banner', b)
        # ---- header and rows
        if style == 'old':
            add(' '.join(k for k, _ in ks) + ' ', 'header', b)
        else:
            add(''.join(('%10s' % k if kind == 'i' else ' %-14s' % ('  ' + k)) for k, kind in ks), 'header', b)
        rows = []
        for s in steps:
            toks = []
            for j, (k, kind) in enumerate(ks):
                if j == 0:
                    toks.append('%d' % s)
                elif kind == 'i':
                    toks.append('%d' % _ivalue(j, s, b, salt))
                elif minimize and k == 'Temp':
                    toks.append('0')        # a minimisation prints temperature 0 in every row
                else:
                    toks.append('%.8g' % _value(kind, j, s, b, salt))
            rows.append(toks)
            if style == 'old':
                text = ' '.join(('%8s' % t if kind == 'i' else '%12s' % t) for t, (k, kind) in zip(toks, ks)) + ' '
            else:
                text = ''.join(('%10s' % t if kind == 'i' else ' %-14s' % t) for t, (k, kind) in zip(toks, ks)).rstrip()
            add(text, 'row', b)
        tables.append({'cols': [k for k, _ in ks], 'rows': rows})
        # ---- after the table
        add('Loop time of 0.%d on 1 procs for %d steps with 4000 atoms' % (417 + b, steps[-1] - steps[0]), 'loop', b)
        add('', 'post', b)
        if banner == 'new':
            if not minimize:                # finish.cpp prints the ns/day metric for MD runs only
                add('Performance: 70.123 ns/day, 0.342 hours/ns, 811.609 timesteps/s', 'post', b)
            add('99.5% CPU use with 1 MPI tasks x 1 OpenMP threads', 'post', b)
            add('', 'post', b)
        if minimize:
            add('Minimization stats:', 'post', b)
            add('  Stopping criterion = energy tolerance', 'post', b)
            add('  Energy initial, next-to-last, final = ', 'post', b)
            add('        -13419.839     -13440.0012     -13440.0012', 'post', b)
            add('  Force two-norm initial, final = 3.5012 0.00012', 'post', b)
            add('  Iterations, force evaluations = %d %d' % (steps[-1] - steps[0], 2 * (steps[-1] - steps[0])), 'post', b)
            add('', 'post', b)
        if timing == 'new':
            add('MPI task timing breakdown:', 'post', b)
            add('Section |  min time  |  avg time  |  max time  |%varavg| %total', 'post', b)
            add('---------------------------------------------------------------', 'post', b)
            add('Pair    | 0.10412    | 0.10412    | 0.10412    |   0.0 | 85.12', 'post', b)
            add('Neigh   | 0          | 0          | 0          |   0.0 |  0.00', 'post', b)
            add('Comm    | 0.0061     | 0.0061     | 0.0061     |   0.0 |  4.99', 'post', b)
            add('Output  | 0.00011    | 0.00011    | 0.00011    |   0.0 |  0.09', 'post', b)
            add('Modify  | 0.011      | 0.011      | 0.011      |   0.0 |  9.15', 'post', b)
            add('Other   |            | 0.0008     |            |       |  0.65', 'post', b)
            add('', 'post', b)
        elif timing == 'old':
            add('Pair  time (%) = 2.18512 (77.5)', 'post', b)
            add('Neigh time (%) = 0.281 (10.1)', 'post', b)
            add('Comm  time (%) = 0.25 (8.9)', 'post', b)
            add('Outpt time (%) = 0.0003 (0.01)', 'post', b)
            add('Other time (%) = 0.09 (3.4)', 'post', b)
            add('', 'post', b)
        add('Nlocal:    4000 ave 4000 max 4000 min', 'post', b)
        add('Histogram: 1 0 0 0 0 0 0 0 0 0', 'post', b)
        add('Nghost:    5841 ave 5841 max 5841 min', 'post', b)
        add('Histogram: 1 0 0 0 0 0 0 0 0 0', 'post', b)
        add('Neighs:    280000 ave 280000 max 280000 min', 'post', b)
        add('Histogram: 1 0 0 0 0 0 0 0 0 0', 'post', b)
        add('', 'post', b)
        add('Total # of neighbors = 280000', 'post', b)
        add('Ave neighs/atom = 70', 'post', b)
        add('Neighbor list builds = 0', 'post', b)
        add('Dangerous builds = 0', 'post', b)
    add('Total wall time: 0:00:01', 'end')
    model = {'version': vers[0], 'date': vers[1], 'tables': tables}
    return lines, model


def text_of(lines, upto=None, tail=''):
    """text of the first `upto` lines (all when None), each terminated by a newline, plus `tail`"""
    ls = lines if upto is None else lines[:upto]
    return ''.join(t + '\n' for t, _, _ in ls) + tail


def cut_points(lines, midrows='all'):
    """crash points of the LAST block: list of (class, upto, tail, nrows_kept, partial_row_tokens)

    class: after-banner | after-header | row | loop | post | complete | midrow
    `upto` lines are kept completely; `tail` is the unterminated fragment that follows (midrow only).
    midrows: 'all' = cuts at every character of every row; 'last' = of the last row of the block only."""
    last = max(b for _, _, b in lines)
    idx = [i for i, (_, _, b) in enumerate(lines) if b == last]
    out = []
    nrows = 0
    for i in idx:
        t, tag, _ = lines[i]
        if tag == 'pre':
            continue
        if tag == 'banner':
            out.append(('after-banner', i + 1, '', 0, None))
        elif tag == 'header':
            out.append(('after-header', i + 1, '', 0, None))
        elif tag == 'row':
            # inside the row: every character position
            is_end = lines[i + 1][1] != 'row'
            for p in range(1, len(t)):
                if midrows == 'last' and not is_end:
                    break
                frag = t[:p]
                out.append(('midrow', i, frag, nrows, frag.split()))
            nrows += 1
            out.append(('row', i + 1, '', nrows, None))
        elif tag == 'loop':
            out.append(('loop', i + 1, '', nrows, None))
        elif tag == 'post':
            out.append(('post', i + 1, '', nrows, None))
    out.append(('complete', len(lines), '', nrows, None))
    return out
