"""C16 - Miller conversions are lossless; plane normal is the reciprocal-lattice vector.

Bounded-exhaustive enumeration: every integer triple of [-R,R]^3 \\ 0 and every
quadruple with u+v+t=0 of the same range, in every leading shape ((k,), list,
(N,k), (M,N,k) with M != N and M == N, rank 4), against

* Fraction arithmetic for the 3<->4 index formulas,
* explicit lattice sums  u a + v b + w c  (and u a1 + v a2 + t a3 + w c with
  a3 = -(a1+a2)) for the Cartesian vectors,
* the reciprocal basis obtained from an independent cofactor inverse for the
  plane normals and the zone law,
* the crystallographic definition of each centring (translation set, lattice
  points per cell) for the conventional<->primitive maps,
* math.gcd for reduce_indices / all_indices,
* Fraction(p, q) * shown integers for fromstring,
* the constructor name for identifyfamily.
"""
import itertools
import math
import sys
from fractions import Fraction

import numpy as np

from mc.common import Check, Fail, SEED, THOROUGH, assert_overlay

am = assert_overlay()
from atomman.tools import miller, crystalsystem  # noqa: E402

chk = Check('C16', 'exploration',
            'full product: all integer triples of [-R,R]^3 without 0 (R=4 quick, 9 thorough) and all quadruples with '
            'u+v+t=0 in the same range x leading shapes {(k,) array/list/tuple, (N,k), (M,N,k) M!=N, (N,N,k), rank 4, float dtype} '
            'x {3<->4 plane and vector maps; Cartesian vector and plane normal in every cell of the menu (7 family '
            'constructors, 2nd hexagonal, 3 triclinic incl. a rotated one, one seed-slice triclinic) through miller.* and Box.*; '
            'zone law against all [uvw] of [-2,2]^3; 8 centring settings; reduce_indices; all_indices}; every '
            'bracket x fraction p/q (p,q<=3, plus 1/10 and 12/5) x spacing variant x integer tuple over {-2..2, 10, -12}^3 and ^4 (thorough: -3..3) (4-index: sum of first three = 0 not required by the parser) for fromstring; '
            'family constructors x parameter grids for identifyfamily.  evaluations = index vectors (or strings, cells) '
            'pushed through a real function; distinct_nontrivial = distinct (function, cell/setting, index vector) '
            'combinations, i.e. the evaluations of the canonical (N,k) shape, strings and cells')
chk.assumptions = [
    'plane normals compared to 1e-12 absolute on unit-vector components: the implementation takes the cross product of two '
    'in-plane lattice vectors, relative rounding <= 4 eps / sin(angle between them); for the cells and index range of the '
    'alphabet that angle stays above 1e-3 rad, giving < 1e-12 (largest deviation measured on the alphabet: 4.5e-16)',
    'Cartesian vectors compared to 1e-12 * max|index| * max|vects| (three products and two additions per component)',
    '3->4 vector indices compared exactly with the correctly rounded Fraction value for u, v, w and to 4 eps * max|index| for t = -(u+v)',
    'fromstring compared to 4 eps relative (p/q rounded once, product rounded once)',
    'family identification only for constructor parameters whose mutual differences exceed 1e-2 relative (library tolerance is 1e-5)',
    'cells are right-handed (quantifier); the zero index vector is excluded',
]

EPS = np.finfo(float).eps
R = 9 if THOROUGH else 4
SMAX = 3 if THOROUGH else 2      # index range of the string alphabet
SVALUES = list(range(-SMAX, SMAX + 1)) + [10, -12]      # ... plus two multi-digit indices


# ---------------------------------------------------------------------------
# alphabets

def _triples(r):
    return np.array([t for t in itertools.product(range(-r, r + 1), repeat=3) if any(t)], dtype=int)


def _quads(r):
    out = []
    for u, v, w in itertools.product(range(-r, r + 1), repeat=3):
        t = -(u + v)
        if abs(t) <= r and (u or v or w):
            out.append((u, v, t, w))
    return np.array(out, dtype=int)


I3 = _triples(R)
I4 = _quads(R)
UVW2 = _triples(2)          # the zone-law probe vectors


def chol_from_params(a, b, c, al, be, ga):
    ca, cb, cg = np.cos(np.radians([al, be, ga]))
    G = np.array([[a * a, a * b * cg, a * c * cb],
                  [a * b * cg, b * b, b * c * ca],
                  [a * c * cb, b * c * ca, c * c]])
    return np.linalg.cholesky(G)


def rodrigues(axis, deg):
    axis = np.asarray(axis, float) / np.linalg.norm(axis)
    t = np.radians(deg)
    K = np.array([[0, -axis[2], axis[1]], [axis[2], 0, -axis[0]], [-axis[1], axis[0], 0]])
    return np.eye(3) + np.sin(t) * K + (1 - np.cos(t)) * K @ K


_SEED_TRI = [(3.0 + 0.37 * s, 4.3 - 0.21 * s, 5.2 + 0.13 * s, 70 + 3.1 * s, 95 - 2.3 * s, 105 + 1.7 * s) for s in range(8)]

# (name, family or None, builder)
CELLS = [
    ('cubic', 'cubic', lambda: am.Box.cubic(3.3)),
    ('hexagonal', 'hexagonal', lambda: am.Box.hexagonal(3.2, 5.1)),
    ('hexagonal-flat', 'hexagonal', lambda: am.Box.hexagonal(4.0, 2.9)),
    ('tetragonal', 'tetragonal', lambda: am.Box.tetragonal(3.0, 4.7)),
    ('trigonal', 'rhombohedral', lambda: am.Box.trigonal(4.1, 57.0)),
    ('orthorhombic', 'orthorhombic', lambda: am.Box.orthorhombic(3.1, 4.2, 5.3)),
    ('monoclinic', 'monoclinic', lambda: am.Box.monoclinic(3.1, 4.2, 5.3, 103.0)),
    ('triclinic', 'triclinic', lambda: am.Box.triclinic(3.7, 4.1, 5.9, 81.0, 97.0, 112.0)),
    ('triclinic-strong-tilt', None, lambda: am.Box(vects=[[3.0, 0, 0], [2.6, 3.0, 0], [-2.2, 1.9, 3.0]])),
    ('triclinic-rotated', None, lambda: am.Box(vects=chol_from_params(3.7, 4.1, 5.9, 81, 97, 112) @ rodrigues([1, 2, 3], 37.0).T,
                                               origin=[0.3, -1.1, 2.0])),
    ('triclinic-metre-scale', None, lambda: am.Box(vects=1e-10 * chol_from_params(3.7, 4.1, 5.9, 81, 97, 112))),     # lengths held in metres
    ('orthorhombic-metre-scale', 'orthorhombic', lambda: am.Box.orthorhombic(3.1e-10, 4.2e-10, 5.3e-10)),
    ('triclinic-seed-slice', None, lambda: am.Box.triclinic(*_SEED_TRI[SEED % 8])),
    # orthogonal / hexagonal cells whose vectors are NOT along the Cartesian axes (a cell is "cubic" by its lengths and
    # angles, not by its orientation): rotated about z, cyclically permuted axes, generic rotation
    ('cubic-rotated-45z', None, lambda: am.Box(vects=3.3 * np.eye(3) @ rodrigues([0, 0, 1], 45.0).T)),
    ('orthorhombic-permuted-axes', None, lambda: am.Box(vects=[[0, 3.1, 0], [0, 0, 4.2], [5.3, 0, 0]])),
    ('tetragonal-rotated', None, lambda: am.Box(vects=np.diag([3.0, 3.0, 4.7]) @ rodrigues([1, 2, 3], 37.0).T)),
    ('hexagonal-rotated', 'hexagonal', lambda: am.Box(vects=np.array(am.Box.hexagonal(3.2, 5.1).vects) @ rodrigues([2, -1, 1], 63.0).T)),
]

SETTINGS = ['p', 'a', 'b', 'c', 'i', 'f', 't1', 't2']
# crystallographic definition of the centrings: extra lattice points of the conventional cell (besides 0,0,0)
CENTERING = {
    'p': [],
    'a': [(0, Fraction(1, 2), Fraction(1, 2))],
    'b': [(Fraction(1, 2), 0, Fraction(1, 2))],
    'c': [(Fraction(1, 2), Fraction(1, 2), 0)],
    'i': [(Fraction(1, 2), Fraction(1, 2), Fraction(1, 2))],
    'f': [(0, Fraction(1, 2), Fraction(1, 2)), (Fraction(1, 2), 0, Fraction(1, 2)), (Fraction(1, 2), Fraction(1, 2), 0)],
    't1': [(Fraction(2, 3), Fraction(1, 3), Fraction(1, 3)), (Fraction(1, 3), Fraction(2, 3), Fraction(2, 3))],   # obverse
    't2': [(Fraction(1, 3), Fraction(2, 3), Fraction(1, 3)), (Fraction(2, 3), Fraction(1, 3), Fraction(2, 3))],   # reverse
}

SHAPES = ['single', 'N', 'MxN', 'NxN', 'rank4', 'float', 'int8', 'int16', 'uint8']
NARROW = {'int8': np.int8, 'int16': np.int16, 'uint8': np.uint8}


def shaped(X, kind):
    """-> list of (array-like argument, (n_rows,k) view of the expected order).  Covers all of X except
    for the square shape, which takes the first s*s rows."""
    n, k = X.shape
    if kind == 'N':
        return [(X, slice(0, n))]
    if kind == 'float':
        return [(X.astype(float), slice(0, n))]
    if kind in NARROW:
        # the same integers held in a narrow / unsigned integer dtype (runs of rows the dtype cannot hold stay int64)
        if not np.issubdtype(X.dtype, np.integer):
            if not np.all(X == np.round(X)):
                return [(X, slice(0, n))]          # intermediate non-integer coordinates: nothing to narrow
            X = np.round(X).astype(np.int64)
        info = np.iinfo(NARROW[kind])
        fits = np.all((X >= info.min) & (X <= info.max), axis=1)
        out, i = [], 0
        while i < n:
            j = i
            while j < n and fits[j] == fits[i]:
                j += 1
            out.append((X[i:j].astype(NARROW[kind]) if fits[i] else X[i:j], slice(i, j)))
            i = j
        return out
    if kind == 'MxN':
        m = next((m for m in range(2, n) if n % m == 0 and n // m != m), None)
        if m is None:
            m = next(m for m in range(2, n) if (n - 1) % m == 0 and (n - 1) // m != m)
            return [(X[:n - 1].reshape(m, (n - 1) // m, k), slice(0, n - 1)), (X[n - 2:].reshape(1, 2, k), slice(n - 2, n))]
        return [(X.reshape(m, n // m, k), slice(0, n))]
    if kind == 'NxN':
        s = int(math.isqrt(n))
        out = [(X[:s * s].reshape(s, s, k), slice(0, s * s))]
        r = n - s * s
        if r:
            # remaining rows: a second square block taken from the tail (overlaps, still complete coverage)
            out.append((X[n - s * s:].reshape(s, s, k), slice(n - s * s, n)))
        return out
    if kind == 'rank4':
        m = 4 * (n // 4)
        out = [(X[:m].reshape(2, 2, m // 4, k), slice(0, m))]
        if n - m:
            out.append((X[n - 4:].reshape(2, 2, 1, k), slice(n - 4, n)))
        return out
    raise ValueError(kind)


def call_rows(fn, X, kind, kout, *args):
    """run fn over X in the given leading shape; return (n,kout) float/int array in the order of X.
    Raises whatever fn raises."""
    n, k = X.shape
    if kind == 'single':
        rows = []
        for i in range(n):
            variant = i % 3
            arg = X[i] if variant == 0 else (X[i].tolist() if variant == 1 else tuple(X[i].tolist()))
            r = np.asarray(fn(arg, *args))
            if r.shape != (kout,):
                raise ShapeError('input shape (%d,) gave output shape %s' % (k, r.shape))
            rows.append(r)
        return np.array(rows)
    out = None
    for arg, sl in shaped(X, kind):
        r = np.asarray(fn(arg, *args))
        want = np.shape(arg)[:-1] + (kout,)
        if r.shape != want:
            raise ShapeError('input shape %s gave output shape %s' % (np.shape(arg), r.shape))
        if out is None:
            out = np.zeros((n, kout), dtype=r.dtype)
        out[sl] = r.reshape(-1, kout)
    return out


class ShapeError(Exception):
    pass


def guarded(tag, kind, fn, X, kout, *args):
    """-> (result or None, fails)"""
    try:
        return call_rows(fn, X, kind, kout, *args), []
    except ShapeError as e:
        return None, [Fail(key='%s-%s-shape' % (tag, kind), msg=str(e))]
    except Exception as e:   # the functions document no refusal for well-formed non-zero integer input
        return None, [Fail(key='%s-%s-raises' % (tag, kind), msg='%s on well-formed input of shape kind %s: %s' % (type(e).__name__, kind, e))]


def count(n, kind):
    chk.note('index-evaluations', n)
    if kind == 'N':
        chk.note('distinct-evaluations', n)


# ---------------------------------------------------------------------------
# independent oracles

def inv3(v):
    """inverse of a 3x3 matrix by cofactors (independent of numpy.linalg and of Box.reciprocal_vects)."""
    v = [[float(x) for x in row] for row in v]
    c = [[0.0] * 3 for _ in range(3)]
    for i in range(3):
        for j in range(3):
            i1, i2 = (i + 1) % 3, (i + 2) % 3
            j1, j2 = (j + 1) % 3, (j + 2) % 3
            c[i][j] = v[i1][j1] * v[i2][j2] - v[i1][j2] * v[i2][j1]
    det = sum(v[0][j] * c[0][j] for j in range(3))
    return np.array([[c[j][i] / det for j in range(3)] for i in range(3)]), det


def det3_frac(m):
    m = [[Fraction(x).limit_denominator(12) for x in row] for row in m]
    return (m[0][0] * (m[1][1] * m[2][2] - m[1][2] * m[2][1])
            - m[0][1] * (m[1][0] * m[2][2] - m[1][2] * m[2][0])
            + m[0][2] * (m[1][0] * m[2][1] - m[1][1] * m[2][0]))


def lattice_sum(idx, vects):
    """sum_i idx_i * vects_i with explicit loops."""
    out = np.zeros((len(idx), 3))
    for i in range(3):
        for x in range(3):
            out[:, x] += idx[:, i] * vects[i, x]
    return out


def gcd_reduce(row):
    g = 0
    for x in row:
        g = math.gcd(g, abs(int(x)))
    return [int(x) // g for x in row]


# ---------------------------------------------------------------------------
# clauses

@chk.clause('convert34')
def convert34(case):
    kind = case['shape']
    fails = []
    # planes 3 -> 4 : (h k l) -> (h k -(h+k) l), exact
    exp = np.column_stack([I3[:, 0], I3[:, 1], -(I3[:, 0] + I3[:, 1]), I3[:, 2]])
    r, f = guarded('plane3to4', kind, miller.plane3to4, I3, 4)
    fails += f
    if r is not None:
        count(len(I3), kind)
        if not np.array_equal(r, exp):
            fails.append(Fail(key='plane3to4-%s-value' % kind, msg='(hkl)->(hkil) differs from (h,k,-(h+k),l)',
                              first_bad=I3[np.any(r != exp, axis=1)][0]))
        else:
            # back again: lossless.  (all of the 3->4 images, also those with |i| > R)
            r2, f = guarded('plane4to3', kind, miller.plane4to3, exp, 3)
            fails += f
            if r2 is not None and not np.array_equal(r2, I3):
                fails.append(Fail(key='plane-3-4-3-%s-roundtrip' % kind, msg='plane4to3(plane3to4(hkl)) != hkl'))
    # planes 4 -> 3 on the quadruple alphabet
    exp = I4[:, [0, 1, 3]]
    r, f = guarded('plane4to3', kind, miller.plane4to3, I4, 3)
    fails += f
    if r is not None:
        count(len(I4), kind)
        if not np.array_equal(r, exp):
            fails.append(Fail(key='plane4to3-%s-value' % kind, msg='(hkil)->(hkl) differs from (h,k,l)'))
        else:
            r2, f = guarded('plane3to4', kind, miller.plane3to4, exp, 4)
            fails += f
            if r2 is not None and not np.array_equal(r2, I4):
                fails.append(Fail(key='plane-4-3-4-%s-roundtrip' % kind, msg='plane3to4(plane4to3(hkil)) != hkil'))
    # vectors 4 -> 3 : [uvtw] -> [2u+v, 2v+u, w] (= u-t, v-t, w), exact for integers
    exp = np.column_stack([I4[:, 0] - I4[:, 2], I4[:, 1] - I4[:, 2], I4[:, 3]])
    r, f = guarded('vector4to3', kind, miller.vector4to3, I4, 3)
    fails += f
    if r is not None:
        count(len(I4), kind)
        if not np.array_equal(r, exp):
            fails.append(Fail(key='vector4to3-%s-value' % kind, msg='[uvtw]->[uvw] differs from [u-t, v-t, w]',
                              first_bad=I4[np.any(r != exp, axis=1)][0]))
        else:
            r2, f = guarded('vector3to4', kind, miller.vector3to4, exp, 4)
            fails += f
            if r2 is not None and not np.array_equal(r2, I4):
                fails.append(Fail(key='vector-4-3-4-%s-roundtrip' % kind, msg='vector3to4(vector4to3(uvtw)) != uvtw (exact integers expected)',
                                  first_bad=I4[np.any(r2 != I4, axis=1)][0]))
    # vectors 3 -> 4 : U=(2u-v)/3, V=(2v-u)/3, T=-(u+v)/3, W=w
    expF = [(Fraction(2 * u - v, 3), Fraction(2 * v - u, 3), Fraction(-(u + v), 3), Fraction(w)) for u, v, w in I3.tolist()]
    exp = np.array([[float(x) for x in row] for row in expF])
    r, f = guarded('vector3to4', kind, miller.vector3to4, I3, 4)
    fails += f
    if r is not None:
        count(len(I3), kind)
        bad = (np.any(r[:, [0, 1, 3]] != exp[:, [0, 1, 3]], axis=1)
               | (np.abs(r[:, 2] - exp[:, 2]) > 4 * EPS * R))
        if bad.any():
            fails.append(Fail(key='vector3to4-%s-value' % kind, msg='[uvw]->[uvtw] differs from ((2u-v)/3,(2v-u)/3,-(u+v)/3,w)',
                              first_bad=I3[bad][0], observed=r[bad][0], expected=exp[bad][0]))
        else:
            # back: vector4to3 accepts these (sum rule holds to rounding) and restores the integers to rounding
            r2, f = guarded('vector4to3', kind, miller.vector4to3, r, 3)
            fails += f
            if r2 is not None and np.any(np.abs(r2 - I3) > 8 * EPS * R):
                fails.append(Fail(key='vector-3-4-3-%s-roundtrip' % kind, msg='vector4to3(vector3to4(uvw)) != uvw'))
    return fails


@chk.clause('refusals')
def refusals(case):
    """documented ValueErrors (Raises sections): wrong trailing dimension, broken sum rule, 4 indices with a non-hexagonal box,
    all-zero plane."""
    fails = []

    def must_raise(tag, fn, *a):
        try:
            fn(*a)
        except ValueError:
            return
        except Exception as e:
            fails.append(Fail(key='refusal-%s-wrong-type' % tag, msg='%s instead of ValueError' % type(e).__name__))
            return
        fails.append(Fail(key='refusal-%s-accepted' % tag, msg='documented refusal did not happen'))
    cub = CELLS[0][2]()
    for fn, name in ((miller.plane3to4, 'plane3to4'), (miller.vector3to4, 'vector3to4')):
        must_raise(name + '-dim', fn, [1, 0, -1, 0])
        must_raise(name + '-dim', fn, [[1, 0], [0, 1]])
    for fn, name in ((miller.plane4to3, 'plane4to3'), (miller.vector4to3, 'vector4to3')):
        must_raise(name + '-dim', fn, [1, 0, 0])
        for q in ([1, 0, 0, 0], [1, 1, 1, 0], [[1, 0, -1, 0], [1, 1, -1, 2]]):
            must_raise(name + '-sum', fn, q)
    for name, fam, build in CELLS:
        box = build()
        if fam == 'hexagonal':
            continue
        must_raise('vector-4index-nonhex', miller.vector_crystal_to_cartesian, [1, 0, -1, 0], box)
        must_raise('plane-4index-nonhex', miller.plane_crystal_to_cartesian, [1, 0, -1, 0], box)
        must_raise('Box-vector-4index-nonhex', box.vector_crystal_to_cartesian, [1, 0, -1, 0])
        must_raise('Box-plane-4index-nonhex', box.plane_crystal_to_cartesian, [1, 0, -1, 0])
    must_raise('vector-dim', miller.vector_crystal_to_cartesian, [1, 0], cub)
    must_raise('plane-dim', miller.plane_crystal_to_cartesian, [1, 0], cub)
    for fn, name in ((miller.vector_primitive_to_conventional, 'p2c'), (miller.vector_conventional_to_primitive, 'c2p')):
        must_raise(name + '-setting', fn, [1, 0, 0], 'x')
        must_raise(name + '-dim', fn, [1, 0, 0, 0], 'f')
    chk.note('refusals-checked', 1)
    return fails


@chk.clause('cartesian')
def cartesian(case):
    name, fam, build = CELLS[case['cell']]
    kind = case['shape']
    box = build()
    v = np.array(box.vects, dtype=float)
    tol = 1e-12 * np.abs(v).max() * 3 * R
    fails = []
    exp = lattice_sum(I3, v)
    for tag, fn, args in (('vector', miller.vector_crystal_to_cartesian, (box,)), ('Box-vector', box.vector_crystal_to_cartesian, ())):
        r, f = guarded(tag, kind, fn, I3, 3, *args)
        fails += f
        if r is not None:
            count(len(I3), kind)
            if np.abs(r - exp).max() > tol:
                i = int(np.argmax(np.abs(r - exp).max(axis=1)))
                fails.append(Fail(key='%s-%s-value' % (tag, kind), msg='[uvw] -> u a + v b + w c violated in cell ' + name,
                                  indices=I3[i], observed=r[i], expected=exp[i]))
    if fam == 'hexagonal':
        # four-index vector: u a1 + v a2 + t a3 + w c with a3 = -(a1 + a2)
        basis4 = np.array([v[0], v[1], -(v[0] + v[1]), v[2]])
        exp4 = np.zeros((len(I4), 3))
        for i in range(4):
            for x in range(3):
                exp4[:, x] += I4[:, i] * basis4[i, x]
        for tag, fn, args in (('vector4', miller.vector_crystal_to_cartesian, (box,)), ('Box-vector4', box.vector_crystal_to_cartesian, ())):
            r, f = guarded(tag, kind, fn, I4, 3, *args)
            fails += f
            if r is not None:
                count(len(I4), kind)
                if np.abs(r - exp4).max() > tol:
                    i = int(np.argmax(np.abs(r - exp4).max(axis=1)))
                    fails.append(Fail(key='%s-%s-value' % (tag, kind), msg='[uvtw] -> u a1 + v a2 + t a3 + w c violated in cell ' + name,
                                      indices=I4[i], observed=r[i], expected=exp4[i]))
        # the 4-index image of [uvw] denotes the same Cartesian vector
        q, f = guarded('vector3to4', kind, miller.vector3to4, I3, 4)
        fails += f
        if q is not None:
            r, f = guarded('vector4', kind, miller.vector_crystal_to_cartesian, q, 3, box)
            fails += f
            if r is not None:
                count(len(I3), kind)
                if np.abs(r - exp).max() > tol:
                    i = int(np.argmax(np.abs(r - exp).max(axis=1)))
                    fails.append(Fail(key='vector3to4-%s-direction' % kind, msg='vector3to4([uvw]) is not the same Cartesian vector as [uvw]',
                                      indices=I3[i], observed=r[i], expected=exp[i]))
    return fails


@chk.clause('normal')
def normal(case):
    name, fam, build = CELLS[case['cell']]
    kind = case['shape']
    box = build()
    v = np.array(box.vects, dtype=float)
    vinv, det = inv3(v)
    if not det > 0:
        return [Fail(key='harness-left-handed-cell', msg='alphabet cell is not right-handed')]
    recip = vinv.T          # rows a*, b*, c*:  a_i . a*_j = delta_ij
    assert np.abs(v @ recip.T - np.eye(3)).max() < 1e-12
    fails = []

    def judge(tag, r, idx3):
        out = []
        G = lattice_sum(idx3, recip)
        Gn = np.sqrt((G ** 2).sum(axis=1))
        exp = G / Gn[:, None]
        d = np.abs(r - exp).max(axis=1)
        if d.max() > 1e-12:
            i = int(np.argmax(d))
            out.append(Fail(key='%s-%s-value' % (tag, kind), msg='plane normal is not the unit vector along h a* + k b* + l c* in cell ' + name,
                            indices=idx3[i], observed=r[i], expected=exp[i], n_bad=int((d > 1e-12).sum())))
        # zone law through the real vector conversion: n . [uvw] = (hu + kv + lw) / |G|
        cart = miller.vector_crystal_to_cartesian(UVW2, box)
        dots = r @ cart.T                                    # (n_planes, n_uvw)
        zone = idx3 @ UVW2.T                                 # integers
        scale = np.abs(cart).max()
        perp = np.abs(dots) <= 1e-9 * scale
        bad = perp != (zone == 0)
        chk.note('zone-law-pairs', zone.size)
        chk.note('zone-law-pairs-in-zone', int((zone == 0).sum()))
        if bad.any():
            i, j = np.argwhere(bad)[0]
            out.append(Fail(key='%s-%s-zone-law' % (tag, kind), msg='normal perpendicular to [uvw] <=> hu+kv+lw=0 violated in cell ' + name,
                            plane=idx3[i], uvw=UVW2[j], dot=float(dots[i, j])))
        elif np.abs(dots * Gn[:, None] - zone).max() > 1e-9 * scale * Gn.max():
            out.append(Fail(key='%s-%s-zone-value' % (tag, kind), msg='n.[uvw] != (hu+kv+lw)/|G|'))
        return out
    for tag, fn, args in (('plane', miller.plane_crystal_to_cartesian, (box,)), ('Box-plane', box.plane_crystal_to_cartesian, ())):
        r, f = guarded(tag, kind, fn, I3, 3, *args)
        fails += f
        if r is not None:
            count(len(I3), kind)
            fails += judge(tag, r, I3)
    if fam == 'hexagonal':
        for tag, fn, args in (('plane4', miller.plane_crystal_to_cartesian, (box,)), ('Box-plane4', box.plane_crystal_to_cartesian, ())):
            r, f = guarded(tag, kind, fn, I4, 3, *args)
            fails += f
            if r is not None:
                count(len(I4), kind)
                fails += judge(tag, r, I4[:, [0, 1, 3]])
    return fails


@chk.clause('centering')
def centering(case):
    s = SETTINGS[case['setting']]
    kind = case['shape']
    fails = []
    p2c = lambda x: miller.vector_primitive_to_conventional(x, s)   # noqa: E731
    c2p = lambda x: miller.vector_conventional_to_primitive(x, s)   # noqa: E731
    eye = np.eye(3, dtype=int)
    P = np.asarray(p2c(eye), dtype=float)      # rows: primitive vectors in conventional coordinates
    C = np.asarray(c2p(eye), dtype=float)      # rows: conventional vectors in primitive coordinates
    npts = 1 + len(CENTERING[s])
    if case['shape'] == 'N':
        # definition of the centring: each primitive vector is a lattice point of the centred lattice, and the three
        # span a cell holding exactly one lattice point (volume 1/npts), right-handed
        pts = [(Fraction(0), Fraction(0), Fraction(0))] + [tuple(Fraction(x) for x in t) for t in CENTERING[s]]
        for i in range(3):
            row = [Fraction(x).limit_denominator(12) for x in P[i]]
            if max(abs(float(row[j]) - P[i, j]) for j in range(3)) > 4 * EPS:
                fails.append(Fail(key='centering-%s-not-rational' % s, msg='primitive vector %d is not a small rational' % i))
                continue
            ok = any(all((row[j] - t[j]).denominator == 1 for j in range(3)) for t in pts)
            if not ok:
                fails.append(Fail(key='centering-%s-not-a-lattice-point' % s, msg='primitive vector %d = %s is not a lattice point of the %s-centred cell' % (i, P[i], s)))
        dP = det3_frac(P)
        dC = det3_frac(C)
        if dP != Fraction(1, npts):
            fails.append(Fail(key='centering-%s-det-p2c' % s, msg='det(primitive vectors) = %s, expected 1/%d' % (dP, npts)))
        if dC != npts:
            fails.append(Fail(key='centering-%s-det-c2p' % s, msg='det(c2p) = %s, expected %d lattice points per cell' % (dC, npts)))
        # integer conventional vectors -> integer primitive indices (C itself must be integer)
        if np.any(C != np.round(C)):
            fails.append(Fail(key='centering-%s-c2p-not-integer' % s, msg='conventional basis vectors have non-integer primitive indices'))
    # mutual inverses on the whole index alphabet
    q, f = guarded('c2p-' + s, kind, c2p, I3, 3)
    fails += f
    if q is not None:
        count(len(I3), kind)
        if np.any(q != np.round(q)):
            fails.append(Fail(key='c2p-%s-%s-not-integer' % (s, kind), msg='integer conventional vector mapped to non-integer primitive indices'))
        if np.abs(q - lattice_sum(I3, C)).max() > 1e-12:
            fails.append(Fail(key='c2p-%s-%s-not-linear' % (s, kind), msg='c2p(x) != sum x_i c2p(e_i)'))
        r, f = guarded('p2c-' + s, kind, p2c, q, 3)
        fails += f
        if r is not None:
            count(len(I3), kind)
            if np.abs(r - I3).max() > 64 * EPS * R:
                i = int(np.argmax(np.abs(r - I3).max(axis=1)))
                fails.append(Fail(key='p2c-c2p-%s-%s-roundtrip' % (s, kind), msg='p2c(c2p(x)) != x', indices=I3[i], observed=r[i]))
    q, f = guarded('p2c-' + s, kind, p2c, I3, 3)
    fails += f
    if q is not None:
        count(len(I3), kind)
        r, f = guarded('c2p-' + s, kind, c2p, q, 3)
        fails += f
        if r is not None:
            count(len(I3), kind)
            if np.abs(r - I3).max() > 64 * EPS * R:
                i = int(np.argmax(np.abs(r - I3).max(axis=1)))
                fails.append(Fail(key='c2p-p2c-%s-%s-roundtrip' % (s, kind), msg='c2p(p2c(x)) != x', indices=I3[i], observed=r[i]))
    return fails


@chk.clause('reduce')
def reduce(case):
    kind = case['shape']
    if kind == 'float':
        return []      # documented input: arrays of ints
    fails = []
    for width, X in ((3, I3), (4, I4)):
        exp = np.array([gcd_reduce(row) for row in X.tolist()], dtype=int)
        chk.note('reduce-vectors-with-gcd>1', int((np.abs(exp) != np.abs(X)).any(axis=1).sum()) if kind == 'N' else 0)
        r, f = guarded('reduce%d' % width, kind, miller.reduce_indices, X, width)
        fails += f
        if r is None:
            continue
        count(len(X), kind)
        if not np.issubdtype(r.dtype, np.integer) and np.any(r != np.round(r)):
            fails.append(Fail(key='reduce%d-%s-not-integer' % (width, kind), msg='non-integer reduced indices'))
        bad = np.any(r != exp, axis=1)
        if bad.any():
            i = int(np.argmax(bad))
            fails.append(Fail(key='reduce%d-%s-value' % (width, kind),
                              msg='reduce_indices does not return the coprime indices of the same direction',
                              indices=X[i], observed=r[i], expected=exp[i], n_bad=int(bad.sum())))
    return fails


@chk.clause('all_indices')
def all_indices(case):
    m = case['maxindex']
    fails = []
    full = {t for t in itertools.product(range(-m, m + 1), repeat=3) if any(t)}
    r = np.asarray(miller.all_indices(m))
    chk.note('index-evaluations', len(r))
    chk.note('distinct-evaluations', len(r))
    got = [tuple(int(x) for x in row) for row in r]
    if len(got) != len(set(got)) or set(got) != full:
        fails.append(Fail(key='all_indices-set', msg='all_indices(%d) is not every non-zero triple once' % m))
    red = {tuple(gcd_reduce(t)) for t in full}
    r = np.asarray(miller.all_indices(m, reduce=True))
    got = [tuple(int(x) for x in row) for row in r]
    if len(got) != len(set(got)) or set(got) != red:
        fails.append(Fail(key='all_indices-reduced-set', msg='all_indices(%d, reduce=True) is not every coprime triple once' % m))
    if case['maxindex'] == 1 and len(np.asarray(miller.all_indices())) != 21 ** 3 - 1:
        fails.append(Fail(key='all_indices-default', msg='default maxindex is not 10'))
    return fails


BRACKETS = ['[]', '()', '<>', '{}']
FRACTIONS = [None] + [(p, q) for p in (1, 2, 3) for q in (1, 2, 3)] + [(1, 10), (12, 5)]
# spacing variants: (between fraction and bracket, pad inside brackets, separator, trailing)
SPACINGS = [(' ', '', ' ', ''), ('', '', ' ', ''), (' ', ' ', ' ', ''), (' ', '', '  ', ''), (' ', '', ' ', ' '),
            ('  ', ' ', '   ', '  ')]


@chk.clause('fromstring')
def fromstring(case):
    br = BRACKETS[case['bracket']]
    frac = FRACTIONS[case['fraction']]
    lead, pad, sep, trail = SPACINGS[case['spacing']]
    n = case['n']
    fails = []
    for tup in itertools.product(SVALUES, repeat=n):
        if not any(tup):
            continue          # the zero index vector is outside the quantifier
        body = br[0] + pad + sep.join(str(x) for x in tup) + pad + br[1] + trail
        if frac is None:
            s = body
            f = Fraction(1)
        else:
            s = '%d/%d' % frac + lead + body
            f = Fraction(*frac)
        exp = np.array([float(f * x) for x in tup])
        chk.note('strings', 1)
        try:
            r = np.asarray(miller.fromstring(s))
        except Exception as e:
            fails.append(Fail(key='fromstring-raises', msg='%s for well-formed string %r: %s' % (type(e).__name__, s, e)))
            break
        if r.shape != (n,):
            fails.append(Fail(key='fromstring-shape', msg='%r parsed to shape %s' % (s, r.shape)))
            break
        if np.any(np.abs(r - exp) > 4 * EPS * np.abs(exp)):
            fails.append(Fail(key='fromstring-value', msg='%r parsed to %s, expected %s' % (s, r.tolist(), exp.tolist())))
            break
    return fails


# constructor parameter grids: values pairwise different by > 1e-2 relative ("generic, non-coincident")
_LEN = [2.7, 3.3, 4.05, 5.6] if THOROUGH else [2.7, 4.05]
_LEN2 = [3.1, 4.6, 6.2] if THOROUGH else [3.1, 6.2]
_LEN3 = [3.55, 5.1, 7.3] if THOROUGH else [3.55, 7.3]
_TRIG = [33.0, 57.0, 60.0, 75.0, 89.0, 91.0, 100.0, 109.47, 119.0] if THOROUGH else [57.0, 60.0, 89.0, 100.0, 119.0]
_BETA = [91.0, 97.0, 103.0, 120.0, 135.0] if THOROUGH else [91.0, 103.0, 120.0]
FAMILY_CASES = []
for _a in _LEN:
    FAMILY_CASES.append(('cubic', 'cubic', (_a,)))
    for _c in _LEN2:
        FAMILY_CASES.append(('hexagonal', 'hexagonal', (_a, _c)))
        FAMILY_CASES.append(('tetragonal', 'tetragonal', (_a, _c)))
    for _al in _TRIG:
        FAMILY_CASES.append(('trigonal', 'rhombohedral', (_a, _al)))
    for _b in _LEN2:
        for _c in _LEN3:
            FAMILY_CASES.append(('orthorhombic', 'orthorhombic', (_a, _b, _c)))
            FAMILY_CASES.append(('orthorhombic', 'orthorhombic', (_c, _a, _b)))
            for _be in _BETA:
                FAMILY_CASES.append(('monoclinic', 'monoclinic', (_a, _b, _c, _be)))
                FAMILY_CASES.append(('monoclinic', 'monoclinic', (_c, _b, _a, _be)))
            for _ang in ((81.0, 97.0, 112.0), (97.0, 81.0, 69.0), (60.0, 75.0, 100.0), (100.0, 110.0, 120.0)):
                FAMILY_CASES.append(('triclinic', 'triclinic', (_a, _b, _c) + _ang))
FAMILY_CASES.append(('triclinic', 'triclinic', _SEED_TRI[SEED % 8]))
PREDICATES = ['cubic', 'hexagonal', 'tetragonal', 'rhombohedral', 'orthorhombic', 'monoclinic', 'triclinic']


@chk.clause('family')
def family(case):
    ctor, fam, params = FAMILY_CASES[case['k']]
    box = getattr(am.Box, ctor)(*params)
    chk.note('cells-identified', 1)
    fails = []
    got = box.identifyfamily()
    if got != fam:
        fails.append(Fail(key='identifyfamily-' + ctor, msg='Box.%s%s identified as %r' % (ctor, params, got)))
    if not getattr(box, 'is' + fam)():
        fails.append(Fail(key='is' + fam + '-false', msg='Box.%s%s: is%s() is False' % (ctor, params, fam)))
    got = crystalsystem.identifyfamily(box)
    if got != fam:
        fails.append(Fail(key='crystalsystem-identifyfamily-' + ctor, msg='tools.crystalsystem.identifyfamily: %r' % (got,)))
    if not getattr(crystalsystem, 'is' + fam)(box):
        fails.append(Fail(key='crystalsystem-is' + fam + '-false', msg='tools.crystalsystem.is%s is False' % fam))
    return fails


def gen():
    for sh in SHAPES:
        yield 'convert34', {'shape': sh}
    yield 'refusals', {}
    for ci in range(len(CELLS)):
        for sh in SHAPES:
            yield 'cartesian', {'cell': ci, 'shape': sh}
            yield 'normal', {'cell': ci, 'shape': sh}
    for si in range(len(SETTINGS)):
        for sh in SHAPES:
            yield 'centering', {'setting': si, 'shape': sh}
    for sh in SHAPES:
        if sh != 'float' and sh not in NARROW:
            yield 'reduce', {'shape': sh}
    for m in range(1, R + 1):
        yield 'all_indices', {'maxindex': m}
    for b in range(len(BRACKETS)):
        for f in range(len(FRACTIONS)):
            for sp in range(len(SPACINGS)):
                if FRACTIONS[f] is None and sp in (1,):
                    continue      # variant differs only in the fraction/bracket gap
                for n in (3, 4):
                    yield 'fromstring', {'bracket': b, 'fraction': f, 'spacing': sp, 'n': n}
    for k in range(len(FAMILY_CASES)):
        yield 'family', {'k': k}


if __name__ == '__main__':
    chk.run_cases(gen(), batch=2)
    ev = chk.notes.get('index-evaluations', 0) + chk.notes.get('strings', 0) + chk.notes.get('cells-identified', 0)
    dn = chk.notes.get('distinct-evaluations', 0) + chk.notes.get('strings', 0) + chk.notes.get('cells-identified', 0)
    sys.exit(chk.finish({'evaluations': ev, 'distinct_nontrivial': dn, 'calls_cases': sum(chk.counts.values())}))
