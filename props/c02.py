"""C02 - periodic separation: dvect / dmag / System.dvect / System.dmag / displacement.

Bounded-exhaustive enumeration: cells x 8 pbc x p0 menu x p1 grid (every pair),
in every broadcast shape; oracle = independent 27-candidate set and an
exhaustive lattice search with the proven radius |n_i| <= ceil(|d|/w_i)+1.
"""
import itertools
import sys

import numpy as np

from mc.common import Check, Fail, SEED, THOROUGH, assert_overlay
from props.c01 import chol_from_params, rot

am = assert_overlay()

chk = Check('C02', 'exploration',
            'full product cells x 8 pbc settings x p0 menu (interior, faces, edge, corner, outside) x p1 relative grid '
            '{0,1/4,1/2,1/2+2^-34,3/4,1-2^-20}^3 (every pair) x broadcast shapes (1:1, 1:N, N:1, N:N, list/tuple input), plus '
            'System.dvect/dmag by index/slice/position and displacement() in its three reference modes; livebox: every ordered pair of cells on ONE Box/System object changed in place (vects=, set, box_set with and without scale) between two calls; a case is one '
            '(cell,pbc,p0) row = 216+ point pairs; non-trivial = at least one pair needs a non-zero image shift')
chk.assumptions = ['length comparisons to 1e-12 relative', 'ties between equal-length candidates accepted']


def _cells():
    out = []
    out.append(('cubic', chol_from_params(4, 4, 4, 90, 90, 90)))
    out.append(('ortho-20x135x20', np.diag([20.0, 135.0, 20.0])))
    out.append(('mild-tilt', np.array([[5.0, 0, 0], [1.1, 4.0, 0], [-0.7, 0.9, 6.0]])))
    out.append(('strong-tilt', np.array([[3.0, 0, 0], [2.6, 3.0, 0], [-2.2, 1.9, 3.0]])))
    out.append(('hexagonal', chol_from_params(3.2, 3.2, 5.1, 90, 90, 120)))
    out.append(('triclinic', chol_from_params(3.7, 4.1, 5.9, 81, 97, 112)))
    out.append(('rotated-triclinic', chol_from_params(3.7, 4.1, 5.9, 81, 97, 112) @ rot([1, 2, 3], 37.0).T))
    out.append(('flat', np.array([[9.0, 0, 0], [4.0, 1.2, 0], [3.0, 0.5, 1.1]])))
    # orthogonal cells (all angles exactly 90) whose vectors are NOT along x, y, z: a shortcut for orthogonal cells must
    # not take the Cartesian axes for the cell directions
    out.append(('ortho-axes-permuted', np.array([[0.0, 0, 5.0], [3.0, 0, 0], [0, 4.0, 0]])))
    out.append(('ortho-quarter-turn-z', np.array([[0.0, 3.0, 0], [-4.5, 0, 0], [0, 0, 6.0]])))
    out.append(('ortho-rotated', np.diag([3.0, 4.5, 6.0]) @ rot([1, 2, 3], 37.0).T))
    out.append(('metre-scale-triclinic', 1e-10 * chol_from_params(3.7, 4.1, 5.9, 81, 97, 112)))     # lengths held in metres
    s = SEED % 8
    out.append(('seed-slice', chol_from_params(3.0 + 0.37 * s, 4.3 - 0.21 * s, 5.2 + 0.13 * s,
                                               70 + 3.1 * s, 95 - 2.3 * s, 105 + 1.7 * s)))
    return out


CELLS = _cells()
ORIGINS = [np.zeros(3), np.array([1.3, -2.7, 0.45])]


def origin_for(v, oi):
    """the origin menu scaled with the cell (a metre-scale cell gets a metre-scale origin)"""
    return ORIGINS[oi] * (np.abs(v).max() / 5.0 if np.abs(v).max() < 1e-3 else 1.0)
PBCS = list(itertools.product([False, True], repeat=3))
G5 = [0.0, 0.25, 0.5, 0.5 + 2.0 ** -34, 0.75, 1 - 2.0 ** -20]   # 0.5+2^-34: a near tie between two images (lengths differ by ~1e-10 L)
P1REL = np.array(list(itertools.product(G5, repeat=3)))
if THOROUGH:
    G7 = [0.0, 1 / 7, 2 / 7, 0.4999, 0.5001, 6 / 7, 1.0]
    P1REL = np.vstack([P1REL, np.array(list(itertools.product(G7, repeat=3)))])
P0REL = np.array([[0.31, 0.47, 0.62], [0.05, 0.93, 0.5], [0.98, 0.02, 0.97],      # interior
                  [0.0, 0.4, 0.6], [0.3, 1.0, 0.2], [0.7, 0.1, 0.0],               # faces
                  [0.0, 0.0, 0.5], [1.0, 0.3, 1.0],                                  # edges
                  [0.0, 0.0, 0.0], [1.0, 1.0, 1.0],                                  # corners
                  [1.7, -0.4, 2.3], [-0.2, 0.5, 0.5], [3.0, 3.0, -3.0]])            # outside
NINSIDE0 = 10
IMAGES = np.array(list(itertools.product([-1, 0, 1], repeat=3)))


def setup(case):
    name, v = CELLS[case['cell']]
    o = origin_for(v, case['origin'])
    box = am.Box(vects=v, origin=o)
    pbc = PBCS[case['pbc']]
    return v, o, box, pbc


def candidates(d, v, pbc):
    """(N,K,3) candidate separations with shifts -1,0,1 along periodic directions only."""
    allowed = IMAGES[np.all((IMAGES == 0) | np.asarray(pbc)[None, :], axis=1)]
    return d[:, None, :] + (allowed @ v)[None, :, :], allowed


def true_nearest_len(d, v, pbc):
    """exhaustive lattice search with proven finite radius; returns min length per row."""
    w = 1.0 / np.linalg.norm(np.linalg.inv(v).T, axis=1)
    dl = np.linalg.norm(d, axis=1).max()
    R = [int(np.ceil(dl / w[i])) + 1 if pbc[i] else 0 for i in range(3)]
    ns = np.array(list(itertools.product(*[range(-r, r + 1) for r in R])))
    c = d[:, None, :] + (ns @ v)[None, :, :]
    return np.sqrt((c ** 2).sum(axis=2).min(axis=1))


def judge(res, mag, d, v, pbc, inside_both, tag):
    """all clauses of the statement for one batch of pairs"""
    fails = []
    res = np.asarray(res)
    if res.shape != d.shape:
        return [Fail(key=tag + '-shape', msg='result shape %s for %d pairs' % (res.shape, len(d)))]
    cand, allowed = candidates(d, v, pbc)
    scale = np.abs(v).max() + np.abs(d).max()
    # membership: a lattice image along periodic directions only
    dist_to_cand = np.abs(cand - res[:, None, :]).max(axis=2).min(axis=1)
    bad = dist_to_cand > 1e-12 * scale
    if bad.any():
        i = int(np.argmax(bad))
        fails.append(Fail(key=tag + '-not-an-image', msg='result is not direct separation + allowed cell vectors',
                          d=d[i], result=res[i], n_bad=int(bad.sum())))
        return fails
    # never longer than any candidate
    l2 = (res ** 2).sum(axis=1)
    c2 = (cand ** 2).sum(axis=2).min(axis=1)
    bad = np.sqrt(l2) > np.sqrt(c2) + 1e-12 * scale   # component rounding is absolute (eps*|vects|)
    if bad.any():
        i = int(np.argmax(bad))
        fails.append(Fail(key=tag + '-not-shortest', msg='a 27-image candidate is shorter than the result',
                          d=d[i], result=res[i], shortest=float(np.sqrt(c2[i])), n_bad=int(bad.sum())))
    if mag is not None:
        mag = np.asarray(mag)
        if mag.shape != (len(d),) or np.any(np.abs(mag - np.sqrt(l2)) > 1e-12 * scale):
            fails.append(Fail(key=tag + '-dmag', msg='dmag differs from |dvect|'))
    # true nearest image
    ortho = np.allclose(v @ v.T, np.diag(np.diag(v @ v.T)), atol=1e-12)
    w = 1.0 / np.linalg.norm(np.linalg.inv(v).T, axis=1)
    wp = min([w[i] for i in range(3) if pbc[i]], default=np.inf)
    tn = np.full(len(d), np.inf)
    if inside_both.any():          # the lattice search is only needed (and only bounded) for pairs inside the cell
        tn[inside_both] = true_nearest_len(d[inside_both], v, pbc)
    must = inside_both & (ortho | (tn < 0.5 * wp * (1 - 1e-9)))
    bad = must & (np.abs(np.sqrt(l2) - tn) > 1e-12 * scale)
    if bad.any():
        i = int(np.argmax(bad))
        fails.append(Fail(key=tag + '-not-true-nearest', msg='result is not the true nearest image although guaranteed',
                          d=d[i], result=res[i], true_len=float(tn[i]), n_bad=int(bad.sum())))
    if tag in ('1:N', 'sys-index-slice', 'p0xp0', 'disp-final', 'disp-initial'):
        # distinct point pairs (the other shape variants repeat them); non-trivial = a non-zero image shift is needed
        chk.note('distinct-pairs', len(d))
        chk.note('distinct-pairs-needing-image-shift',
                 int(np.sum(np.linalg.norm(d, axis=1) - np.linalg.norm(cand, axis=2).min(axis=1) > 1e-9)))
    chk.note('pairs', len(d))
    chk.note('pairs-true-nearest-clause', int(must.sum()))
    return fails


@chk.clause('pairs')
def pairs(case):
    v, o, box, pbc = setup(case)
    p0 = P0REL[case['p0']] @ v + o
    P1 = P1REL @ v + o
    in0 = case['p0'] < NINSIDE0
    inside_both = np.full(len(P1), in0)
    d = P1 - p0
    fails = []
    # one-to-many
    fails += judge(am.dvect(p0, P1, box, pbc), am.dmag(p0, P1, box, pbc), d, v, pbc, inside_both, '1:N')
    # many-to-one
    fails += judge(am.dvect(P1, p0, box, pbc), am.dmag(P1, p0, box, pbc), -d, v, pbc, inside_both, 'N:1')
    # many-to-many
    P0 = np.repeat(p0[None, :], len(P1), axis=0)
    fails += judge(am.dvect(P0, P1, box, pbc), am.dmag(P0, P1, box, pbc), d, v, pbc, inside_both, 'N:N')
    # list / tuple input, (1,3) vs (N,3)
    fails += judge(am.dvect(p0.tolist(), P1.tolist(), box, list(pbc)), am.dmag([p0.tolist()], tuple(map(tuple, P1.tolist())), box, np.array(pbc)),
                   d, v, pbc, inside_both, 'list')
    # one-to-one for a sub-grid
    for k in range(0, len(P1), 7):
        r = am.dvect(p0, P1[k], box, pbc)
        m = am.dmag(p0, P1[k], box, pbc)
        if np.shape(r) != (1, 3):
            fails.append(Fail(key='1:1-shape', msg='one-to-one result shape %s' % (np.shape(r),)))
            break
        fails += judge(r, m, d[k:k + 1], v, pbc, inside_both[k:k + 1], '1:1')
    if THOROUGH and case['p0'] == 0:
        # all p0 x p0 pairs
        Q = P0REL @ v + o
        for i in range(len(Q)):
            ins = np.array([(i < NINSIDE0) and (j < NINSIDE0) for j in range(len(Q))])
            fails += judge(am.dvect(Q[i], Q, box, pbc), am.dmag(Q[i], Q, box, pbc), Q - Q[i], v, pbc, ins, 'p0xp0')
    return fails


@chk.clause('system')
def system(case):
    v, o, box, pbc = setup(case)
    pos = np.vstack([P0REL[:NINSIDE0], P1REL[[7, 33, 61, 88, 124, 215]]]) @ v + o
    n = len(pos)
    sys_ = am.System(atoms=am.Atoms(pos=pos), box=box, pbc=pbc)
    fails = []
    ins = np.ones(n, bool)
    for i in (0, 3, n - 1, -2):
        # index vs all (slice), index vs list of indices, index vs float positions
        d = pos - pos[i]
        fails += judge(sys_.dvect(i, slice(None)), sys_.dmag(i, slice(None)), d, v, pbc, ins, 'sys-index-slice')
        idx = [1, 4, 2, 9]
        fails += judge(sys_.dvect(idx, i), sys_.dmag(idx, i), pos[i] - pos[idx], v, pbc, ins[:4], 'sys-list-index')
        q = pos[[2, 5]] + 0.123
        fails += judge(sys_.dvect(i, q), sys_.dmag(i, q), q - pos[i], v, pbc, np.zeros(2, bool), 'sys-index-position')
        r1 = sys_.dvect(i, 5)
        m1 = sys_.dmag(i, 5)
        if np.shape(r1) != (3,) or np.ndim(m1) != 0:
            fails.append(Fail(key='sys-single-shape', msg='System.dvect(i,j) shape %s / dmag ndim %d' % (np.shape(r1), np.ndim(m1))))
        else:
            fails += judge(np.array([r1]), np.array([m1]), d[5:6], v, pbc, ins[:1], 'sys-single')
    # displacement between two systems whose boxes differ
    v2 = v * np.array([[1.04], [0.97], [1.02]])
    box2 = am.Box(vects=v2, origin=o + 0.1)
    pbc2 = PBCS[(case['pbc'] * 3 + 5) % 8]
    shift = np.array([[0.9, -0.3, 0.2]]) * np.linspace(-1.5, 1.5, n)[:, None]
    pos2 = pos + shift @ v
    sys2 = am.System(atoms=am.Atoms(pos=pos2), box=box2, pbc=pbc2)
    d = pos2 - pos
    none = np.zeros(n, bool)
    fails += judge(am.displacement(sys_, sys2), None, d, v2, pbc2, none, 'disp-final')
    fails += judge(am.displacement(sys_, sys2, box_reference='final'), None, d, v2, pbc2, none, 'disp-final')
    fails += judge(am.displacement(sys_, sys2, box_reference='initial'), None, d, v, pbc, none, 'disp-initial')
    r = am.displacement(sys_, sys2, box_reference=None)
    if not np.array_equal(r, d):
        fails.append(Fail(key='disp-none', msg='box_reference=None is not the plain difference'))
    try:
        am.displacement(sys_, sys2, box_reference='other')
        fails.append(Fail(key='disp-badref', msg='invalid box_reference accepted'))
    except ValueError:
        pass
    return fails



@chk.clause('livebox')
def livebox(case):
    """ONE Box / System object whose cell is changed in place between two calls: the second result must be a periodic
    separation in the CURRENT cell (every ordered pair of menu cells x pbc x way of changing the cell)."""
    (na, va), (nb, vb) = CELLS[case['a']], CELLS[case['b']]
    o = origin_for(va, case['origin'])
    pbc = PBCS[case['pbc']]
    fails = []
    rel0, REL = P0REL[2], P1REL[::3]
    for how in ('vects=', 'set', 'box_set', 'box_set-scale'):
        box = am.Box(vects=va, origin=o)
        p0, P1 = rel0 @ va + o, REL @ va + o
        if how.startswith('box_set'):
            sysm = am.System(atoms=am.Atoms(pos=np.vstack([p0, P1])), box=box, pbc=pbc)
            first = sysm.dvect(0, slice(1, None))
            fails += judge(first, sysm.dmag(0, slice(1, None)), P1 - p0, va, pbc, np.ones(len(P1), bool), 'live-first')
            sysm.box_set(vects=vb, origin=o, scale=(how == 'box_set-scale'))
            pos = np.array(sysm.atoms.pos)
            d = pos[1:] - pos[0]
            fails += judge(sysm.dvect(0, slice(1, None)), sysm.dmag(0, slice(1, None)), d, vb, pbc,
                           np.full(len(d), how == 'box_set-scale'), 'live-' + how)
            s2 = am.System(atoms=am.Atoms(pos=pos + 0.21 * vb[1]), box=sysm.box, pbc=pbc)
            fails += judge(am.displacement(sysm, s2), None, np.array(s2.atoms.pos) - np.array(sysm.atoms.pos), vb, pbc, np.zeros(len(pos), bool), 'live-disp-' + how)
        else:
            fails += judge(am.dvect(p0, P1, box, pbc), am.dmag(p0, P1, box, pbc), P1 - p0, va, pbc, np.ones(len(P1), bool), 'live-first')
            if how == 'vects=':
                box.vects = vb
            else:
                box.set(vects=vb, origin=o)
            q0, Q1 = rel0 @ vb + o, REL @ vb + o
            fails += judge(am.dvect(q0, Q1, box, pbc), am.dmag(q0, Q1, box, pbc), Q1 - q0, vb, pbc, np.ones(len(Q1), bool), 'live-' + how)
        if fails:
            break
    return fails

def gen():
    for ci in range(len(CELLS)):
        for oi in range(len(ORIGINS)):
            for pi in range(len(PBCS)):
                for p0 in range(len(P0REL)):
                    yield 'pairs', {'cell': ci, 'origin': oi, 'pbc': pi, 'p0': p0}
                yield 'system', {'cell': ci, 'origin': oi, 'pbc': pi}
    # one live Box / System whose cell is changed in place between calls: every ordered pair of cells
    for a in range(len(CELLS)):
        for b in range(len(CELLS)):
            if a != b:
                for pi in (7, 5, 2) if not THOROUGH else range(len(PBCS)):
                    yield 'livebox', {'a': a, 'b': b, 'origin': (a + b) % 2, 'pbc': pi}


if __name__ == '__main__':
    chk.run_cases(gen(), batch=8)
    cov = {'evaluations': chk.notes.get('pairs', 0),
           'distinct_nontrivial': chk.notes.get('distinct-pairs-needing-image-shift', 0),
           'calls_cases': sum(chk.counts.values())}
    sys.exit(chk.finish(cov))
