"""C01 - Box: one cell, many parameter sets; coordinate maps; reciprocal; inside.

Explicit-state search: a state is one live atomman.Box reached by a history of
definition operations (constructor, set, set_vectors, set_abc, set_lengths,
set_hi_los, vects=, origin=, observe).  The model state is (cell, origin,
cache-populated flag); BFS with dedup on the model state runs to the fixed
point (all reachable model states), the thorough tier additionally expands
every depth-2 history without dedup.
"""
import itertools
import sys
from fractions import Fraction

import numpy as np

from mc.common import Check, Explorer, Fail, SEED, THOROUGH, assert_overlay

am = assert_overlay()
Box = am.Box

chk = Check('C01', 'model_checking',
            'BFS over histories of Box definition operations (5 parameter sets x ctor/set (thorough: + the direct setters) '
            'x cell menu x origin menu, vects=, origin=, observe) on one live Box; a state is '
            'non-trivial/distinct by its model state (cell, orientation, origin, reciprocal-cache flag); '
            'every transition checks lengths/angles/volume, read-back through all parameter sets, '
            'rel<->cart inverses on a 27-point lattice in 3 shapes x list/array, reciprocal duality '
            'and inside/outside on a 512-point grid (margin 0.05 from faces, edges and corners, inside and outside) plus exact face points of power-of-two cells')
chk.assumptions = ['relative tolerance 1e-8*max|vects| on vectors (the vects setter itself zeroes entries '
                   'below 1e-9*max), angles 1e-7 degree',
                   'points for inside/outside keep a margin of 0.05 (relative) from faces except the exactly '
                   'representable face points of power-of-two orthogonal cells with integer origin']


def chol_from_params(a, b, c, al, be, ga):
    """independent: lower-triangular cell from the Gram matrix."""
    ca, cb, cg = np.cos(np.radians([al, be, ga]))
    G = np.array([[a * a, a * b * cg, a * c * cb],
                  [a * b * cg, b * b, b * c * ca],
                  [a * c * cb, b * c * ca, c * c]])
    return np.linalg.cholesky(G)


def rot(axis, deg):
    axis = np.asarray(axis, float) / np.linalg.norm(axis)
    t = np.radians(deg)
    K = np.array([[0, -axis[2], axis[1]], [axis[2], 0, -axis[0]], [-axis[1], axis[0], 0]])
    return np.eye(3) + np.sin(t) * K + (1 - np.cos(t)) * K @ K


def _cells():
    cells = []
    P = [(3.3, 3.3, 3.3, 90, 90, 90), (2.9, 2.9, 4.7, 90, 90, 90), (3.1, 4.2, 5.3, 90, 90, 90),
         (3.2, 3.2, 5.1, 90, 90, 120), (4.1, 4.1, 4.1, 75, 75, 75), (3.3, 4.4, 5.5, 90, 103, 90),
         (3.7, 4.1, 5.9, 81, 97, 112), (4.0, 4.0, 4.0, 20, 20, 20), (3.0, 4.0, 5.0, 160, 100, 92)]
    for p in P:
        cells.append(chol_from_params(*p))
    cells.append(np.array([[3.0, 0, 0], [2.6, 3.0, 0], [-2.2, 1.9, 3.0]]))      # |xy| > lx/2
    cells.append(np.array([[5.0, 0, 0], [-1.5, 4.0, 0], [0.7, -1.1, 3.0]]))     # negative tilts
    cells.append(1e-3 * chol_from_params(3.7, 4.1, 5.9, 81, 97, 112))            # tiny
    cells.append(1e4 * chol_from_params(3.7, 4.1, 5.9, 81, 97, 112))             # huge
    cells.append(1e-10 * chol_from_params(3.7, 4.1, 5.9, 81, 97, 112) @ rot([1, 2, 3], 37.0).T)   # lengths held in metres, not LAMMPS-normal
    cells.append(np.array([[4.0, 0, 0], [0, 2.0, 0], [0, 0, 8.0]]))             # power of two
    cells.append(np.eye(3))                                                      # default unit box
    cells.append(chol_from_params(3.7, 4.1, 5.9, 81, 97, 112) @ rot([1, 2, 3], 37.0).T)  # rotated, not LAMMPS
    # exactly one right angle (each of alpha, beta, gamma in turn) with the other two oblique: shortcuts for 90 degrees
    # must not assume the other angles are right too
    cells.append(chol_from_params(3.0, 4.0, 5.0, 90, 100, 70))
    cells.append(chol_from_params(3.0, 4.0, 5.0, 100, 90, 70))
    cells.append(chol_from_params(3.0, 4.0, 5.0, 100, 70, 90))
    # near-duplicates: a cell 1e-6 (relative) away from another menu cell / from the default unit box must be a different
    # state (re-defining a live Box with a minutely strained cell, the stated rounding bound being 1e-8)
    cells.append(chol_from_params(3.3, 3.3, 3.3, 90, 90, 90) * np.array([[1 + 2e-6], [1 - 3e-6], [1 + 1e-6]]))
    cells.append(np.diag([1.000004, 0.999997, 1.000002]))
    # integer lengths with fractional tilts: handed over as Python ints in the lengths / hi-lo parameter sets (params_of)
    cells.append(np.array([[10.0, 0, 0], [2.5, 12.0, 0], [-1.5, 0.75, 15.0]]))
    # seed-dependent generic slice (each again enumerated completely)
    s = SEED % 8
    cells.append(chol_from_params(3.0 + 0.37 * s, 4.3 - 0.21 * s, 5.2 + 0.13 * s,
                                  70 + 3.1 * s, 95 - 2.3 * s, 105 + 1.7 * s))
    if THOROUGH:
        cells.append(chol_from_params(2.5, 6.5, 3.5, 60, 60, 60))
        cells.append(chol_from_params(3, 3, 3, 90, 90, 60))
        cells.append(chol_from_params(3.7, 4.1, 5.9, 99, 83, 68) @ rot([3, -1, 2], 171.0).T)
    return cells


CELLS = _cells()
ORIGINS = [np.zeros(3), np.array([1.3, -2.7, 0.45]), np.array([-5.0, -6.0, -7.0])]
PSETS = ['vects', 'avect', 'abc', 'lengths', 'hilos']
FORMS = ['ctor', 'set', 'direct']


def our_is_norm(v):
    return v[0, 1] == 0 and v[0, 2] == 0 and v[1, 2] == 0 and v[0, 0] > 0 and v[1, 1] > 0 and v[2, 2] > 0


def params_of(v, o, pset):
    """parameters of cell v / origin o in one parameter set, computed independently of atomman."""
    if pset == 'vects':
        return dict(vects=v.copy(), origin=o.copy())
    if pset == 'avect':
        return dict(avect=v[0].copy(), bvect=v[1].copy(), cvect=v[2].copy(), origin=o.copy())
    if pset == 'abc':
        n = np.linalg.norm(v, axis=1)
        ang = lambda x, y: float(np.degrees(np.arccos(np.clip(x @ y / np.linalg.norm(x) / np.linalg.norm(y), -1, 1))))
        return dict(a=float(n[0]), b=float(n[1]), c=float(n[2]), alpha=ang(v[1], v[2]),
                    beta=ang(v[0], v[2]), gamma=ang(v[0], v[1]), origin=o.copy())
    L = v.copy() if our_is_norm(v) else np.linalg.cholesky(v @ v.T)
    if pset == 'lengths':
        return _intify(dict(lx=L[0, 0], ly=L[1, 1], lz=L[2, 2], xy=L[1, 0], xz=L[2, 0], yz=L[2, 1], origin=o.copy()))
    if pset == 'hilos':
        return _intify(dict(xlo=o[0], xhi=o[0] + L[0, 0], ylo=o[1], yhi=o[1] + L[1, 1], zlo=o[2], zhi=o[2] + L[2, 2],
                            xy=L[1, 0], xz=L[2, 0], yz=L[2, 1]))
    raise KeyError(pset)


def _intify(d):
    """scalar parameters whose value is a whole number are handed over as Python ints (lx=10, not lx=10.0): the same
    cell in another presentation"""
    out = {}
    for k, x in d.items():
        if np.ndim(x) == 0 and float(x).is_integer() and abs(x) < 1e9:
            out[k] = int(x)
        else:
            out[k] = x
    return out


def _garble(kw):
    """the caller re-uses the arrays it handed over: a Box must hold its own copy"""
    for x in kw.values():
        if isinstance(x, np.ndarray):
            x *= 1.5
            x += 0.25


def expected_after(v, pset):
    """vects the model expects after defining cell v through pset."""
    if pset in ('vects', 'avect'):
        return v.copy()
    return np.linalg.cholesky(v @ v.T)


DIRECT = dict(vects=None, avect='set_vectors', abc='set_abc', lengths='set_lengths', hilos='set_hi_los')


def all_ops():
    ops = []
    for ci, v in enumerate(CELLS):
        for pset in PSETS:
            for oi in range(len(ORIGINS)):
                for form in FORMS:
                    if pset == 'vects' and form == 'direct':
                        continue
                    if not THOROUGH and (form == 'direct' or (oi == 2 and ci >= 9)):
                        continue      # quick: `set` dispatches to the direct setters; third origin with the family cells only
                    ops.append({'op': 'define', 'form': form, 'pset': pset, 'cell': ci, 'origin': oi})
        if np.abs(v).max() >= 1e-6:     # (a metre-scale cell under an angstrom-scale origin cannot be held by lo/hi bounds)
            ops.append({'op': 'vects=', 'cell': ci})
    for oi in range(len(ORIGINS)):
        ops.append({'op': 'origin=', 'origin': oi})
        ops.append({'op': 'set_origin_only', 'origin': oi})
    ops.append({'op': 'observe'})
    ops.append({'op': 'set_default'})
    return ops


OPS = all_ops()


class St:
    pass


def _oscale(v):
    """the origin menu is in units of the cell for cells held in metres (an angstrom-sized origin with a 1e-10 cell cannot
    be represented by lo/hi bounds: hi - lo cancels) and in absolute units otherwise"""
    m = np.abs(v).max()
    return m / 5.0 if m < 1e-6 else 1.0


def build(hist):
    st = St()
    box = Box()
    mv, mo, cache = np.eye(3), np.zeros(3), False
    mkey = ('unit', 0)
    for op in hist:
        k = op['op']
        if k == 'define':
            v = CELLS[op['cell']]
            o = ORIGINS[op['origin']] * _oscale(v)
            kw = params_of(v, o, op['pset'])
            if op['form'] == 'ctor':
                box = Box(**kw)
            elif op['form'] == 'set':
                box.set(**kw)
            else:
                getattr(box, DIRECT[op['pset']])(**kw)
            _garble(kw)
            mv, mo, cache = expected_after(v, op['pset']), o.copy(), False
        elif k == 'vects=':
            kw = dict(v=CELLS[op['cell']].copy())
            box.vects = kw['v']
            _garble(kw)
            mv, cache = CELLS[op['cell']].copy(), False
        elif k == 'origin=':
            mo = ORIGINS[op['origin']] * _oscale(mv)
            kw = dict(o=mo.copy())
            box.origin = kw['o']
            _garble(kw)
        elif k == 'set_origin_only':
            mo = ORIGINS[op['origin']] * _oscale(mv)
            kw = dict(origin=mo.copy())
            box.set(**kw)
            _garble(kw)
        elif k == 'observe':
            # read every derived quantity once, so that whatever the implementation caches is populated mid-history
            box.reciprocal_vects
            box.volume
            box.planes
            box.inside(np.array([0.1, 0.2, 0.3]))
            box.outside(np.array([[0.1, 0.2, 0.3]]))
            box.position_cartesian_to_relative(np.array([0.1, 0.2, 0.3]))
            (box.a, box.b, box.c, box.alpha, box.beta, box.gamma)
            if box.is_lammps_norm():
                (box.lx, box.ly, box.lz, box.xy, box.xz, box.yz, box.xlo, box.xhi, box.ylo, box.yhi, box.zlo, box.zhi)
            cache = True
        elif k == 'set_default':
            box.set()
            mv, mo, cache = np.eye(3), np.zeros(3), False
    st.box, st.mv, st.mo, st.cache = box, mv, mo, cache
    return st


def canon(st):
    # model state: vectors rounded to 1e-6 relative, origin, cache flag
    s = np.abs(st.mv).max()
    return (tuple(np.round(st.mv.ravel() / s * 1e6).astype(np.int64).tolist()), float(s),
            tuple(st.mo.tolist()), bool(st.cache), _hidden_state(st.box))


def _hidden_state(box):
    """names of the instance attributes that currently hold something (not their values, which the model state
    already determines up to rounding): an implementation that grows a cache gets an additional attribute, hence
    additional states, all of which are explored."""
    return tuple(sorted(k for k, v in vars(box).items() if v is not None))


REL27 = np.array(list(itertools.product([-1.0, 0.37, 2.0], repeat=3)))
# relative coordinates: outside on both sides, interior, and close (0.05) to every face / edge / corner from inside and outside
GRID64 = np.array(list(itertools.product([-0.5, -0.05, 0.05, 0.25, 0.75, 0.95, 1.05, 1.5], repeat=3)))     # 512 points
FACE27 = np.array(list(itertools.product([0.0, 0.5, 1.0], repeat=3)))


def close(x, y, tol):
    return np.all(np.abs(np.asarray(x, float) - np.asarray(y, float)) <= tol)


def check(hist, st):
    fails = []
    box, mv, mo = st.box, st.mv, st.mo
    scale = np.abs(mv).max()
    tol = 1e-8 * scale

    def bad(key, msg, **kw):
        fails.append(Fail(key=key, msg=msg, **kw))

    v = box.vects
    o = box.origin
    # model agreement (state reached through the history == state built directly)
    if not close(v, mv, tol):
        bad('model-vects', 'vects differ from the cell defined last', observed=v, expected=mv)
        return fails
    if not close(o, mo, 1e-12 * (1 + np.abs(mo).max())):
        bad('model-origin', 'origin differs from the origin defined last', observed=o, expected=mo)
        return fails
    # (a) lengths, angles, volume are those of the vectors
    n = np.linalg.norm(v, axis=1)
    for name, val, exp in (('a', box.a, n[0]), ('b', box.b, n[1]), ('c', box.c, n[2])):
        if abs(val - exp) > 1e-12 * exp:
            bad('length-' + name, '%s=%r but |vect|=%r' % (name, val, exp))

    def ang(x, y):
        # robust angle via atan2
        return np.degrees(np.arctan2(np.linalg.norm(np.cross(x, y)), x @ y))
    for name, val, exp in (('alpha', box.alpha, ang(v[1], v[2])), ('beta', box.beta, ang(v[0], v[2])),
                           ('gamma', box.gamma, ang(v[0], v[1]))):
        if abs(val - exp) > 1e-7:
            bad('angle-' + name, '%s=%r but angle of vectors=%r' % (name, val, exp))
    vol = abs(np.linalg.det(v))
    if abs(box.volume - vol) > 1e-10 * vol:
        bad('volume', 'volume=%r det=%r' % (box.volume, vol))
    # (d) reciprocal duality - read after the history so that a stale cache is seen
    r = np.array(box.reciprocal_vects)
    if not close(r @ v.T, np.eye(3), 1e-9):
        bad('reciprocal', 'reciprocal_vects . vects^T != I', observed=(r @ v.T))
    # (b) read back through every parameter set and rebuild
    norm = our_is_norm(v)
    if bool(box.is_lammps_norm()) != bool(norm):
        bad('is_lammps_norm', 'is_lammps_norm()=%r for vects %r' % (box.is_lammps_norm(), v.tolist()))
    G = v @ v.T
    for pset in PSETS:
        try:
            if pset == 'vects':
                kw = dict(vects=box.vects, origin=box.origin)
            elif pset == 'avect':
                kw = dict(avect=box.avect, bvect=box.bvect, cvect=box.cvect, origin=box.origin)
            elif pset == 'abc':
                kw = dict(a=box.a, b=box.b, c=box.c, alpha=box.alpha, beta=box.beta, gamma=box.gamma,
                          origin=box.origin)
            elif pset == 'lengths':
                kw = dict(lx=box.lx, ly=box.ly, lz=box.lz, xy=box.xy, xz=box.xz, yz=box.yz, origin=box.origin)
            else:
                kw = dict(xlo=box.xlo, xhi=box.xhi, ylo=box.ylo, yhi=box.yhi, zlo=box.zlo, zhi=box.zhi,
                          xy=box.xy, xz=box.xz, yz=box.yz)
        except AssertionError:
            if norm or pset not in ('lengths', 'hilos'):
                bad('readback-refused-' + pset, 'getters of parameter set %s refused on a cell they apply to' % pset)
            continue
        if not norm and pset in ('lengths', 'hilos'):
            bad('readback-not-refused-' + pset, 'LAMMPS getters answered for a cell that is not LAMMPS-compatible')
            continue
        for how in ('ctor', 'set'):
            if how == 'ctor':
                b2 = Box(**kw)
            else:
                b2 = Box(vects=[[9, 0, 0], [1, 8, 0], [2, 3, 7]], origin=[3, 3, 3])
                b2.reciprocal_vects
                b2.set(**kw)
            v2, o2 = b2.vects, b2.origin
            if not close(o2, o, 1e-8 * scale + 1e-12 * np.abs(o).max()):
                bad('rebuild-origin-' + pset, 'origin after rebuilding through %s differs' % pset, observed=o2, expected=o)
            if norm or pset in ('vects', 'avect'):
                if not close(v2, v, tol):
                    bad('rebuild-vects-' + pset, 'vects after rebuilding through %s differ' % pset, observed=v2, expected=v)
            else:
                # same cell up to a rigid rotation
                if not close(v2 @ v2.T, G, 1e-8 * scale * scale):
                    bad('rebuild-gram-' + pset, 'Gram matrix after rebuilding through %s differs' % pset,
                        observed=v2 @ v2.T, expected=G)
                if not (np.linalg.det(v2) > 0) == (np.linalg.det(v) > 0):
                    bad('rebuild-handedness-' + pset, 'handedness changed')
                if not our_is_norm(v2):
                    bad('rebuild-norm-' + pset, 'cell rebuilt from lengths/angles is not LAMMPS-compatible')
            r2 = np.array(b2.reciprocal_vects)
            if not close(r2 @ v2.T, np.eye(3), 1e-9):
                bad('rebuild-reciprocal-' + pset, 'reciprocal of rebuilt box (set over a box with a warm cache) not dual')
    # (c) rel <-> cart inverses
    wmin = 1.0 / np.linalg.norm(np.linalg.inv(v).T, axis=1).max()   # smallest perpendicular width
    cart27 = REL27 @ v + o
    tol_rel = 1e-9 * (1 + (np.abs(o).max() + np.abs(cart27).max()) / wmin * 1e-3)
    tol_cart = 1e-9 * (scale + np.abs(o).max())
    shapes = {'(3,)': lambda A: A[5], '(27,3)': lambda A: A, '(3,9,3)': lambda A: A.reshape(3, 9, 3)}
    for sname, sh in shapes.items():
        for kind in ('array', 'list'):
            rel_in = sh(REL27)
            cart_ref = sh(cart27)
            # arrays are handed over as private copies and compared with the originals afterwards: a conversion must
            # not write into its argument
            rin = rel_in.copy() if kind == 'array' else rel_in.tolist()
            cin = cart_ref.copy() if kind == 'array' else cart_ref.tolist()
            try:
                c1 = box.position_relative_to_cartesian(rin)
            except Exception as e:
                bad('rel_to_cart-%s-input' % kind, 'position_relative_to_cartesian(%s %s) raised %s: %s' % (kind, sname, type(e).__name__, e))
                continue
            try:
                r1 = box.position_cartesian_to_relative(cin)
            except Exception as e:
                bad('cart_to_rel-%s-input' % kind, 'position_cartesian_to_relative(%s %s) raised %s: %s' % (kind, sname, type(e).__name__, e))
                continue
            if kind == 'array' and not (np.array_equal(rin, rel_in) and np.array_equal(cin, cart_ref)):
                bad('convert-modifies-argument', 'a position conversion wrote into the array it was given (shape %s)' % sname)
            if np.shape(c1) != np.shape(rel_in) or np.shape(r1) != np.shape(rel_in):
                bad('convert-shape', 'shape %s -> %s / %s' % (sname, np.shape(c1), np.shape(r1)))
                continue
            if not close(c1, cart_ref, tol_cart):
                bad('rel_to_cart-value', 'relative->Cartesian differs from rel.vects+origin', shape=sname)
            if not close(r1, rel_in, tol_rel):
                bad('cart_to_rel-value', 'Cartesian->relative does not invert', shape=sname,
                    worst=float(np.abs(np.asarray(r1) - rel_in).max()))
            back = box.position_cartesian_to_relative(np.asarray(c1))
            if not close(back, rel_in, tol_rel):
                bad('rel-cart-rel', 'rel->cart->rel is not the identity', shape=sname)
            back2 = box.position_relative_to_cartesian(np.asarray(r1))
            if not close(back2, cart_ref, tol_cart * 10):
                bad('cart-rel-cart', 'cart->rel->cart is not the identity', shape=sname)
    # (e) inside / outside
    exp_in = np.all((GRID64 >= 0) & (GRID64 <= 1), axis=1)
    cart64 = GRID64 @ v + o
    for inclusive in (True, False):
        got = np.asarray(box.inside(cart64, inclusive=inclusive))
        if got.shape != (len(GRID64),) or not np.array_equal(got, exp_in):
            bad('inside', 'inside(inclusive=%r) wrong for %d of 512 grid points' % (inclusive, int(np.sum(got != exp_in))),
                first=GRID64[np.argmax(got != exp_in)].tolist() if got.shape == (len(GRID64),) else None)
        gout = np.asarray(box.outside(cart64, inclusive=inclusive))
        if not np.array_equal(gout, ~exp_in):
            bad('outside', 'outside(inclusive=%r) is not the complement' % inclusive)
        got3 = np.asarray(box.inside(cart64.reshape(8, 64, 3), inclusive=inclusive))
        if got3.shape != (8, 64) or not np.array_equal(got3.ravel(), exp_in):
            bad('inside-shape', 'inside on a (8,64,3) array wrong')
        g1 = box.inside(cart64[219].tolist(), inclusive=inclusive)
        if bool(g1) != bool(exp_in[219]):
            bad('inside-single', 'inside on a single list point wrong')
    # exact boundary semantics where the arithmetic is exact
    diag = np.diag(np.diag(v))
    if np.array_equal(v, diag) and all(Fraction(float(x)).denominator == 1 for x in list(o) + list(np.diag(v))) \
            and all((int(x) & (int(x) - 1)) == 0 for x in np.diag(v)):
        cartF = FACE27 @ v + o
        on_face = np.any((FACE27 == 0) | (FACE27 == 1), axis=1)
        gi = np.asarray(box.inside(cartF, inclusive=True))
        ge = np.asarray(box.inside(cartF, inclusive=False))
        if not np.all(gi):
            bad('inside-inclusive-face', 'face points not inside with inclusive=True')
        if not np.array_equal(ge, ~on_face):
            bad('inside-exclusive-face', 'face points inside with inclusive=False')
        oi = np.asarray(box.outside(cartF, inclusive=True))
        oe = np.asarray(box.outside(cartF, inclusive=False))
        if not np.array_equal(oi, on_face):
            bad('outside-inclusive-face', 'outside(inclusive=True) must hold exactly for the face points')
        if np.any(oe):
            bad('outside-exclusive-face', 'outside(inclusive=False) true for a face/interior point')
        chk.note('exact-face-states')
    # returned arrays do not alias the state
    vv = box.vects
    vv[0, 0] += 1
    oo = box.origin
    oo[0] += 1
    if not np.array_equal(box.vects, v) or not np.array_equal(box.origin, o):
        bad('alias', 'vects/origin getters alias internal storage')
    return fails


def ops(st):
    if np.abs(st.mv).max() < 1e-6:
        # a metre-scale cell is left only through a full definition (which also sets an origin of the right scale);
        # `vects=` would keep the metre-scale origin under an angstrom-scale cell and multiply the states for no gain
        return [o for o in OPS if o['op'] != 'vects=']
    return OPS


if __name__ == '__main__':
    ex = Explorer(chk, 'history', build, ops, check, canon, max_depth=6 if not THOROUGH else 6)
    cov = ex.run()
    cov['fixed_point_reached'] = cov['max_depth_completed'] < 6
    if THOROUGH:
        # every history of depth 2, no dedup pruning
        ex2 = Explorer(chk, 'history', build, ops, check, canon, max_depth=2, expand_all=True)
        cov2 = ex2.run()
        cov['transitions'] += cov2['transitions']
        cov['traces_validated_against_impl'] += cov2['traces_validated_against_impl']
        cov['depth2_all_histories'] = cov2['transitions']
    cov['distinct_nontrivial'] = cov['states']
    cov['operation_instances'] = len(OPS)
    cov['cells'] = len(CELLS)
    sys.exit(chk.finish(cov))
