"""C14 - surface and stacking-fault cells cut the right plane, between atomic layers.

Bounded-exhaustive enumeration.

* ``basis``: every (hkl) of [-B,B]^3 \\ 0 (B=3 quick, 4 thorough) x hand-built cells of
  all seven crystal families and the centred settings f, i, a, b, c, t1, t2 x the three
  cut vectors, plus every (hkil) of [-B,B]^4 with h+k+i=0 for the hexagonal cell.  The
  returned vectors are judged in exact integer / Fraction arithmetic (integer lattice
  vectors, zone law for exactly the two in-plane slots, right-handed determinant) and the
  returned normal against h a* + k b* + l c* of the conventional cell.
* ``slab``: every plane of the |index| <= 2 subset x the same cells carrying 1-3 basis
  atoms x three cut vectors (quick: all three cuts for |index| <= 1; planes with an index
  of 2 only with cut c and only the member of each pair (hkl), (-h-k-l) whose first
  non-zero index is positive - both signs of every plane are judged by ``basis``):
  FreeSurface (every offered shift index x slab options) and StackingFault (every shift
  index x every fault position between two atomic layers x a menu of fault displacements;
  quick: every position for the first and the last shift index, the lowest, middle and
  highest gap for the other shift indices).  Oracles: an independent layer model of the crystal in
  Fractions (number of terminations, gap widths), mapping every atom of the slab back to
  a lattice site of the unit cell, exact displacement bookkeeping for the fault.
* ``refusal``: the documented refusals, each of which must be raised.

Nothing is sampled.  VERIF_SEED appends one pre-vetted extra cell (table of 5) that is
enumerated like every other cell.
"""
import itertools
import math
import sys
import warnings
from fractions import Fraction as Fr

import numpy as np

from mc.common import Check, Fail, SEED, THOROUGH, assert_overlay

am = assert_overlay()
from atomman.defect import FreeSurface, StackingFault, free_surface_basis  # noqa: E402
from atomman.tools import miller  # noqa: E402

warnings.filterwarnings('ignore')

chk = Check('C14', 'exploration',
            'basis: all (hkl) in [-B,B]^3\\0 (B=3 quick / 4 thorough) x cells (7 primitive families + centred '
            'settings f,i,a,b,c,t1,t2 + 1 seed cell) x cut vector a/b/c (quick: centred cells use all three cuts '
            'only for |index|<=2, cut c beyond), all (hkil) in [-B,B]^4 for the hexagonal cell (valid ones judged, '
            'invalid ones must be refused); slab: all planes with |index|<=2 x cells with atoms x 3 cuts (quick: 3 cuts for '
            '|index|<=1, planes containing an index 2 with cut c and first non-zero index > 0 only); for each '
            'accepted orientation every offered shift index x slab options (quick: plain + one option tuple rotating '
            'through the full menu, thorough: full menu) and, for StackingFault, every shift index x every fault '
            'position between consecutive atomic layers (quick: every position for the first and last shift index, '
            'lowest/middle/highest gap for the others) x fault displacement (quick: rotating through the menu, '
            'thorough: full menu for the plain slab).  A search failure (AssertionError) with the default maxindex '
            'is a failure.  Thorough builds a FreeSurface and a StackingFault object per orientation, quick one StackingFault '
            'object (a FreeSurface subclass) for both parts.  A case is one call of free_surface_basis or one '
            '(cell,plane,cut) orientation with all its slabs/faults; non-trivial = accepted orientation whose plane '
            'has at least two non-zero indices (the lcm construction and both searches do real work)')
chk.assumptions = [
    'unit cells are built by hand; centred cells are the primitive cells P2C[setting] @ conventional cell (own table, '
    'verified to be a right-handed primitive basis of the centred lattice and to agree with the documented convention)',
    'integrality / zone law / handedness decided in exact integer and Fraction arithmetic; directions compared to 1e-9, '
    'positions to 1e-8 (relative coordinates); cut faces to 1e-6 A (DESIGN T); basis atoms have rational coordinates '
    '(denominators 12 and 1000) so distinct atomic layers are >= 1e-4 A apart and coincident ones coincide exactly',
    'a refusal "box ... cannot have x/y/z component" is accepted when the own geometry test says the in-plane vectors '
    'have a cut-axis component > 1e-6 (relative); it is a failure when that component is < 1e-12',
    'atoms below the fault are compared modulo the periodic in-plane cell vectors (the final wrap may re-image an atom '
    'sitting on a cell face), to 1e-9 A, not bit-wise',
]

# ----------------------------------------------------------------------------------------------
# own crystallography


def _fr(x):
    return x if isinstance(x, Fr) else Fr(x)


H = Fr(1, 2)
T3 = Fr(1, 3)
# rows = primitive cell vectors in conventional coordinates
P2C = {
    'p': [[1, 0, 0], [0, 1, 0], [0, 0, 1]],
    'a': [[1, 0, 0], [0, H, H], [0, -H, H]],
    'b': [[H, 0, H], [0, 1, 0], [-H, 0, H]],
    'c': [[H, H, 0], [-H, H, 0], [0, 0, 1]],
    'i': [[H, H, H], [-H, H, -H], [-H, -H, H]],
    'f': [[H, H, 0], [0, H, H], [H, 0, H]],
    't1': [[2 * T3, T3, T3], [-T3, T3, T3], [-T3, -2 * T3, T3]],
    't2': [[-2 * T3, -T3, T3], [T3, -T3, T3], [T3, 2 * T3, T3]],
}
P2C = {k: [[_fr(x) for x in r] for r in v] for k, v in P2C.items()}
CENTRING = {
    'p': [], 'a': [(0, H, H)], 'b': [(H, 0, H)], 'c': [(H, H, 0)], 'i': [(H, H, H)],
    'f': [(0, H, H), (H, 0, H), (H, H, 0)],
    't1': [(2 * T3, T3, T3), (T3, 2 * T3, 2 * T3)],      # obverse
    't2': [(T3, 2 * T3, T3), (2 * T3, T3, 2 * T3)],      # reverse
}


def fdet(m):
    return (m[0][0] * (m[1][1] * m[2][2] - m[1][2] * m[2][1])
            - m[0][1] * (m[1][0] * m[2][2] - m[1][2] * m[2][0])
            + m[0][2] * (m[1][0] * m[2][1] - m[1][1] * m[2][0]))


def finv(m):
    d = fdet(m)
    c = [[None] * 3 for _ in range(3)]
    for i in range(3):
        for j in range(3):
            a, b = [k for k in range(3) if k != i], [k for k in range(3) if k != j]
            minor = m[a[0]][b[0]] * m[a[1]][b[1]] - m[a[0]][b[1]] * m[a[1]][b[0]]
            c[j][i] = Fr((-1) ** (i + j)) * minor / d
    return c


C2P = {k: finv(v) for k, v in P2C.items()}     # rows = conventional vectors in primitive coordinates


def _selfcheck_tables():
    """the own tables describe right-handed primitive bases of the centred lattices"""
    for s, m in P2C.items():
        assert fdet(m) == Fr(1, 1 + len(CENTRING[s])), s
        inv = C2P[s]
        assert all(x.denominator == 1 for r in inv for x in r), s           # conventional vectors are lattice vectors
        for t in CENTRING[s]:                                                # centring translations are lattice vectors
            coef = [sum(_fr(t[k]) * inv[k][j] for k in range(3)) for j in range(3)]
            assert all(x.denominator == 1 for x in coef), (s, t)


_selfcheck_tables()


def cosd(x):
    table = {90: 0.0, 60: 0.5, 120: -0.5, 0: 1.0, 180: -1.0}
    return table[x] if x in table else math.cos(math.radians(x))


def vects_from_cos(a, b, c, ca, cb, cg):
    """standard orientation: a along x, b in the xy plane"""
    sg = math.sqrt(1 - cg * cg)
    cx, cy = c * cb, c * (ca - cb * cg) / sg
    return np.array([[a, 0, 0], [b * cg, b * sg, 0], [cx, cy, math.sqrt(c * c - cx * cx - cy * cy)]])


def std_orient(v):
    l = np.linalg.norm(v, axis=1)
    cs = [v[1] @ v[2] / l[1] / l[2], v[0] @ v[2] / l[0] / l[2], v[0] @ v[1] / l[0] / l[1]]
    cs = [0.0 if abs(x) < 1e-14 else (-0.5 if abs(x + 0.5) < 1e-14 else x) for x in cs]
    return vects_from_cos(l[0], l[1], l[2], *cs)


def rotmat(axis, deg):
    axis = np.asarray(axis, float) / np.linalg.norm(axis)
    t = math.radians(deg)
    k = np.array([[0, -axis[2], axis[1]], [axis[2], 0, -axis[0]], [-axis[1], axis[0], 0]])
    return np.eye(3) + math.sin(t) * k + (1 - math.cos(t)) * k @ k


def F(*xs):
    return tuple(Fr(x) for x in xs)


B1 = [(1, F(0, 0, 0)), (1, F('1/2', '1/2', '1/2')), (2, F('1/4', '1/4', '3/4'))]
B2 = [(1, F(0, 0, 0)), (2, F('1/3', '2/3', '1/2'))]
B3 = [(1, F(0, 0, 0)), (2, F('137/1000', '291/1000', '413/1000')), (1, F('1/2', 0, '1/4'))]
BH = [(1, F('1/3', '2/3', '1/4')), (1, F('2/3', '1/3', '3/4')), (2, F(0, 0, 0))]
BD = [(1, F(0, 0, 0)), (2, F('1/4', '1/4', '1/4'))]
BI = [(1, F(0, 0, 0)), (2, F('1/4', '1/2', '3/4'))]
BS = [(1, F(0, 0, 0)), (2, F('1/3', '1/4', '1/2'))]
BG = [(1, F(0, 0, 0)), (2, F('137/1000', '291/1000', '413/1000'))]
B0 = [(1, F('1/8', '1/8', '1/8'))]


class Cell:
    def __init__(self, name, conv, setting, basis, origin=(0, 0, 0), orient='std', explicit_p=False):
        self.name, self.setting, self.basis = name, setting, basis
        a, b, c, al, be, ga = conv
        vc = vects_from_cos(a, b, c, cosd(al), cosd(be), cosd(ga))
        vp = np.array([[float(x) for x in r] for r in P2C[setting]]) @ vc
        if orient == 'std':
            vp = std_orient(vp)
        elif orient == 'rot':
            vp = vp @ rotmat([1, 2, 3], 37.0).T
        assert np.linalg.det(vp) > 0
        self.vp = vp
        self.vc = np.array([[float(x) for x in r] for r in C2P[setting]]) @ vp    # conventional cell, same frame
        self.recip_c = np.linalg.inv(self.vc).T                                    # rows a*, b*, c*
        self.origin = np.array(origin, float)
        self.box = am.Box(vects=vp.copy(), origin=self.origin.copy())
        self.hex = setting == 'p' and bool(self.box.ishexagonal())
        # what is passed as conventional_setting: None / 'p' for primitive cells, the letter otherwise
        self.setting_arg = setting if (setting != 'p' or explicit_p) else None
        self.centred = setting != 'p'
        self.types = [t for t, _ in basis]
        self.xf = [x for _, x in basis]
        self.x = np.array([[float(q) for q in x] for x in self.xf])
        self.symbols = ['Aa', 'Bb'][:max(self.types)]

    def ucell(self):
        return am.System(atoms=am.Atoms(atype=list(self.types), pos=self.x.copy()), box=am.Box(vects=self.vp.copy(), origin=self.origin.copy()),
                         scale=True, symbols=list(self.symbols))


def _cells():
    c = [
        Cell('cubic-P', (4.05, 4.05, 4.05, 90, 90, 90), 'p', B1),
        Cell('tetragonal-P', (3.1, 3.1, 5.3, 90, 90, 90), 'p', B3, explicit_p=True),
        Cell('orthorhombic-P', (3.1, 4.3, 5.9, 90, 90, 90), 'p', B1, origin=(0.4, -0.7, 1.3)),
        Cell('hexagonal-P', (3.2, 3.2, 5.1, 90, 90, 120), 'p', BH),
        Cell('rhombohedral-P', (4.1, 4.1, 4.1, 71, 71, 71), 'p', B2, explicit_p=True),
        Cell('monoclinic-P', (3.3, 4.7, 5.9, 90, 103, 90), 'p', B3),
        Cell('triclinic-P', (3.7, 4.1, 5.9, 81, 97, 112), 'p', B3, origin=(-1.1, 0.6, 2.2)),
        Cell('cubic-F', (3.6, 3.6, 3.6, 90, 90, 90), 'f', BD),
        Cell('cubic-I', (2.9, 2.9, 2.9, 90, 90, 90), 'i', BI),
        Cell('orthorhombic-A', (3.1, 4.3, 5.9, 90, 90, 90), 'a', BS),
        Cell('orthorhombic-B', (3.1, 4.3, 5.9, 90, 90, 90), 'b', BS),
        Cell('orthorhombic-C', (3.1, 4.3, 5.9, 90, 90, 90), 'c', BS),
        Cell('tetragonal-I', (3.3, 3.3, 5.1, 90, 90, 90), 'i', BG),
        Cell('orthorhombic-F', (3.9, 4.6, 5.7, 90, 90, 90), 'f', BG),
        Cell('trigonal-t1', (3.4, 3.4, 8.3, 90, 90, 120), 't1', BD),
        Cell('trigonal-t2', (3.4, 3.4, 8.3, 90, 90, 120), 't2', BD),
        # the same kind of cell with its lengths held in metres (SI working units): nothing in the statement depends on the
        # unit of length
        Cell('orthorhombic-P-metres', (3.1e-10, 4.3e-10, 5.9e-10, 90, 90, 90), 'p', B1),
        Cell('cubic-F-metres', (3.6e-10, 3.6e-10, 3.6e-10, 90, 90, 90), 'f', BD),
    ]
    seeds = [
        lambda: Cell('seed0-rhombohedral-obtuse', (4.0, 4.0, 4.0, 100, 100, 100), 'p', B2),
        lambda: Cell('seed1-triclinic-skew', (3.3, 5.1, 4.4, 105, 99, 118), 'p', B0, origin=(0.2, 0.3, -0.4)),
        lambda: Cell('seed2-monoclinic-rotated', (4.4, 3.2, 5.0, 90, 112, 90), 'p', BS, origin=(1.0, -2.0, 0.5), orient='rot'),
        lambda: Cell('seed3-cubic-F-raw', (4.2, 4.2, 4.2, 90, 90, 90), 'f', B0, orient='raw'),
        lambda: Cell('seed4-hexagonal-rotated', (2.9, 2.9, 4.7, 90, 90, 120), 'p', B2, orient='rot'),
    ]
    c.append(seeds[SEED % len(seeds)]())
    return c


CELLS = _cells()
CUTS = 'abc'
BOUND = 4 if THOROUGH else 3


def frac_gcd(vals):
    vals = [_fr(v) for v in vals]
    den = 1
    for v in vals:
        den = den * v.denominator // math.gcd(den, v.denominator)
    g = 0
    for v in vals:
        g = math.gcd(g, int(v * den))
    return Fr(g, den)


def plane_prim(cell, hc):
    """plane indices w.r.t. the primitive cell (may be fractional): h_p[i] = (primitive vector i) . (h a*+k b*+l c*)"""
    m = P2C[cell.setting]
    return [sum(m[i][j] * hc[j] for j in range(3)) for i in range(3)]


def idet(u):
    return (u[0][0] * (u[1][1] * u[2][2] - u[1][2] * u[2][1])
            - u[0][1] * (u[1][0] * u[2][2] - u[1][2] * u[2][0])
            + u[0][2] * (u[1][0] * u[2][1] - u[1][1] * u[2][0]))


def to_prim_int(cell, vec, conventional):
    """one reported crystal vector (3 or 4 indices; conventional or primitive) -> (ints w.r.t. the primitive cell | None, why)"""
    v = np.asarray(vec, float)
    if v.shape == (4,):
        if abs(v[0] + v[1] + v[2]) > 1e-9:
            return None, 'u+v+t != 0'
        v = np.array([2 * v[0] + v[1], 2 * v[1] + v[0], v[3]])
    if v.shape != (3,):
        return None, 'shape %s' % (v.shape,)
    if conventional:
        c2p = np.array([[float(x) for x in r] for r in C2P[cell.setting]])
        v = v @ c2p
    r = np.rint(v)
    if np.abs(v - r).max() > 1e-9:
        return None, 'not a lattice vector: %s' % (v,)
    return [int(x) for x in r], None


def judge_uvws(cell, hc, uvws, cut, four, conventional, tag):
    """integer, zone law for exactly the two in-plane slots, right-handed.  returns (fails, U or None)"""
    arr = np.asarray(uvws, float)
    want = (3, 4) if four else (3, 3)
    if arr.shape != want:
        return [Fail(key=tag + 'uvws-shape', msg='uvws shape %s, expected %s' % (arr.shape, want))], None
    U = []
    for i in range(3):
        u, why = to_prim_int(cell, arr[i], conventional)
        if u is None:
            return [Fail(key=tag + 'uvws-not-integer', msg='vector %d is not an integer lattice vector (%s)' % (i, why), uvws=arr, hkl=hc)], None
        U.append(u)
    fails = []
    hp = plane_prim(cell, hc)
    dots = [sum(hp[j] * U[i][j] for j in range(3)) for i in range(3)]
    ci = CUTS.index(cut)
    for i in range(3):
        if i == ci and dots[i] == 0:
            fails.append(Fail(key=tag + 'cut-vector-in-plane', msg='the vector in the cut slot satisfies the zone law (lies in the plane)', uvws=arr, hkl=hc))
        if i != ci and dots[i] != 0:
            fails.append(Fail(key=tag + 'zone-law', msg='in-plane slot %d has h.u = %s != 0' % (i, dots[i]), uvws=arr, hkl=hc))
    d = idet(U)
    if d <= 0:
        fails.append(Fail(key=tag + 'not-right-handed', msg='det(uvws) = %d' % d, uvws=arr, hkl=hc))
    return fails, U


def judge_normal(cell, hc, normal, tag):
    n = np.asarray(normal, float)
    if n.shape != (3,) or not np.all(np.isfinite(n)) or np.linalg.norm(n) == 0:
        return [Fail(key=tag + 'normal-shape', msg='plane normal %r' % (normal,))]
    g = np.asarray(hc, float) @ cell.recip_c
    dev = np.linalg.norm(n / np.linalg.norm(n) - g / np.linalg.norm(g))
    if dev > 1e-9:
        key = 'normal-antiparallel' if dev > 2 - 1e-9 else 'normal-direction'
        return [Fail(key=tag + key, msg='reported normal is not the reciprocal-lattice direction h a*+k b*+l c* (|dn|=%.3g)' % dev,
                     normal=n, expected_direction=g, hkl=hc)]
    return []


def hkl3(h):
    return [int(h[0]), int(h[1]), int(h[-1])]


def search_failed(e, h, tag=''):
    """'Failed to find ... vector' with the default maxindex is a failure, not a refusal: the default search range
    max(|hkl|, |lcm in-plane vectors|) always contains the two non-parallel in-plane lattice vectors of the lcm
    construction (so a shortest in-plane vector, and a non-parallel right-handed partner +-v of it, exist in range) and a
    unit vector +-e_i that is off the plane on its positive side; the quantifier admits only the refusal 'orientation
    incompatible with the cut vector'"""
    which = 'first' if 'first' in str(e) else ('second' if 'second' in str(e) else 'normal')
    return Fail(key=tag + 'search-failed-%s-vector' % which, hkl=h,
                msg='AssertionError with the default maxindex although in-plane lattice vectors exist inside the search range: %s' % e)


# ----------------------------------------------------------------------------------------------
# clause: free_surface_basis

@chk.clause('basis')
def basis(case):
    cell = CELLS[case['cell']]
    h = case['hkl']
    cut = case['cut']
    kw = dict(box=cell.box, cutboxvector=cut, return_planenormal=True)
    if cell.setting_arg is not None:
        kw['conventional_setting'] = cell.setting_arg
    four = len(h) == 4
    if 'rh' in case:
        kw['return_hexagonal'] = case['rh']
        four = case['rh']
    try:
        uvws, normal = free_surface_basis(np.array(h) if case.get('arr') else list(h), **kw)
    except AssertionError as e:
        if 'Failed to find' in str(e):
            return [search_failed(e, h)]
        raise
    except ValueError as e:
        return [Fail(key='valid-plane-refused', msg='ValueError for a valid plane: %s' % e, hkl=h)]
    hc = hkl3(h)
    fails, U = judge_uvws(cell, hc, uvws, cut, four, False, '')
    fails += judge_normal(cell, hc, normal, '')
    chk.note('basis-accepted')
    if sum(1 for x in hc if x) >= 2:
        chk.note('basis-nontrivial')
    if U is not None and not fails:
        # evidence only: is the out-of-plane vector on the +normal side, is the in-plane pair a basis of the plane lattice
        hp = plane_prim(cell, hc)
        if sum(hp[j] * U[CUTS.index(cut)][j] for j in range(3)) < 0:
            chk.note('basis-out-of-plane-vector-on-negative-side')
    return fails


# ----------------------------------------------------------------------------------------------
# clause: FreeSurface / StackingFault with atoms

SIZEM = ['111', '213', 'neg']
MINW = [None, 11.0]
EVEN = [False, True]
VAC = [None, 0.0, 7.5]
OPTS = list(itertools.product(SIZEM, MINW, EVEN, VAC))       # 36; OPTS[0] is the plain slab
FOPTS = [('111', None, False, None), ('213', None, False, None), ('111', None, True, 7.5), ('neg', None, False, 0.0)]
TH = Fr(1, 3)
DISP = ([('a', a1, a2, None) for a1 in (0, TH, H, 1) for a2 in (0, TH, H, 1)]
        + [('a', TH, None, 0.4), ('a', None, None, 0.25), ('a', None, H, None), ('fs', 0.3, -0.2, 0.0), ('fs', -0.45, 0.15, 0.35), ('none',),
           # normal components larger than the gap between the top layer and the (non-periodic) top face of the slab
           ('a', None, TH, 2.5), ('fs', 0.1, 0.2, 3.1)])

REFUSE_MSG = {'a': "box bvect and cvect cannot have x component for cutboxvector='a'",
              'b': "box avect and cvect cannot have y component for cutboxvector='b'",
              'c': "box avect and bvect cannot have z component for cutboxvector='c'"}


def sizemults_for(tag, ci):
    if tag == '111':
        return [1, 1, 1]
    if tag == '213':
        return [2, 1, 3]
    inp = [k for k in range(3) if k != ci]
    m = [None] * 3
    m[ci] = -2
    m[inp[0]] = (-1, 1)
    m[inp[1]] = 1
    return m


def lohi(m):
    if isinstance(m, tuple):
        return m
    return (0, m) if m > 0 else (m, 0)


class Geometry:
    """everything the oracle knows about one (cell, plane, cut) orientation, from the reported uvws only"""

    def __init__(self, cell, hc, U, ci):
        self.cell, self.hc, self.U, self.ci = cell, hc, U, ci
        hp = plane_prim(cell, hc)
        self.hp = hp
        g = frac_gcd(hp)
        self.g = g
        self.gnorm = float(np.linalg.norm(np.asarray(hc, float) @ cell.recip_c))
        self.dplane = float(g) / self.gnorm
        per = sum(hp[j] * U[ci][j] for j in range(3)) / g
        assert per.denominator == 1 and per != 0
        self.periods = abs(int(per))
        self.rcw = self.periods * self.dplane
        vals = sorted(set((sum(hp[j] * x[j] for j in range(3))) % g for x in cell.xf))
        self.layers_per_period = len(vals)
        gaps = [vals[k + 1] - vals[k] for k in range(len(vals) - 1)] + [vals[0] + g - vals[-1]]
        self.gaps = sorted(float(x) / self.gnorm for x in gaps)
        self.mingap = self.gaps[0]
        self.nshift = self.layers_per_period * self.periods
        self.M = np.asarray(U, float) @ cell.vp
        self.natoms_rcell = len(cell.xf) * idet(U)


def compat(geo):
    """relative cut-axis component of the in-plane cell vectors in the normalised (LAMMPS) orientation"""
    A, B, C = geo.M
    ci = geo.ci
    if ci == 2:
        return 0.0
    xh = A / np.linalg.norm(A)
    if ci == 0:
        return max(abs(B @ xh), abs(C @ xh)) / np.abs(geo.M).max()
    yv = B - (B @ xh) * xh
    yh = yv / np.linalg.norm(yv)
    return abs(C @ yh) / np.abs(geo.M).max()


def check_rcell(fs, geo, tag):
    """rcell box = proper rotation of uvws @ ucell vectors; cut axis is the plane normal; returns (fails, Tt)"""
    rv = fs.rcell.box.vects
    Tt = np.linalg.inv(geo.M) @ rv          # row vectors: cart_rcell = cart_ucell @ Tt
    fails = []
    scale = np.abs(geo.M).max()
    if np.abs(Tt @ Tt.T - np.eye(3)).max() > 1e-8 or np.linalg.det(Tt) < 0:
        return [Fail(key=tag + 'rcell-not-rotation-of-uvws', msg='rcell box vectors are not a proper rotation of uvws @ ucell vectors',
                     rcell_vects=rv, expected_unrotated=geo.M)], None
    ci = geo.ci
    e = np.zeros(3)
    e[ci] = 1.0
    for k in range(3):
        if k != ci and abs(rv[k, ci]) > 1e-9 * scale:
            fails.append(Fail(key=tag + 'in-plane-vector-leaves-cut-plane', msg='in-plane cell vector %d has a component along the cut axis' % k, rcell_vects=rv))
    ghat = (np.asarray(geo.hc, float) @ geo.cell.recip_c) @ Tt
    ghat /= np.linalg.norm(ghat)
    if np.linalg.norm(np.cross(ghat, e)) > 1e-8:
        fails.append(Fail(key=tag + 'cut-axis-not-plane-normal', msg='the Cartesian cut axis is not normal to (hkl)', normal_in_rcell_frame=ghat))
    if abs(fs.rcellwidth - geo.rcw) > 1e-9 * scale:
        fails.append(Fail(key=tag + 'rcellwidth', msg='rcellwidth %.12g, expected %.12g = %d lattice-plane spacings' % (fs.rcellwidth, geo.rcw, geo.periods)))
    if fs.rcell.natoms != geo.natoms_rcell:
        fails.append(Fail(key=tag + 'rcell-natoms', msg='rcell has %d atoms, expected %d' % (fs.rcell.natoms, geo.natoms_rcell)))
    tr = np.asarray(fs.transform)
    if tr.shape != (3, 3) or np.abs(tr - Tt.T).max() > 1e-8:
        fails.append(Fail(key=tag + 'transform', msg='reported transform is not the rotation ucell -> rcell', transform=tr, expected=Tt.T))
    return fails, Tt


def expected_mults(tag, ci, minwidth, even, rcw):
    m = sizemults_for(tag, ci)
    mc = m[ci]
    if minwidth is not None:
        ratio = minwidth / rcw
        if abs(ratio - round(ratio)) < 1e-6:
            return None
        mult = int(math.ceil(ratio))
        if mult > abs(mc):
            mc = (1 if mc > 0 else -1) * mult
    if even and mc % 2 == 1:
        mc += 1 if mc > 0 else -1
    m[ci] = mc
    return m


def site_map(cell, Tt, pos, atype, tag):
    """every atom sits on a site of the unit-cell crystal (up to one rigid translation of the whole crystal) with the
    right type; all sites distinct"""
    x = (pos @ Tt.T) @ np.linalg.inv(cell.vp)
    atype = np.asarray(atype)
    tmatch = atype[:, None] == np.asarray(cell.types)[None, :]
    best = None
    for j0 in range(len(cell.types)):
        if cell.types[j0] != atype[0]:
            continue
        d = (x - (x[0] - cell.x[j0]))[:, None, :] - cell.x[None, :, :]
        r = np.abs(d - np.rint(d)).max(axis=2)                      # (N, J)
        ok = r < 1e-8
        hit = ok & tmatch
        nh = hit.sum(axis=1)
        nbad = int(np.sum(nh != 1))
        if best is None or nbad < best[0]:
            best = (nbad, d, r, ok, hit, nh)
        if nbad == 0:
            break
    if best is None:
        return [Fail(key=tag + 'atom-type-changed', msg='atom 0 has a type (%d) that the unit cell does not contain' % atype[0])]
    nbad, d, r, ok, hit, nh = best
    if nbad:
        i = int(np.argmax(nh != 1))
        if ok[i].any():
            return [Fail(key=tag + 'atom-type-changed', msg='atom %d sits on a site of another type' % i, atype=int(atype[i]), n_bad=nbad)]
        return [Fail(key=tag + 'atom-off-lattice', msg='atom %d is not on a site of the unit-cell crystal (modulo lattice vectors and one rigid translation)' % i,
                     min_dev=float(r[i].min()), n_bad=nbad)]
    j = hit.argmax(axis=1)
    t = np.rint(d[np.arange(len(x)), j]).astype(int)
    ids = set(map(tuple, np.column_stack([j, t]).tolist()))
    if len(ids) != len(x):
        return [Fail(key=tag + 'duplicate-atoms', msg='%d atoms occupy %d distinct crystal sites' % (len(x), len(ids)))]
    return []


def check_slab(fs, cell, geo, Tt, system, shiftidx, opt, tag):
    """one free-surface system; returns (fails, cut gap width or None)"""
    smtag, minwidth, even, vac = opt
    ci = geo.ci
    m = expected_mults(smtag, ci, minwidth, even, geo.rcw)
    fails = []
    rv = fs.rcell.box.vects
    o_r = fs.rcell.box.origin
    scale = np.abs(rv).max() * 4
    # periodicity
    pbc = [bool(x) for x in system.pbc]
    if pbc != [k != ci for k in range(3)]:
        fails.append(Fail(key=tag + 'pbc', msg='pbc %s for cut index %d' % (pbc, ci)))
    # box
    lh = [lohi(x) for x in m]
    mult = np.array([b - a for a, b in lh])
    ev = rv * mult[:, None]
    eo = o_r + sum(lh[k][0] * rv[k] for k in range(3))
    v = vac or 0.0
    ev[ci, ci] += v
    eo = eo.copy()
    eo[ci] -= v / 2
    if np.abs(system.box.vects - ev).max() > 1e-9 * scale or np.abs(system.box.origin - eo).max() > 1e-9 * scale:
        fails.append(Fail(key=tag + 'box', msg='slab box is not rcell box x size multipliers (+ vacuum)', vects=system.box.vects, origin=system.box.origin,
                          expected_vects=ev, expected_origin=eo, mults=m))
        return fails, None
    n_exp = geo.natoms_rcell * int(np.prod(mult))
    if system.natoms != n_exp:
        fails.append(Fail(key=tag + 'natoms', msg='%d atoms, expected %d' % (system.natoms, n_exp)))
        return fails, None
    if list(system.symbols) != list(cell.symbols):
        fails.append(Fail(key=tag + 'symbols', msg='symbols %s' % (system.symbols,)))
    pos = system.atoms.pos
    shiftvec = np.asarray(fs.shifts[shiftidx], float)
    off = [k for k in range(3) if k != ci]
    if shiftvec.shape != (3,) or np.any(shiftvec[off] != 0.0):
        fails.append(Fail(key=tag + 'shift-not-along-cut', msg='offered shift %s is not along the cut axis' % (shiftvec,)))
        return fails, None
    fails += site_map(cell, Tt, pos, system.atoms.atype, tag)
    # inside the (un-vacuumed) slab, between the faces
    slabv = rv * mult[:, None]
    slabo = o_r + sum(lh[k][0] * rv[k] for k in range(3))
    rel = (pos - slabo) @ np.linalg.inv(slabv)
    if rel.min() < -1e-9 or rel.max() > 1 + 1e-9:
        fails.append(Fail(key=tag + 'atom-outside-box', msg='relative coordinates span [%.3g, %.3g]' % (rel.min(), rel.max())))
    z = pos[:, ci]
    lo = slabo[ci]
    hi = lo + slabv[ci, ci]
    dlo, dhi = float(z.min() - lo), float(hi - z.max())
    need = 0.5 * geo.mingap - 1e-6
    if dlo <= 0 or dhi <= 0 or dlo < need or dhi < need:
        fails.append(Fail(key=tag + 'cut-not-between-layers', msg='cut faces lie %.6g / %.6g from the nearest atomic layer; half the smallest layer spacing is %.6g'
                          % (dlo, dhi, 0.5 * geo.mingap), shiftindex=shiftidx))
    elif abs(dlo - dhi) > 1e-6:
        fails.append(Fail(key=tag + 'cut-not-halfway', msg='cut faces lie %.9g below / %.9g above the neighbouring layers (not halfway)' % (dhi, dlo), shiftindex=shiftidx))
    sa = fs.surfacearea
    inp = [k for k in range(3) if k != ci]
    area = np.linalg.norm(np.cross(ev[inp[0]], ev[inp[1]]))
    if abs(sa - area) > 1e-9 * scale * scale:
        fails.append(Fail(key=tag + 'surfacearea', msg='surfacearea %.12g, in-plane cell area %.12g' % (sa, area)))
    return fails, dlo + dhi


def layers_of(z):
    zs = np.sort(z)
    keep = np.concatenate([[True], np.diff(zs) > 1e-5])
    return zs[keep]


def inplane_coeffs(d, vects):
    return d @ np.linalg.inv(vects)


def check_fault(sf, geo, base, fsys, fp, above, fshift, tag, lattice_restore):
    """fault system vs the slab it was made from"""
    ci = geo.ci
    fails = []
    old, new = base.atoms.pos, fsys.atoms.pos
    if new.shape != old.shape or not np.array_equal(fsys.atoms.atype, base.atoms.atype):
        return [Fail(key=tag + 'atoms-changed', msg='fault system changed the number or types of atoms')]
    if [bool(x) for x in fsys.pbc] != [bool(x) for x in base.pbc]:
        fails.append(Fail(key=tag + 'pbc', msg='fault system pbc %s' % (fsys.pbc,)))
    V = base.box.vects
    scale = np.abs(V).max()
    inp = [k for k in range(3) if k != ci]
    if np.abs(fsys.box.vects[inp] - V[inp]).max() > 1e-9 * scale:
        fails.append(Fail(key=tag + 'in-plane-box-changed', msg='in-plane cell vectors changed by the fault'))
    d = new - old
    exp = np.where(above[:, None], fshift[None, :], 0.0)
    res = d - exp
    co = inplane_coeffs(res, V)
    bad_cut = np.abs(res[:, ci]) > 1e-9 * scale
    bad_in = np.abs(co[:, inp] - np.rint(co[:, inp])).max(axis=1) > 1e-9
    bad = bad_cut | bad_in | (np.abs(co[:, ci]) > 1e-9)
    if bad.any():
        lowbad, upbad = bad & ~above, bad & above
        if lowbad.any():
            i = int(np.argmax(lowbad))
            fails.append(Fail(key=tag + 'atom-below-moved', msg='atom %d below the fault plane moved by %s' % (i, d[i]), faultpos=fp, z=float(old[i, ci]), n_bad=int(lowbad.sum())))
        if upbad.any():
            i = int(np.argmax(upbad))
            fails.append(Fail(key=tag + 'atom-above-wrong-shift', msg='atom %d above the fault plane moved by %s, requested %s (modulo in-plane cell vectors)' % (i, d[i], fshift),
                              faultpos=fp, z=float(old[i, ci]), n_bad=int(upbad.sum())))
    nre = int(((np.abs(np.rint(co[:, inp])).max(axis=1) > 0) & ~above).sum())
    if nre:
        chk.note('fault-atoms-below-re-imaged-by-wrap', nre)
    # everything inside the (possibly extended) box
    rel = (new - fsys.box.origin) @ np.linalg.inv(fsys.box.vects)
    if rel.min() < -1e-9 or rel.max() > 1 + 1e-9:
        fails.append(Fail(key=tag + 'atom-outside-box', msg='relative coordinates span [%.3g, %.3g]' % (rel.min(), rel.max())))
    if lattice_restore and not fails:
        # same set of (type, position) modulo the in-plane cell vectors
        ra = inplane_coeffs(new - base.box.origin, V)
        rb = inplane_coeffs(old - base.box.origin, V)
        dd = ra[:, None, :] - rb[None, :, :]
        dd[:, :, inp] -= np.rint(dd[:, :, inp])
        close = (np.abs(dd).max(axis=2) < 1e-8) & (np.asarray(fsys.atoms.atype)[:, None] == np.asarray(base.atoms.atype)[None, :])
        if not (np.all(close.sum(axis=0) == 1) and np.all(close.sum(axis=1) == 1)):
            fails.append(Fail(key=tag + 'lattice-vector-does-not-restore', msg='a shift by a full in-plane lattice vector did not reproduce the perfect slab',
                              faultpos=fp, unmatched=int((close.sum(axis=1) != 1).sum())))
        else:
            chk.note('fault-full-lattice-vector-restores')
    return fails


def fault_call(sf, geo, base, fp, k, spec, A1, A2, tag):
    """one sf.fault(...) call for fault position fp and displacement spec; returns fails"""
    ci = geo.ci
    e = np.zeros(3)
    e[ci] = 1.0
    kw = {}
    if k % 2 == 0:
        kw['faultpos_cart'] = float(fp)
    else:
        kw['faultpos_rel'] = float((fp - base.box.origin[ci]) / base.box.vects[ci, ci])
    restore = False
    if spec[0] == 'a':
        _, a1, a2, oop = spec
        fshift = np.zeros(3)
        if a1 is not None:
            kw['a1'] = float(a1)
            fshift = fshift + float(a1) * A1
        if a2 is not None:
            kw['a2'] = float(a2)
            fshift = fshift + float(a2) * A2
        if oop is not None:
            kw['outofplane'] = oop
            fshift = fshift + oop * e
        restore = oop is None and all(x is None or _fr(x).denominator == 1 for x in (a1, a2)) and any(x not in (None, 0) for x in (a1, a2))
    elif spec[0] == 'fs':
        inp = [q for q in range(3) if q != ci]
        fshift = np.zeros(3)
        fshift[inp[0]], fshift[inp[1]], fshift[ci] = spec[1], spec[2], spec[3]
        kw['faultshift'] = fshift.copy() if k % 3 else fshift.tolist()
    else:
        fshift = np.zeros(3)
    fsys = sf.fault(**kw)
    chk.note('fault-systems')
    fails = []
    z = base.atoms.pos[:, ci]
    above = z > fp
    ab = np.asarray(sf.abovefault)
    if ab.shape != above.shape or np.any(ab != above):
        fails.append(Fail(key=tag + 'abovefault-mask', msg='abovefault does not select the atoms above the fault plane', faultpos=float(fp),
                          n_wrong=int(np.sum(ab != above)) if ab.shape == above.shape else -1))
    wid = base.box.vects[ci, ci]
    if abs(sf.faultpos_cart - fp) > 1e-9 * wid or abs(sf.faultpos_rel - (fp - base.box.origin[ci]) / wid) > 1e-9:
        fails.append(Fail(key=tag + 'faultpos', msg='faultpos_cart/rel inconsistent with the requested position'))
    if not np.array_equal(sf.system.atoms.pos, base.atoms.pos):
        fails.append(Fail(key=tag + 'slab-mutated', msg='fault() modified the stored perfect slab'))
    fails += check_fault(sf, geo, base, fsys, float(fp), above, fshift, tag, restore)
    return fails


def refusal_kind(e):
    s = str(e)
    for c, msg in REFUSE_MSG.items():
        if s == msg:
            return c
    return None


@chk.clause('slab')
def slab(case):
    cell = CELLS[case['cell']]
    h = case['hkl']
    cut = case['cut']
    ci = CUTS.index(cut)
    hc = hkl3(h)
    four = len(h) == 4
    ucell = cell.ucell()
    kw = dict(cutboxvector=cut)
    if cell.setting_arg is not None:
        kw['conventional_setting'] = cell.setting_arg
    rot = case['n']          # rotates the option menus; deterministic function of the case
    fails = []

    # geometry from an independent call of free_surface_basis (judged by the basis clause) - only to classify refusals
    def classify_refusal(e, who):
        kind = refusal_kind(e)
        if kind is None or kind != cut:
            return [Fail(key=who + '-valid-plane-refused', msg='ValueError: %s' % e, hkl=h)]
        bkw = dict(box=cell.box, cutboxvector=cut)
        if cell.setting_arg is not None:
            bkw['conventional_setting'] = cell.setting_arg
        uv = free_surface_basis(list(h), **bkw)
        f, U = judge_uvws(cell, hc, uv, cut, four, False, who + '-refusal-')
        if U is None or f:
            return f
        c = compat(Geometry(cell, hc, U, ci))
        if c > 1e-6:
            chk.note('refused: %s orientation incompatible with cutboxvector=%s (ValueError)' % (who, cut))
            return []
        if c < 1e-12:
            return [Fail(key=who + '-compatible-orientation-refused', msg='refused although the in-plane vectors have no cut-axis component (%.3g): %s' % (c, e), hkl=h)]
        return [Fail(key=who + '-harness-ambiguous-compatibility', msg='cut-axis component %.3g is neither clearly zero nor clearly non-zero' % c, hkl=h)]

    # quick: one StackingFault object serves both parts (its constructor and surface() forward to FreeSurface's, so the
    # FreeSurface code under test is the same; the second, identical basis search is what is saved)
    try:
        fs = (FreeSurface if THOROUGH else StackingFault)(list(h), ucell, **kw)
    except AssertionError as e:
        if 'Failed to find' in str(e):
            return [search_failed(e, h, 'FreeSurface-')]
        raise
    except ValueError as e:
        return classify_refusal(e, 'FreeSurface')
    chk.note('slab-accepted')
    if sum(1 for x in hc if x) >= 2:
        chk.note('slab-nontrivial')

    f, U = judge_uvws(cell, hc, fs.uvws, cut, four, True, 'fs-')
    fails += f
    if U is None:
        return fails
    geo = Geometry(cell, hc, U, ci)
    if geo.mingap < 1e-4:
        return fails + [Fail(key='harness-layers-too-close', msg='basis gives layers %.3g apart' % geo.mingap)]
    if compat(geo) > 1e-9:
        fails.append(Fail(key='incompatible-orientation-accepted', msg='accepted although an in-plane cell vector has a cut-axis component (relative %.3g)' % compat(geo)))
    f, Tt = check_rcell(fs, geo, 'fs-')
    fails += f
    if Tt is None:
        return fails
    shifts = np.asarray(fs.shifts)
    if shifts.ndim != 2 or shifts.shape[1] != 3:
        return fails + [Fail(key='shifts-shape', msg='shifts shape %s' % (shifts.shape,))]
    ns = len(shifts)
    chk.note('offered-shifts', ns)
    if ns != geo.nshift:
        fails.append(Fail(key='number-of-shifts', msg='%d shifts offered; the rotated cell holds %d atomic layers (%d per lattice-plane spacing x %d spacings)'
                          % (ns, geo.nshift, geo.layers_per_period, geo.periods), hkl=h))
    gaps = []
    for i in range(ns):
        if THOROUGH:
            todo = OPTS
        else:
            todo = [OPTS[0], OPTS[1 + (rot + i) % (len(OPTS) - 1)]]
        for opt in todo:
            smtag, minwidth, even, vac = opt
            if expected_mults(smtag, ci, minwidth, even, geo.rcw) is None:
                chk.note('skipped: minwidth at a ceil() discontinuity')
                continue
            system = fs.surface(shiftindex=i, sizemults=sizemults_for(smtag, ci), minwidth=minwidth, even=even, vacuumwidth=vac)
            chk.note('surface-systems')
            f, gap = check_slab(fs, cell, geo, Tt, system, i, opt, 'surface-')
            fails += f
            if opt is OPTS[0] and gap is not None:
                gaps.append(gap)
            if f:
                break
        if len(fails) > 6:
            return fails
    if len(gaps) == ns == geo.nshift:
        exp = sorted(geo.gaps * geo.periods)
        if np.abs(np.sort(gaps) - np.array(exp)).max() > 2e-6:
            fails.append(Fail(key='terminations-not-all-distinct-gaps', msg='the cut gaps of the offered shifts are not the layer gaps of the crystal',
                              offered=sorted(gaps), expected=exp))
    if fails:
        return fails

    # ---------------- stacking fault
    try:
        sf = StackingFault(list(h), ucell, **kw) if THOROUGH else fs
    except ValueError as e:
        return classify_refusal(e, 'StackingFault')
    f, U2 = judge_uvws(cell, hc, sf.uvws, cut, four, True, 'sf-')
    if f or U2 != U:
        return f + [Fail(key='sf-uvws-differ', msg='StackingFault and FreeSurface chose different vectors')]
    f, Tt2 = check_rcell(sf, geo, 'sf-')
    if f or Tt2 is None:
        return f
    a1i, a2i = {'a': (1, 2), 'b': (2, 0), 'c': (0, 1)}[cut]
    hp = geo.hp
    avs = []
    for name, val, idx in (('a1vect_uvw', sf.a1vect_uvw, a1i), ('a2vect_uvw', sf.a2vect_uvw, a2i)):
        u, why = to_prim_int(cell, val, True)
        if u is None or sum(hp[j] * u[j] for j in range(3)) != 0:
            return [Fail(key='sf-' + name + '-not-in-plane-lattice-vector', msg='%s = %s (%s)' % (name, val, why))]
        if u != U[idx]:
            fails.append(Fail(key='sf-' + name + '-default', msg='default %s is not the in-plane cell vector' % name))
        avs.append((np.asarray(u, float) @ cell.vp) @ Tt2)
    A1, A2 = avs
    sc = np.abs(geo.M).max()
    if np.abs(sf.a1vect_cart - A1).max() > 1e-9 * sc or np.abs(sf.a2vect_cart - A2).max() > 1e-9 * sc:
        fails.append(Fail(key='sf-avect-cart', msg='a1vect_cart/a2vect_cart are not the Cartesian shift vectors in the slab frame'))
    if len(sf.shifts) != ns:
        fails.append(Fail(key='sf-number-of-shifts', msg='StackingFault offers %d shifts, FreeSurface %d' % (len(sf.shifts), ns)))
    if fails:
        return fails
    cnt = rot
    for i in range(len(sf.shifts)):
        fopt = FOPTS[(rot + i) % len(FOPTS)] if not THOROUGH or i else FOPTS[0]
        smtag, minwidth, even, vac = fopt
        base = sf.surface(shiftindex=i, sizemults=sizemults_for(smtag, ci), minwidth=minwidth, even=even, vacuumwidth=vac)
        f, _ = check_slab(sf, cell, geo, Tt2, base, i, fopt, 'sf-surface-')
        if f:
            return fails + f
        # default fault position is the middle of the box
        z = base.atoms.pos[:, ci]
        mid = base.box.origin[ci] + 0.5 * base.box.vects[ci, ci]
        if abs(sf.faultpos_rel - 0.5) > 1e-12 or abs(sf.faultpos_cart - mid) > 1e-9 * sc or np.any(np.asarray(sf.abovefault) != (z > sf.faultpos_cart)):
            fails.append(Fail(key='sf-default-faultpos', msg='default fault position is not the middle of the slab box'))
        base = sf.system
        lay = layers_of(z)
        fps = list(0.5 * (lay[1:] + lay[:-1]))
        if THOROUGH:
            fps += list(0.75 * lay[:-1] + 0.25 * lay[1:])
        elif 0 < i < len(sf.shifts) - 1 and len(fps) > 3:
            # quick: every gap for the first and the last termination, lowest / middle / highest gap for the others
            fps = [fps[0], fps[len(fps) // 2], fps[-1]]
        chk.note('fault-positions', len(fps))
        full = THOROUGH and fopt == FOPTS[0] and i in (0, len(sf.shifts) - 1)
        for k, fp in enumerate(fps):
            specs = DISP if full else [DISP[(cnt + k) % len(DISP)]]
            for spec in specs:
                fails += fault_call(sf, geo, base, fp, k, spec, A1, A2, 'fault-')
            if len(fails) > 6:
                return fails
        cnt += len(fps)
    if fails:
        return fails

    # iterfaultmap: 2 x 3 grid at the last slab / last fault position
    fp = sf.faultpos_cart
    z = base.atoms.pos[:, ci]
    seen = []
    for a1, a2, fsys in sf.iterfaultmap(num_a1=2, num_a2=3):
        seen.append((round(float(a1), 12), round(float(a2), 12)))
        fails += check_fault(sf, geo, base, fsys, fp, z > fp, a1 * A1 + a2 * A2, 'faultmap-', False)
        chk.note('fault-systems')
    if sorted(seen) != sorted((round(p / 2, 12), round(q / 3, 12)) for p in range(2) for q in range(3)):
        fails.append(Fail(key='faultmap-grid', msg='iterfaultmap(2,3) yielded %s' % (seen,)))

    # user-given shift vectors: sums / differences of the in-plane cell vectors, then a vector that leaves the plane
    u1, u2 = np.asarray(sf.a1vect_uvw, float), np.asarray(sf.a2vect_uvw, float)
    fsys = sf.fault(a1=1 / 3, a2=0.5, a1vect_uvw=u1 + u2, a2vect_uvw=(u2 - u1).tolist())
    chk.note('fault-systems')
    fails += check_fault(sf, geo, base, fsys, fp, z > fp, (A1 + A2) / 3 + 0.5 * (A2 - A1), 'fault-uservect-', False)
    fsys = sf.fault(a1=1.0, a2=-1.0)
    chk.note('fault-systems')
    fails += check_fault(sf, geo, base, fsys, fp, z > fp, (A1 + A2) - (A2 - A1), 'fault-uservect-', True)
    try:
        sf.fault(a1=0.5, a1vect_uvw=np.asarray(sf.uvws[ci], float))
        fails.append(Fail(key='fault-out-of-plane-shift-vector-accepted', msg='a1vect_uvw that is not in the fault plane was accepted'))
    except ValueError as e:
        if 'not in fault plane' in str(e):
            chk.note('refused: shift vector not in fault plane (ValueError)')
        else:
            fails.append(Fail(key='fault-uservect-unexpected-refusal', msg=str(e)))
    return fails


# ----------------------------------------------------------------------------------------------
# clause: documented refusals must be raised

@chk.clause('refusal')
def refusal(case):
    kind = case['kind']
    cell = CELLS[case['cell']]

    def expect(fn, exc, needle, label):
        try:
            fn()
        except exc as e:
            if needle in str(e):
                chk.note('refused: ' + label)
                return []
            return [Fail(key=kind + '-other-message', msg='%s: %s' % (type(e).__name__, e))]
        return [Fail(key=kind + '-accepted', msg='%s was accepted' % label, case=case)]

    if kind == 'hkil-sum':
        return expect(lambda: free_surface_basis(case['hkl'], box=cell.box, cutboxvector=case['cut']), ValueError, 'h+k+i != 0',
                      'Miller-Bravais plane with h+k+i != 0 (ValueError)')
    if kind == 'hkil-nonhex':
        return expect(lambda: free_surface_basis([1, 0, -1, 1], box=cell.box), ValueError, 'non-hexagonal', 'Miller-Bravais plane with a non-hexagonal box (ValueError)')
    if kind == 'rethex-nonhex':
        return expect(lambda: free_surface_basis([1, 0, 1], box=cell.box, return_hexagonal=True), ValueError, 'non-hexagonal',
                      'return_hexagonal with a non-hexagonal box (ValueError)')
    if kind == 'zero':
        return expect(lambda: free_surface_basis([0, 0, 0], box=cell.box), ValueError, 'all zeros', 'hkl = 000 (ValueError)')
    if kind == 'nonint':
        return expect(lambda: free_surface_basis([1, 0.5, 0], box=cell.box), ValueError, 'integers', 'non-integer hkl (ValueError)')
    if kind == 'shape':
        return expect(lambda: free_surface_basis([1, 0], box=cell.box), ValueError, '3 values or 4', 'hkl with 2 indices (ValueError)')
    ucell = cell.ucell()
    kw = {} if cell.setting_arg is None else {'conventional_setting': cell.setting_arg}
    if kind == 'vacuum-negative':
        fs = FreeSurface([0, 0, 1], ucell, **kw)
        return expect(lambda: fs.surface(vacuumwidth=-1.0), ValueError, 'must be positive', 'negative vacuumwidth (ValueError)')
    if kind == 'shift-and-index':
        fs = FreeSurface([0, 0, 1], ucell, **kw)
        return expect(lambda: fs.surface(shift=[0, 0, 0.1], shiftindex=0), ValueError, 'cannot both', 'shift together with shiftindex (ValueError)')
    sf = StackingFault([0, 0, 1], ucell, **kw)
    sf.surface(sizemults=[1, 1, 2])
    if kind == 'faultpos-both':
        return expect(lambda: sf.fault(faultpos_rel=0.5, faultpos_cart=1.0), ValueError, 'cannot both', 'faultpos_rel together with faultpos_cart (ValueError)')
    if kind == 'faultpos-outside':
        return (expect(lambda: sf.fault(faultpos_rel=1.2), ValueError, 'outside system', 'fault position outside the system (ValueError)')
                + expect(lambda: sf.fault(faultpos_cart=-3.0), ValueError, 'outside system', 'fault position outside the system (ValueError)'))
    if kind == 'a1-and-faultshift':
        return expect(lambda: sf.fault(a1=0.5, faultshift=[0.1, 0, 0]), ValueError, 'cannot be given with faultshift', 'a1 together with faultshift (ValueError)')
    if kind == 'one-avect':
        return expect(lambda: StackingFault([0, 0, 1], ucell, a1vect_uvw=[1, 0, 0], **kw), ValueError, 'both need to be given', 'only one of a1vect_uvw/a2vect_uvw (ValueError)')
    raise KeyError(kind)


@chk.clause('tables')
def tables(case):
    """the documented primitive-cell convention is the one the hand-built cells use"""
    fails = []
    for s, m in P2C.items():
        mine = np.array([[float(x) for x in r] for r in m])
        if not np.allclose(miller.vector_primitive_to_conventional(np.eye(3), s), mine, atol=1e-14):
            fails.append(Fail(key='primitive-convention-' + s, msg='vector_primitive_to_conventional(identity, %r) is not the documented primitive cell' % s))
        inv = np.array([[float(x) for x in r] for r in C2P[s]])
        if not np.allclose(miller.vector_conventional_to_primitive(np.eye(3), s), inv, atol=1e-14):
            fails.append(Fail(key='conventional-to-primitive-' + s, msg='vector_conventional_to_primitive(identity, %r) is not the inverse table' % s))
    return fails


# ----------------------------------------------------------------------------------------------

def planes3(bound):
    for h in itertools.product(range(-bound, bound + 1), repeat=3):
        if any(h):
            yield list(h)


def planes4(bound):
    for h in itertools.product(range(-bound, bound + 1), repeat=4):
        if any(h):
            yield list(h)


def gen():
    yield 'tables', {}
    n = 0
    # slab cases first (longest single cases)
    for ci, cell in enumerate(CELLS):
        if cell.name.endswith('-metres'):
            continue      # FreeSurface / StackingFault have a documented ABSOLUTE tol parameter (1e-7 working units); the
            #               metre-scale cells are for free_surface_basis, which has none
        pl = list(planes3(2))
        if cell.hex:
            pl += [h for h in planes4(2) if h[0] + h[1] + h[2] == 0]
        for h in pl:
            for cut in CUTS:
                n += 1
                if not THOROUGH and max(abs(x) for x in h) > 1 and (cut != 'c' or next(x for x in h if x) < 0):
                    continue
                yield 'slab', {'cell': ci, 'hkl': h, 'cut': cut, 'n': n}
    for ci, cell in enumerate(CELLS):
        for h in planes3(BOUND):
            small = max(abs(x) for x in h) <= 2
            for cut in CUTS:
                if cell.centred and not THOROUGH and not small and cut != 'c':
                    continue
                c = {'cell': ci, 'hkl': h, 'cut': cut}
                if (h[0] + h[1] + h[2]) % 2:
                    c['arr'] = 1
                yield 'basis', c
        if cell.hex:
            for h in planes4(BOUND):
                if h[0] + h[1] + h[2] == 0:
                    for cut in CUTS:
                        yield 'basis', {'cell': ci, 'hkl': h, 'cut': cut}
                else:
                    yield 'refusal', {'kind': 'hkil-sum', 'cell': ci, 'hkl': h, 'cut': CUTS[(h[0] + h[3]) % 3]}
            for h in planes3(1):
                for cut in CUTS:
                    yield 'basis', {'cell': ci, 'hkl': h, 'cut': cut, 'rh': True}
            for h in planes4(1):
                if h[0] + h[1] + h[2] == 0:
                    yield 'basis', {'cell': ci, 'hkl': h, 'cut': 'c', 'rh': False}
        else:
            yield 'refusal', {'kind': 'hkil-nonhex', 'cell': ci}
            yield 'refusal', {'kind': 'rethex-nonhex', 'cell': ci}
        if cell.name.endswith('-metres'):
            continue
        for kind in ('zero', 'nonint', 'shape', 'vacuum-negative', 'shift-and-index', 'faultpos-both', 'faultpos-outside', 'a1-and-faultshift', 'one-avect'):
            yield 'refusal', {'kind': kind, 'cell': ci}


if __name__ == '__main__':
    chk.run_cases(gen(), batch=6)
    cov = {'distinct_nontrivial': chk.notes.get('basis-nontrivial', 0) + chk.notes.get('slab-nontrivial', 0),
           'cells': len(CELLS), 'index_bound': BOUND,
           'refusals': {k[9:]: v for k, v in chk.notes.items() if k.startswith('refused: ')}}
    sys.exit(chk.finish(cov))
