"""C05 - System.wrap and System.normalize / atomman.lammps.normalize.

Bounded-exhaustive enumeration: cells (right/left-handed, strongly tilted, rotated non-LAMMPS, generic origin,
a power-of-two cell with exact arithmetic) x all 8 pbc (wrap) x atoms with relative coordinates from
{-2.5,-1,-0.3,0,0.4,1,1.6,3.2}^3 : every single atom, every pair of a 4^3 sub-grid, every triple of an
8-point set (+ far-away atoms).  Every system is wrapped twice (the second wrap starts from a non-initial
state) and, fully periodic, normalised through both entry points.

Oracles are written from the statement: image flags are integers (zero on non-periodic axes) that
reconstruct the old positions with the OLD cell vectors, every atom is inside the NEW cell, periodic cell
vectors and origin components are unchanged and a non-periodic direction keeps its direction and contains
the old cell; a normalised cell is LAMMPS compatible, right-handed, has the Gram matrix of the old cell
(third vector reversed when left-handed), equals old.T^t for the returned proper rotation T, relative
coordinates are kept modulo 1, true nearest-image distances (exhaustive lattice search with a proven
radius) are unchanged, per-atom data and order are unchanged and the input system is bit-identical to its
snapshot.
"""
import itertools
import sys

import numpy as np

from mc.common import Check, Fail, SEED, THOROUGH, assert_overlay
from props.c01 import chol_from_params, rot

am = assert_overlay()
import atomman.lammps  # noqa: E402

chk = Check('C05', 'exploration',
            'full product cells x 8 pbc x atom placements (all 512 singles of an 8^3 relative grid, all 2016 pairs of a 4^3 '
            'sub-grid, all 56 triples of an 8-point set, 27 far-away singles), each system wrapped twice and (pbc all true) '
            'normalised through System.normalize and atomman.lammps.normalize; an evaluation is one wrap()/normalize() call; '
            'non-trivial = a wrap that moved an atom or enlarged the cell, or a normalize with a non-identity rotation, a '
            'left-handed cell or an atom brought back into the cell')
chk.assumptions = ['positions to 1e-11 x (cell size x (1+|relative coordinate|) + |origin|) after one scale/unscale round trip; '
                   'cell vectors to 1e-8 relative (the Box vects setter zeroes entries below 1e-9 x max); inside to 1e-9 relative',
                   'atoms nominally on a face may be assigned to either side (floor of a rounded coordinate); atoms off the faces '
                   'keep a margin >= 0.1 (relative)',
                   'normalize is only required for fully periodic systems (statement)']

TOL_IN = 1e-9


# ---------------------------------------------------------------------------------------------------
# menus

def _cells():
    tri = chol_from_params(3.7, 4.1, 5.9, 81, 97, 112)
    mild = np.array([[5.0, 0, 0], [1.1, 4.0, 0], [-0.7, 0.9, 6.0]])
    g = np.array([1.3, -2.7, 0.45])
    out = []
    out.append(('cubic', chol_from_params(4, 4, 4, 90, 90, 90), np.zeros(3)))
    out.append(('pow2-ortho', np.diag([4.0, 2.0, 8.0]), np.array([-8.0, 16.0, 2.0])))
    out.append(('mild-tilt', mild, g))
    out.append(('strong-tilt', np.array([[3.0, 0, 0], [2.6, 3.0, 0], [-2.2, 1.9, 3.0]]), np.zeros(3)))
    out.append(('hexagonal', chol_from_params(3.2, 3.2, 5.1, 90, 90, 120), -g))
    out.append(('triclinic', tri, g))
    out.append(('rotated-triclinic', tri @ rot([1, 2, 3], 37.0).T, g))
    lh = tri.copy()
    lh[2] *= -1.0
    out.append(('left-handed-triclinic', lh, np.zeros(3)))
    out.append(('left-handed-swapped-rotated', (mild[[1, 0, 2]]) @ rot([3, -1, 2], 171.0).T, 2 * g))
    # the same left-handed cell with its lengths held in metres (1e-10): every absolute tolerance in the code under test
    # (np.isclose with atol=1e-8 ...) then dwarfs the cell
    out.append(('metre-scale-left-handed', 1e-10 * lh @ rot([0, 1, 1], 77.0).T, 1e-10 * g))
    s = SEED % 8
    out.append(('seed-slice', chol_from_params(3.0 + 0.37 * s, 4.3 - 0.21 * s, 5.2 + 0.13 * s,
                                               70 + 3.1 * s, 95 - 2.3 * s, 105 + 1.7 * s) @ rot([s + 1, 2, -3], 20.0 + 31.0 * s).T,
                0.5 * (s + 1) * g))
    if THOROUGH:
        out.append(('flat', np.array([[9.0, 0, 0], [4.0, 1.2, 0], [3.0, 0.5, 1.1]]), g))
        out.append(('tiny-left-handed', 1e-3 * lh @ rot([0, 1, 1], 77.0).T, 1e-3 * g))
        out.append(('huge', 1e4 * tri, 1e4 * g))
        out.append(('rhombohedral-20deg', chol_from_params(4, 4, 4, 20, 20, 20), np.zeros(3)))
        out.append(('obtuse', chol_from_params(3.0, 4.0, 5.0, 100, 100, 140), g))
        out.append(('left-handed-cubic', np.diag([4.0, 4.0, -4.0]), np.zeros(3)))
    return out


CELLS = _cells()
PBCS = list(itertools.product([True, False], repeat=3))     # index 0 = fully periodic
G8 = [-2.5, -1.0, -0.3, 0.0, 0.4, 1.0, 1.6, 3.2]
SINGLES = np.array(list(itertools.product(G8, repeat=3)))
G4 = [-2.5, 0.0, 0.4, 1.0] if not THOROUGH else [-2.5, -0.3, 0.0, 0.4, 1.0]
PAIRGRID = np.array(list(itertools.product(G4, repeat=3)))
TRIPLE8 = np.array([[0.4, 0.4, 0.4], [-0.3, 1.6, 0.4], [0.0, 0.0, 0.0], [1.0, 0.4, -1.0],
                    [3.2, -2.5, 1.6], [0.4, 0.0, 1.0], [-1.0, -1.0, -1.0], [1.6, 1.6, 1.6]])
TRIPLES = list(itertools.combinations(range(8), 3))
FAR = np.array(list(itertools.product([-1000.3, 0.4, 517.6], repeat=3)))


def placements(case):
    """list of (n,3) relative-coordinate arrays of one case"""
    k = case['kind']
    if k == 'single':
        return [SINGLES[i:i + 1] for i in range(case['lo'], min(case['lo'] + 64, len(SINGLES)))]
    if k == 'far':
        return [FAR[i:i + 1] for i in range(len(FAR))]
    if k == 'pair':
        i = case['i']
        return [PAIRGRID[[i, j]] for j in range(i + 1, len(PAIRGRID))]
    if k == 'triple':
        return [TRIPLE8[list(t)] for t in TRIPLES]
    raise KeyError(k)


def build(v, o, rel, pbc):
    n = len(rel)
    pos = rel @ v + o
    i = np.arange(n)
    atype = (i % 2 + 1).astype(int)
    ip = (10 * i + 7).astype(int)
    fv = np.stack([i + 0.5, -0.25 * i - 1.0, 1.0 / (i + 1.0)], axis=1)
    atoms = am.Atoms(atype=atype.copy(), pos=pos.copy(), ip=ip.copy(), fv=fv.copy())
    system = am.System(atoms=atoms, box=am.Box(vects=v.copy(), origin=o.copy()), pbc=tuple(pbc), symbols=('Fe', 'C')[:max(atype)])
    return system, pos


class Snap:
    def __init__(self, system):
        self.vects = np.array(system.box.vects)
        self.origin = np.array(system.box.origin)
        self.pos = np.array(system.atoms.pos)
        self.natoms = int(system.natoms)
        self.keys = sorted(system.atoms_prop())
        self.props = {k: np.array(system.atoms.view[k]) for k in self.keys if k != 'pos'}
        self.symbols = tuple(system.symbols)
        self.pbc = tuple(bool(x) for x in system.pbc)

    def same_data(self, other):
        """per-atom data (not pos), order, symbols, pbc"""
        return (self.natoms == other.natoms and self.keys == other.keys and self.symbols == other.symbols
                and self.pbc == other.pbc
                and all(self.props[k].dtype == other.props[k].dtype and np.array_equal(self.props[k], other.props[k])
                        for k in self.props))

    def same(self, other):
        return (self.same_data(other) and np.array_equal(self.vects, other.vects) and np.array_equal(self.origin, other.origin)
                and np.array_equal(self.pos, other.pos))


def lammps_norm(v):
    return v[0, 1] == 0 and v[0, 2] == 0 and v[1, 2] == 0 and v[0, 0] > 0 and v[1, 1] > 0 and v[2, 2] > 0


# ---------------------------------------------------------------------------------------------------
# wrap

def judge_wrap(b, a, flags, pbc, relnom, fails, tag):
    """b / a: Snap before / after one wrap(); relnom: nominal relative coordinates before (None if unknown)"""
    bad = lambda key, msg, **kw: fails.append(Fail(key=tag + key, msg=msg, **kw))
    V, O = b.vects, b.origin
    size = np.abs(V).max()
    Vi = np.linalg.inv(V)
    sold = (b.pos - O) @ Vi
    tolpos = 1e-11 * (size * (1 + np.abs(sold).max()) * 3 + np.abs(O).max())
    flags = np.asarray(flags)
    if flags.shape != (b.natoms, 3) or flags.dtype.kind not in 'iu':
        bad('flags-type', 'image flags have shape %s dtype %s' % (flags.shape, flags.dtype))
        return
    pb = np.array(pbc, bool)
    if np.any(flags[:, ~pb] != 0):
        bad('flags-nonperiodic', 'non-zero image flag along a non-periodic direction', flags=flags)
    if not a.same_data(b):
        bad('data-changed', 'wrap changed per-atom data, order, symbols or pbc')
        return
    # the flags reconstruct the old positions with the old cell vectors
    err = np.abs(a.pos + flags @ V - b.pos).max()
    if err > tolpos:
        bad('flags-do-not-reconstruct', 'pos_new + flags.vects_old differs from pos_old by %g' % err, flags=flags,
            moved=(b.pos - a.pos) @ Vi)
    # cell: periodic vectors bit-identical, origin not moved along them; a non-periodic vector keeps its direction
    V2, O2 = a.vects, a.origin
    shift = (O2 - O) @ Vi
    for i in range(3):
        if pb[i]:
            if np.abs(V2[i] - V[i]).max() > 2e-9 * np.abs(V2).max():      # (the vects setter zeroes below 1e-9 x max)
                bad('periodic-vector-changed', 'cell vector %d along a periodic direction changed' % i, observed=V2[i], expected=V[i])
            if abs(shift[i]) > 1e-12 * (1 + np.abs(O).max() / size):
                bad('origin-moved-periodic', 'origin moved along periodic direction %d by %g' % (i, shift[i]))
        else:
            f = (V2[i] @ V[i]) / (V[i] @ V[i])
            if np.abs(V2[i] - f * V[i]).max() > 2e-9 * np.abs(V2).max() or not f > 0:
                bad('nonperiodic-vector-direction', 'cell vector %d changed its direction' % i, observed=V2[i], expected=V[i])
            elif shift[i] > 1e-12 * (1 + np.abs(O).max() / size) or shift[i] + f < 1 - 1e-12 * (1 + np.abs(O).max() / size):
                bad('nonperiodic-cell-shrunk', 'new cell does not contain the old one along non-periodic direction %d '
                    '(relative span %g .. %g)' % (i, shift[i], shift[i] + f))
    if np.linalg.det(V2) * np.linalg.det(V) <= 0:
        bad('cell-degenerate', 'cell after wrap has another handedness or no volume')
        return
    # every atom inside the new cell
    snew = (a.pos - O2) @ np.linalg.inv(V2)
    if snew.min() < -TOL_IN or snew.max() > 1 + TOL_IN:
        bad('atom-outside', 'atom outside the cell after wrap: relative coordinates %g .. %g' % (snew.min(), snew.max()),
            rel=snew, pbc=list(pbc))
    # atoms that were clearly inside along a direction are not touched along it
    if relnom is not None:
        interior = (relnom > 0.05) & (relnom < 0.95)
        if np.any(flags[interior] != 0):
            bad('interior-atom-moved', 'an atom inside the cell got a non-zero image flag')
        expect = np.floor(relnom)
        offface = np.abs(relnom - np.rint(relnom)) > 0.05
        sel = offface & pb[None, :]
        if np.any(flags[sel] != expect[sel]):
            bad('flags-value', 'image flag differs from floor(relative coordinate) for an atom off the faces',
                flags=flags, expected=expect)


def wrap_system(v, o, rel, pbc, fails):
    system, pos = build(v, o, rel, pbc)
    b = Snap(system)
    flags = system.wrap(return_imageflags=True)
    a = Snap(system)
    n0 = len(fails)
    judge_wrap(b, a, flags, pbc, rel, fails, '')
    moved = bool(np.any(flags != 0)) or not np.array_equal(a.vects, b.vects)
    if len(fails) > n0:
        return moved
    # second wrap: from a non-initial state; nothing is left to do for atoms off the faces
    relnow = (a.pos - a.origin) @ np.linalg.inv(a.vects)
    flags2 = system.wrap(return_imageflags=True)
    a2 = Snap(system)
    judge_wrap(a, a2, flags2, pbc, None, fails, 'second-')
    chk.note('calls', 2)
    onface = np.abs(relnow - np.rint(relnow)) <= 1e-6      # (after a wrap an atom is either at ~1e-16 of a face or far from it)
    settled = ~np.any(onface, axis=1)
    if np.any(flags2[settled] != 0):
        fails.append(Fail(key='second-wrap-moves', msg='a second wrap() returned non-zero flags for an atom inside the cell',
                          flags=flags2))
    if np.all(settled):
        size = np.abs(a.vects).max()
        if np.abs(a2.pos - a.pos).max() > 1e-11 * (size * 4 + np.abs(a.origin).max()):
            fails.append(Fail(key='second-wrap-moves', msg='a second wrap() moved atoms'))
        if np.abs(a2.vects - a.vects).max() > 1e-12 * size or np.abs(a2.origin - a.origin).max() > 1e-12 * (size + np.abs(a.origin).max()):
            fails.append(Fail(key='second-wrap-changes-cell', msg='a second wrap() changed the cell', observed=a2.vects, expected=a.vects))
    # wrap() without the flag returns None and does the same
    return moved


@chk.clause('wrap')
def wrap(case):
    name, v, o = CELLS[case['cell']]
    pbc = PBCS[case['pbc']]
    fails = []
    for rel in placements(case):
        f = []
        moved = wrap_system(v, o, rel, pbc, f)
        for x in f:
            x['rel'] = rel.tolist()
        fails += f
        chk.note('wrap-systems')
        if moved:
            chk.note('nontrivial')
    if case['kind'] == 'triple' and not fails:
        # return value without the flag; list-valued pbc
        system, pos = build(v, o, TRIPLE8[:3], pbc)
        ref, _ = build(v, o, TRIPLE8[:3], pbc)
        ref.wrap(return_imageflags=True)
        r = system.wrap()
        if r is not None or not Snap(system).same(Snap(ref)):
            fails.append(Fail(key='wrap-noflag', msg='wrap() without return_imageflags returned %r or acted differently' % (r,)))
    return fails


# ---------------------------------------------------------------------------------------------------
# normalize

def nearest_image_dist(d, v):
    """true nearest-image length of separations d (N,3) in the fully periodic lattice v: exhaustive search,
    radius |n_i| <= ceil(|d|/w_i)+1 (a lattice vector with a larger n_i is farther than |d| from -d already)."""
    w = 1.0 / np.linalg.norm(np.linalg.inv(v).T, axis=1)       # perpendicular widths
    s = d @ np.linalg.inv(v)
    d = (s - np.rint(s)) @ v                                   # any representative will do
    dl = np.linalg.norm(d, axis=1).max() if len(d) else 0.0
    R = [int(np.ceil(dl / w[i])) + 1 for i in range(3)]
    ns = np.array(list(itertools.product(*[range(-r, r + 1) for r in R])), float)
    c = d[:, None, :] + (ns @ v)[None, :, :]
    return np.sqrt((c ** 2).sum(axis=2).min(axis=1))


def judge_normalize(b, res, T, fails, tag):
    bad = lambda key, msg, **kw: fails.append(Fail(key=tag + key, msg=msg, **kw))
    a = Snap(res)
    V, O = b.vects, b.origin
    size = np.linalg.norm(V, axis=1).max()
    T = np.asarray(T, float)
    if T.shape != (3, 3) or np.abs(T @ T.T - np.eye(3)).max() > 1e-9 or abs(np.linalg.det(T) - 1) > 1e-9:
        bad('transform-not-proper-rotation', 'returned transform is not orthonormal with det +1', observed=T)
        return a
    Vf, Of = V.copy(), O.copy()
    left = np.linalg.det(V) < 0
    if left:                       # the same cell described with its third vector reversed
        Of = O + V[2]
        Vf[2] = -V[2]
    V2, O2 = a.vects, a.origin
    if not lammps_norm(V2) or not res.box.is_lammps_norm():
        bad('not-lammps-compatible', 'normalised cell is not LAMMPS compatible', observed=V2)
    if not np.linalg.det(V2) > 0:
        bad('left-handed', 'normalised cell is not right-handed')
        return a
    G, G2 = Vf @ Vf.T, V2 @ V2.T
    if np.abs(G2 - G).max() > 1e-8 * size * size:
        bad('lengths-angles', 'lengths/angles (Gram matrix) of the normalised cell differ from the old cell', observed=G2, expected=G)
    if abs(np.linalg.det(V2) - abs(np.linalg.det(V))) > 1e-8 * abs(np.linalg.det(V)):
        bad('volume', 'volume changed')
    if np.abs(V2 - Vf @ T.T).max() > 1e-8 * size:
        bad('transform-does-not-relate-cells', 'new vects != old vects (third reversed if left-handed) . T^t',
            observed=V2, expected=Vf @ T.T)
    if not a.same_data(b):
        bad('data-changed', 'normalize changed per-atom data, order, symbols or pbc')
        return a
    s2 = (a.pos - O2) @ np.linalg.inv(V2)
    if s2.min() < -TOL_IN or s2.max() > 1 + TOL_IN:
        bad('atom-outside', 'atom outside the normalised cell: relative %g .. %g' % (s2.min(), s2.max()), rel=s2)
    # atoms are moved only by the rotation (about the cell origin) and whole cell vectors
    s1 = (b.pos - Of) @ np.linalg.inv(Vf)
    ds = s2 - s1
    res_cart = np.abs((ds - np.rint(ds)) @ V2).max()
    if res_cart > 1e-10 * size * (1 + np.abs(s1).max()) + 1e-11 * np.abs(O).max():
        bad('relative-positions-changed', 'relative coordinates changed by other than integers (Cartesian residual %g)' % res_cart,
            before=s1, after=s2)
    # true nearest-image distances of all pairs
    if b.natoms > 1:
        ii, jj = np.triu_indices(b.natoms, 1)
        d1 = nearest_image_dist(b.pos[jj] - b.pos[ii], V)
        d2 = nearest_image_dist(a.pos[jj] - a.pos[ii], V2)
        if np.abs(d1 - d2).max() > 1e-9 * size:
            bad('pair-distance-changed', 'a true nearest-image interatomic distance changed by %g' % np.abs(d1 - d2).max(),
                before=d1, after=d2)
        chk.note('pair-distances', len(ii))
    return a


@chk.clause('normalize')
def normalize(case):
    name, v, o = CELLS[case['cell']]
    pbc = (True, True, True)
    fails = []
    for rel in placements(case):
        system, pos = build(v, o, rel, pbc)
        b = Snap(system)
        f = []
        res, T = system.normalize(return_transform=True)
        if not Snap(system).same(b):
            f.append(Fail(key='input-modified', msg='System.normalize changed the system it was called on'))
        a = judge_normalize(b, res, T, f, '')
        res2, T2 = atomman.lammps.normalize(system, return_transform=True)
        if not Snap(system).same(b):
            f.append(Fail(key='input-modified', msg='atomman.lammps.normalize changed the system it was called on'))
        if not f:
            judge_normalize(b, res2, T2, f, 'lammps.normalize-')
        res3 = system.normalize()
        if not isinstance(res3, am.System) or not Snap(res3).same(a):
            f.append(Fail(key='without-transform', msg='normalize() without return_transform gives another system'))
        chk.note('calls', 3)
        chk.note('normalize-systems')
        if np.abs(np.asarray(T) - np.eye(3)).max() > 1e-6 or np.linalg.det(v) < 0 or np.any(rel < 0) or np.any(rel > 1):
            chk.note('nontrivial')
        for x in f:
            x['rel'] = rel.tolist()
        fails += f
    return fails


# ---------------------------------------------------------------------------------------------------

def gen():
    for ci in range(len(CELLS)):
        kinds = [{'kind': 'single', 'lo': lo} for lo in range(0, len(SINGLES), 64)]
        kinds += [{'kind': 'pair', 'i': i} for i in range(len(PAIRGRID) - 1)]
        kinds += [{'kind': 'triple'}, {'kind': 'far'}]
        for k in kinds:
            yield 'normalize', dict(k, cell=ci)
            for pi in range(len(PBCS)):
                yield 'wrap', dict(k, cell=ci, pbc=pi)


if __name__ == '__main__':
    chk.run_cases(gen(), batch=4)
    cov = {'evaluations': chk.notes.get('calls', 0),
           'distinct_nontrivial': chk.notes.get('nontrivial', 0),
           'cells': len(CELLS), 'systems_wrapped': chk.notes.get('wrap-systems', 0),
           'systems_normalized': chk.notes.get('normalize-systems', 0)}
    sys.exit(chk.finish(cov))
