"""C18 - GammaSurface (nodes, periodicity, coordinate conversions, data-model round trip)
and SDVPN (energy terms vs. independent evaluations of the documented formulas, total = sum,
elastic term a symmetric bilinear, shift-invariant form, solve() monotone with fixed ends,
classical half-width for a sinusoidal misfit law).

Bounded-exhaustive enumeration (nothing sampled):
  gamma clauses : geometries x (n1,n2) in {4,5,6}^2 x duplicated-edge x delta, every node x 25 period
                  pairs, 49 (+seed) off-node points x 25 period pairs, three input routes (a1/a2, pos, x/y),
                  N in {1,2,3,4,7} positions per call, scalar / (3,) / list / int-typed input, model round
                  trips through DataModelDict / JSON / XML in two unit settings
  SDVPN clauses : dislocation systems x profiles x x-grids, inside each case the full product
                  tau x alpha x beta x 16 flag settings; oracles are pure-python (math module) double loops
                  written from the docstring formulas of atomman/defect/SDVPN.py
"""
import io
import itertools
import math
import sys

import numpy as np

from mc.common import Check, Fail, SEED, THOROUGH, assert_overlay

am = assert_overlay()
uc = am.unitconvert
GammaSurface = am.defect.GammaSurface
SDVPN = am.defect.SDVPN

chk = Check('C18', 'exploration',
            'full products: gamma-surface geometries (cubic/hexagonal/triclinic/no box; rectangular and oblique '
            'shift vectors; 3- and 4-index) x grids {4,5,6}^2 x duplicated a=1 edge x delta data; every node and '
            '49(+seed) off-node points x period pairs {-2,-1,0,1,3}^2 x routes (a1a2 / pos / xy) x smooth/nearest; '
            'conversions for N in {1,2,3,4,7} positions (array, scalar, (3,), list, alternative basis / xvect); '
            'model round trips DM/JSON/XML x 2 unit settings; SDVPN: systems (anisotropic edge / mixed / rotated '
            'm,n axes / orthorhombic K with K13 != 0 / isotropic screw / hexagonal basal) x profiles (arctan family, '
            'generic mixed, node-valued) x x-grids (N x dx x offset), and inside every case the full product '
            'tau (2) x alpha (quick: default / [0.1,0.05] / scalar; thorough: + [0.0], [0.1]) x beta (3) x all 16 (fullstress, '
            'cdiffelastic, cdiffsurface, cdiffstress); bilinear/shift clauses on '
            'profile pairs; solve() on capped minimisations; half-width on long grids; live: all length-3 histories of (grid, profile) evaluations with a setter change in between on ONE SDVPN object (4 grids incl. equal point count / different spacing x 6 setter choices), each answer compared with a fresh object.  evaluations = individual '
            'gamma-surface point queries + converted positions + energy-term comparisons; non-trivial = gamma queries that are off-node or need a non-zero period wrap, '
            'conversions of >= 2 positions, and energy-term comparisons whose oracle value is non-zero')
chk.assumptions = [
    'node reproduction to 1e-8*max|E| (RBF linear solve), periodicity / route agreement to 1e-9*max|E|; off-node '
    'points keep >= 5e-3 from the nearest-interpolant cell boundaries (i+1/2)/n, n in {4,5,6}',
    'conversions compared to 1e-12*(|a1vect|+|a2vect|)*(1+max|a|); result shapes only required to hold N entries',
    'a table given with the duplicated a=1 edge must give the surface of the same table without it (fit() documents '
    'that those rows are ignored; identical point sets), compared off-node outside the edge-blending zone to 1e-8*max|E|',
    'energy terms compared to 1e-10 * sum|terms| of the oracle loop (different summation order only)',
    'the fullstress=False docstring formula is read with the sign flip the source states ("Flip sign on tau so '
    'energies match full=True"); the promised equivalence of the two stress expressions is checked as: their '
    'difference equals -tau_2l (x[-1] d_l[-1] - x[0] d_l[0]) (exact summation by parts)',
    'beta menus are symmetric matrices (the docstring index order beta_lj vs. the code beta_jl is not decidable)',
    'volterra.K_tensor / transform / burgers (property C12/C13) are trusted; the rotation into the (m,n,xi) frame '
    'done by SDVPN is recomputed by index loops',
    'half-width: minimiser of a least-squares parabola in ln(zeta) through zeta/zeta* in {0.8..1.3} within 10% of '
    'zeta* = K b^2/(4 pi^2 gamma0) for X/zeta* >= 50, dx <= b/10, and not farther when the window is doubled',
    'solve(): scipy Powell / Nelder-Mead keep the best point seen; no convergence claim',
]

PI = math.pi

# --------------------------------------------------------------------------------------------
# plain-python vector helpers (oracles never call atomman conversion code)


def v_add(a, b):
    return [a[0] + b[0], a[1] + b[1], a[2] + b[2]]


def v_scale(s, a):
    return [s * a[0], s * a[1], s * a[2]]


def v_dot(a, b):
    return a[0] * b[0] + a[1] * b[1] + a[2] * b[2]


def v_cross(a, b):
    return [a[1] * b[2] - a[2] * b[1], a[2] * b[0] - a[0] * b[2], a[0] * b[1] - a[1] * b[0]]


def v_norm(a):
    return math.sqrt(v_dot(a, a))


def v_unit(a):
    n = v_norm(a)
    return [a[0] / n, a[1] / n, a[2] / n]


def crystal_to_cart(uvw, vects):
    """uvw (3- or 4-index) in the cell 'vects' (rows = cell vectors) -> Cartesian list"""
    uvw = [float(t) for t in uvw]
    if len(uvw) == 4:                       # Miller-Bravais [UVTW] -> [U-T, V-T, W]
        uvw = [uvw[0] - uvw[2], uvw[1] - uvw[2], uvw[3]]
    return [sum(uvw[i] * float(vects[i][k]) for i in range(3)) for k in range(3)]


def solve_plane(p, A1, A2):
    """(a1, a2) with p = a1*A1 + a2*A2 (normal equations of the 2-d plane basis)"""
    g11, g12, g22 = v_dot(A1, A1), v_dot(A1, A2), v_dot(A2, A2)
    r1, r2 = v_dot(p, A1), v_dot(p, A2)
    det = g11 * g22 - g12 * g12
    return (r1 * g22 - r2 * g12) / det, (g11 * r2 - g12 * r1) / det


# --------------------------------------------------------------------------------------------
# gamma-surface alphabet

def _boxes():
    return {
        'cubic': am.Box.cubic(4.05),
        'hex': am.Box.hexagonal(3.2, 5.2),
        'tri': am.Box(a=3.1 + 0.11 * (SEED % 8), b=4.2 - 0.07 * (SEED % 8), c=5.3, alpha=80 + 1.3 * (SEED % 8),
                      beta=95 - 0.9 * (SEED % 8), gamma=105 + 0.7 * (SEED % 8)),
        'none': None,
    }


BOXES = _boxes()
# name, box key, a1vect, a2vect
GEOMS = [
    ('cubic-rect-111', 'cubic', [0.5, 0.0, -0.5], [0.5, -1.0, 0.5]),
    ('cubic-oblique-111', 'cubic', [0.5, 0.0, -0.5], [0.0, 0.5, -0.5]),
    ('hex-oblique-basal', 'hex', [1.0, 0.0, 0.0], [0.0, 1.0, 0.0]),
    ('hex-rect-basal', 'hex', [1.0, 0.0, 0.0], [1.0, 2.0, 0.0]),
    ('hex-4index-basal', 'hex', [2 / 3, -1 / 3, -1 / 3, 0.0], [-1 / 3, 2 / 3, -1 / 3, 0.0]),
    ('hex-rect-prism', 'hex', [1.0, 0.0, 0.0], [0.0, 0.0, 1.0]),
    ('nobox-oblique', 'none', [2.86, 0.0, 0.0], [1.43, 0.0, 2.48]),
    ('tri-seed-slice', 'tri', [1.0, 0.0, 0.0], [0.0, 1.0, 0.0]),
]
NS = [4, 5, 6]
PERIODS = [-2, -1, 0, 1, 3]
F_CORE = [0.013, 0.161, 0.33, 0.468, 0.77, 0.9371, 0.985]
F_SEED = [0.052, 0.218, 0.274, 0.44, 0.55, 0.66, 0.81, 0.955]     # pre-vetted against (i+1/2)/n, n=4,5,6
F_OFF = F_CORE + [F_SEED[SEED % 8], F_SEED[(SEED + 3) % 8]]
NPOS = [1, 2, 3, 4, 7]
# (a1, a2) menu for the conversion clause: inside, outside, negative, zero
A12_MENU = [(0.31, 0.62), (-0.4, 1.7), (0.0, 0.0), (1.0, 0.25), (2.375, -1.125), (0.05, 0.93), (-2.5, -0.75)]


def _vet_off():
    for f in F_OFF:
        for n in NS:
            for i in range(n):
                assert abs(f - (i + 0.5) / n) >= 5e-3, (f, n, i)


_vet_off()


def etable(n1, n2, salt):
    E = [[0.004 + 0.012 * ((5 * i + 3 * j + i * j + salt) % 7) + 0.0021 * i + 0.0008 * j for j in range(n2)]
         for i in range(n1)]
    D = [[-0.05 + 0.03 * ((2 * i + 5 * j + salt) % 5) + 0.001 * i - 0.0007 * j for j in range(n2)]
         for i in range(n1)]
    return E, D


class G(object):
    """one real GammaSurface plus everything the oracles need (all plain python)"""


def make_gamma(geom, n1, n2, dup, hasdelta, salt=0, reverse=False, table=None):
    name, bk, a1v, a2v = GEOMS[geom]
    box = BOXES[bk]
    E, D = table if table is not None else etable(n1, n2, salt)
    rows = []
    for i in range(n1 + (1 if dup else 0)):
        for j in range(n2 + (1 if dup else 0)):
            rows.append((i / n1, j / n2, E[i % n1][j % n2], D[i % n1][j % n2]))
    if reverse:
        rows.reverse()
    kw = dict(a1vect=list(a1v), a2vect=list(a2v), a1=[r[0] for r in rows], a2=[r[1] for r in rows],
              E_gsf=[r[2] for r in rows])
    if box is not None:
        kw['box'] = box
    if hasdelta:
        kw['delta'] = [r[3] for r in rows]
    o = G()
    o.g = GammaSurface(**kw)
    vects = box.vects.tolist() if box is not None else [[1.0, 0, 0], [0, 1.0, 0], [0, 0, 1.0]]
    o.vects = vects
    o.A1 = crystal_to_cart(a1v, vects)
    o.A2 = crystal_to_cart(a2v, vects)
    o.n1, o.n2, o.E, o.D, o.dup, o.hasdelta = n1, n2, E, D, dup, hasdelta
    o.Emax = max(max(abs(t) for t in r) for r in E)
    o.Dmax = max(max(abs(t) for t in r) for r in D)
    o.rows = rows
    o.a1v3 = a1v if len(a1v) == 3 else [a1v[0] - a1v[2], a1v[1] - a1v[2], a1v[3]]
    o.a2v3 = a2v if len(a2v) == 3 else [a2v[0] - a2v[2], a2v[1] - a2v[2], a2v[3]]
    o.nhat = v_unit(v_cross(o.A1, o.A2))
    o.xhat = v_unit(o.A1)
    o.yhat = v_cross(o.nhat, o.xhat)
    o.lscale = v_norm(o.A1) + v_norm(o.A2)
    return o


def o_pos(o, a1, a2, A1=None, A2=None):
    A1 = A1 or o.A1
    A2 = A2 or o.A2
    return [v_add(v_scale(p, A1), v_scale(q, A2)) for p, q in zip(a1, a2)]


def o_xy(o, pos, xhat=None):
    xhat = xhat or o.xhat
    yhat = v_cross(o.nhat, xhat)
    return [v_dot(p, xhat) for p in pos], [v_dot(p, yhat) for p in pos]


def call(key, fails, fn, *a, **k):
    """run one real call; an exception becomes a Fail with a call-site key"""
    try:
        return fn(*a, **k)
    except Exception as e:           # noqa
        fails.append(Fail(key='%s:%s' % (key, type(e).__name__), msg='%s raised %s: %s' % (key, type(e).__name__, e)))
        return None


def close(obs, exp, tol):
    """same number of entries and all within tol"""
    try:
        obs = np.asarray(obs, dtype=float)
    except Exception:
        return False
    exp = np.asarray(exp, dtype=float)
    if obs.size != exp.size:
        return False
    return bool(np.all(np.abs(obs.reshape(-1) - exp.reshape(-1)) <= tol))


def maxdiff(obs, exp):
    try:
        return float(np.abs(np.asarray(obs, float).reshape(-1) - np.asarray(exp, float).reshape(-1)).max())
    except Exception:
        return None


def cmp(fails, key, obs, exp, tol, **extra):
    chk.note('comparisons')
    if obs is None:
        return False
    if not close(obs, exp, tol):
        fails.append(Fail(key=key, msg='%s differs from the oracle' % key, maxdiff=maxdiff(obs, exp), tol=tol,
                          observed=np.asarray(obs).reshape(-1)[:6], expected=np.asarray(exp).reshape(-1)[:6], **extra))
        return False
    return True


def route_kwargs(o, route, a1, a2, form='array'):
    """the same points expressed for one input route of E_gsf/delta"""
    if route == 'a12':
        if form == 'scalar':
            return dict(a1=float(a1[0]), a2=float(a2[0]))
        if form == 'list':
            return dict(a1=list(a1), a2=list(a2))
        return dict(a1=np.array(a1, dtype=float), a2=np.array(a2, dtype=float))
    pos = o_pos(o, a1, a2)
    if route == 'pos':
        if form == 'scalar':
            return dict(pos=np.array(pos[0]))
        if form == 'list':
            return dict(pos=[list(p) for p in pos])
        return dict(pos=np.array(pos))
    x, y = o_xy(o, pos)
    if form == 'scalar':
        return dict(x=float(x[0]), y=float(y[0]))
    if form == 'list':
        return dict(x=list(x), y=list(y))
    return dict(x=np.array(x), y=np.array(y))


ROUTES = ['a12', 'pos', 'xy']


@chk.clause('nodes')
def nodes(case):
    """node energies (and delta) reproduced at every node shifted by every period pair, through every route"""
    o = make_gamma(case['geom'], case['n1'], case['n2'], case['dup'], case['delta'], salt=case.get('salt', 0),
                   reverse=bool(case.get('rev', 0)))
    g = o.g
    fails = []
    ii, jj, a1, a2, eE, eD = [], [], [], [], [], []
    for (k1, k2) in itertools.product(PERIODS, repeat=2):
        for i in range(o.n1 + o.dup):
            for j in range(o.n2 + o.dup):
                a1.append(i / o.n1 + k1)
                a2.append(j / o.n2 + k2)
                eE.append(o.E[i % o.n1][j % o.n2])
                eD.append(o.D[i % o.n1][j % o.n2])
    tolE, tolD = 1e-8 * o.Emax, 1e-8 * o.Dmax
    nz = sum(1 for p, q in zip(a1, a2) if not (0 <= p < 1 and 0 <= q < 1))
    for route in ROUTES:
        kw = route_kwargs(o, route, a1, a2)
        for smooth in (True, False):
            r = call('E_gsf-%s' % route, fails, g.E_gsf, smooth=smooth, **kw)
            if cmp(fails, 'node-energy-%s-%s' % (route, 'smooth' if smooth else 'nearest'), r, eE, tolE):
                chk.note('gamma-queries', len(a1))
                chk.note('gamma-queries-nontrivial', nz)
            if o.hasdelta:
                r = call('delta-%s' % route, fails, g.delta, smooth=smooth, **kw)
                if cmp(fails, 'node-delta-%s-%s' % (route, 'smooth' if smooth else 'nearest'), r, eD, tolD):
                    chk.note('gamma-queries', len(a1))
                    chk.note('gamma-queries-nontrivial', nz)
        # one position at a time (scalar a1/a2, a single (3,) vector, scalar x/y) for a sub-grid of the nodes
        for k in range(0, len(a1), 37):
            kw1 = route_kwargs(o, route, a1[k:k + 1], a2[k:k + 1], form='scalar')
            r = call('E_gsf-%s-single' % route, fails, g.E_gsf, **kw1)
            cmp(fails, 'node-energy-%s-single' % route, r, [eE[k]], tolE)
            chk.note('gamma-queries')
        # the first N points, N = 1,2,3,4,7 (N = 3 is the shape-ambiguous count), arrays and lists
        for n in NPOS:
            for form in ('array', 'list'):
                kwn = route_kwargs(o, route, a1[5:5 + n], a2[5:5 + n], form=form)
                r = call('E_gsf-%s-%s' % (route, form), fails, g.E_gsf, **kwn)
                cmp(fails, 'node-energy-%s-%s-N' % (route, form), r, eE[5:5 + n], tolE, N=n)
                chk.note('gamma-queries', n)
    if not o.hasdelta:
        try:
            g.delta(a1=0.0, a2=0.0)
            fails.append(Fail(key='delta-without-data', msg='delta() answered although no plane-separation data was given'))
        except AttributeError:
            pass
    # integer-typed fractional coordinates (0, 1, -2 are the most natural "integer period" queries)
    ia = [0, 1, -2, 3, 0]
    ib = [0, 0, 1, -1, 3]
    r = call('E_gsf-a12-int', fails, g.E_gsf, a1=np.array(ia), a2=np.array(ib))
    cmp(fails, 'node-energy-a12-int', r, [o.E[0][0]] * 5, tolE)
    r = call('E_gsf-a12-int', fails, g.E_gsf, a1=1, a2=0)
    cmp(fails, 'node-energy-a12-int', r, [o.E[0][0]], tolE)
    if o.hasdelta:
        r = call('delta-a12-int', fails, g.delta, a1=np.array(ia), a2=np.array(ib))
        cmp(fails, 'node-delta-a12-int', r, [o.D[0][0]] * 5, tolD)
    return fails


@chk.clause('periodic')
def periodic(case):
    """off-node points: value unchanged by every integer period pair, identical through the three routes"""
    o = make_gamma(case['geom'], case['n1'], case['n2'], case['dup'], case['delta'], salt=case.get('salt', 0))
    g = o.g
    fails = []
    base1 = [f for f in F_OFF for _ in F_OFF]
    base2 = [f for _ in F_OFF for f in F_OFF]
    nb = len(base1)
    tolE, tolD = 1e-9 * o.Emax, 1e-9 * o.Dmax
    for smooth in (True, False):
        tag = 'smooth' if smooth else 'nearest'
        ref = call('E_gsf-a12', fails, g.E_gsf, a1=np.array(base1), a2=np.array(base2), smooth=smooth)
        refd = call('delta-a12', fails, g.delta, a1=np.array(base1), a2=np.array(base2), smooth=smooth) if o.hasdelta else None
        if ref is None:
            continue
        ref = np.asarray(ref, float)
        if not smooth:
            # the nearest interpolant must return the value of the nearest node (independent search)
            exp = []
            for p, q in zip(base1, base2):
                i = int(math.floor(p * o.n1 + 0.5)) % o.n1
                j = int(math.floor(q * o.n2 + 0.5)) % o.n2
                exp.append(o.E[i][j])
            cmp(fails, 'nearest-value', ref, exp, 1e-8 * o.Emax)
        if o.dup:
            # fit() documents "Ignore a1, a2=1.0 values if included": the duplicated edge carries no information, so
            # the interpolant must be the one obtained from the same table without it (same points -> same linear
            # solve).  Compared only outside the edge-blending zone [-c, c), c = 1/(2 n1): inside it the blending
            # width is taken from the raw a1.max() and therefore differs with the duplicated edge (not promised).
            cz = 0.5 / o.n1
            inn = [k for k in range(nb) if cz <= base1[k] < 1 - cz and cz <= base2[k] < 1 - cz]
            o0 = make_gamma(case['geom'], case['n1'], case['n2'], 0, case['delta'], salt=case.get('salt', 0))
            r0 = call('E_gsf-a12', fails, o0.g.E_gsf, a1=np.array(base1), a2=np.array(base2), smooth=smooth)
            if r0 is not None and cmp(fails, 'dup-edge-changes-energy-%s' % tag, ref[inn], np.asarray(r0)[inn], 1e-8 * o.Emax):
                chk.note('gamma-queries', len(inn))
                chk.note('gamma-queries-nontrivial', len(inn))
            if refd is not None:
                r0 = call('delta-a12', fails, o0.g.delta, a1=np.array(base1), a2=np.array(base2), smooth=smooth)
                if r0 is not None:
                    cmp(fails, 'dup-edge-changes-delta-%s' % tag, np.asarray(refd)[inn], np.asarray(r0)[inn], 1e-8 * o.Dmax)
        for (k1, k2) in itertools.product(PERIODS, repeat=2):
            a1 = [p + k1 for p in base1]
            a2 = [q + k2 for q in base2]
            for route in ROUTES:
                if (k1, k2) == (0, 0) and route == 'a12':
                    continue
                kw = route_kwargs(o, route, a1, a2)
                r = call('E_gsf-%s' % route, fails, g.E_gsf, smooth=smooth, **kw)
                if cmp(fails, 'periodic-energy-%s-%s' % (route, tag), r, ref, tolE, period=[k1, k2]):
                    chk.note('gamma-queries', nb)
                    chk.note('gamma-queries-nontrivial', nb)
                if refd is not None:
                    r = call('delta-%s' % route, fails, g.delta, smooth=smooth, **kw)
                    if cmp(fails, 'periodic-delta-%s-%s' % (route, tag), r, refd, tolD, period=[k1, k2]):
                        chk.note('gamma-queries', nb)
                        chk.note('gamma-queries-nontrivial', nb)
        # the caller's arrays are not modified by the wrapping
        q1 = np.array(base1) + 3
        q2 = np.array(base2) - 2
        c1, c2 = q1.copy(), q2.copy()
        call('E_gsf-a12', fails, g.E_gsf, a1=q1, a2=q2, smooth=smooth)
        P = np.array(o_pos(o, q1.tolist(), q2.tolist()))
        Pc = P.copy()
        call('E_gsf-pos', fails, g.E_gsf, pos=P, smooth=smooth)
        if not (np.array_equal(q1, c1) and np.array_equal(q2, c2) and np.array_equal(P, Pc)):
            fails.append(Fail(key='input-mutated', msg='E_gsf modified the arrays it was given'))
    return fails


@chk.clause('convert')
def convert(case):
    """a12 <-> pos <-> xy: each conversion equals the independent formula, and they are mutual inverses"""
    o = make_gamma(case['geom'], 4, 4, 0, 0)
    g = o.g
    n = case['N']
    form = case['form']
    start = case['start']
    fails = []
    pts = [A12_MENU[(start + k) % len(A12_MENU)] for k in range(n)]
    a1 = [p[0] for p in pts]
    a2 = [p[1] for p in pts]
    amax = 1 + max(abs(t) for t in a1 + a2)
    tolp = 1e-12 * o.lscale * amax
    tola = 1e-12 * amax * 4
    # alternative basis / plotting axis
    if case['alt']:
        # alt 1: both basis vectors given; alt 2 / 3: only a1vect / only a2vect given, the other one is the object's own
        u = list(o.a1v3) if case['alt'] == 3 else v_add(o.a1v3, o.a2v3)
        w = v_add(o.a1v3, o.a2v3) if case['alt'] == 3 else list(o.a2v3)
        U, W = crystal_to_cart(u, o.vects), crystal_to_cart(w, o.vects)
        xv = list(o.A2)
        kwb = dict(a1vect=np.array(u), a2vect=np.array(w))
        if case['alt'] == 2:
            del kwb['a2vect']
        elif case['alt'] == 3:
            del kwb['a1vect']
        kwx = dict(xvect=np.array(xv))
        xhat = v_unit(xv)
    else:
        U, W = o.A1, o.A2
        kwb, kwx, xhat = {}, {}, None
    pos = o_pos(o, a1, a2, U, W)
    x, y = o_xy(o, pos, xhat)

    def wrap(vals, kind):
        if kind == 'pos':
            if form == 'single':
                return np.array(vals[0])
            if form == 'list':
                return [list(p) for p in vals]
            return np.array(vals)
        if form == 'single':
            return float(vals[0])
        if form == 'list':
            return list(vals)
        return np.array(vals)

    nontriv = n >= 2
    r = call('a12_to_pos', fails, g.a12_to_pos, wrap(a1, 's'), wrap(a2, 's'), **kwb)
    cmp(fails, 'a12_to_pos', r, pos, tolp, N=n)
    r = call('pos_to_a12', fails, g.pos_to_a12, wrap(pos, 'pos'), **kwb)
    if r is not None:
        cmp(fails, 'pos_to_a12', r[0], a1, tola, N=n)
        cmp(fails, 'pos_to_a12', r[1], a2, tola, N=n)
    r = call('pos_to_xy', fails, g.pos_to_xy, wrap(pos, 'pos'), **kwx)
    if r is not None:
        cmp(fails, 'pos_to_xy', r[0], x, tolp, N=n)
        cmp(fails, 'pos_to_xy', r[1], y, tolp, N=n)
    r = call('xy_to_pos', fails, g.xy_to_pos, wrap(x, 's'), wrap(y, 's'), **kwx)
    cmp(fails, 'xy_to_pos', r, pos, tolp, N=n)
    # composite conversions
    kwbx = dict(kwb)
    kwbx.update(kwx)
    r = call('a12_to_xy', fails, g.a12_to_xy, wrap(a1, 's'), wrap(a2, 's'), **kwbx)
    if r is not None:
        cmp(fails, 'a12_to_xy', r[0], x, tolp, N=n)
        cmp(fails, 'a12_to_xy', r[1], y, tolp, N=n)
    r = call('xy_to_a12', fails, g.xy_to_a12, wrap(x, 's'), wrap(y, 's'), **kwbx)
    if r is not None:
        cmp(fails, 'xy_to_a12', r[0], a1, tola, N=n)
        cmp(fails, 'xy_to_a12', r[1], a2, tola, N=n)
    if case['alt']:
        # default x axis = the given a1vect
        xd, yd = o_xy(o, pos, v_unit(U))
        r = call('a12_to_xy', fails, g.a12_to_xy, wrap(a1, 's'), wrap(a2, 's'), **kwb)
        if r is not None:
            cmp(fails, 'a12_to_xy-default-x', r[0], xd, tolp, N=n)
            cmp(fails, 'a12_to_xy-default-x', r[1], yd, tolp, N=n)
        r = call('xy_to_a12', fails, g.xy_to_a12, wrap(xd, 's'), wrap(yd, 's'), **kwb)
        if r is not None:
            cmp(fails, 'xy_to_a12-default-x', r[0], a1, tola, N=n)
            cmp(fails, 'xy_to_a12-default-x', r[1], a2, tola, N=n)
        # a query in the alternative basis is the query at the same Cartesian point
        ref = call('E_gsf-a12', fails, g.E_gsf, a1=np.array([solve_plane(p, o.A1, o.A2)[0] for p in pos]),
                   a2=np.array([solve_plane(p, o.A1, o.A2)[1] for p in pos]))
        r = call('E_gsf-a12-altbasis', fails, g.E_gsf, a1=wrap(a1, 's'), a2=wrap(a2, 's'), **kwb)
        if ref is not None:
            cmp(fails, 'E_gsf-altbasis', r, ref, 1e-9 * o.Emax, N=n)
    # mutual inverses with the real functions only (arrays in, arrays out)
    if form != 'list':
        p1 = call('a12_to_pos', fails, g.a12_to_pos, wrap(a1, 's'), wrap(a2, 's'), **kwb)
        if p1 is not None:
            r = call('pos_to_a12', fails, g.pos_to_a12, p1, **kwb)
            if r is not None:
                cmp(fails, 'inverse-a12-pos-a12', r[0], a1, tola, N=n)
                cmp(fails, 'inverse-a12-pos-a12', r[1], a2, tola, N=n)
            r = call('pos_to_xy', fails, g.pos_to_xy, p1, **kwx)
            if r is not None:
                p2 = call('xy_to_pos', fails, g.xy_to_pos, r[0], r[1], **kwx)
                cmp(fails, 'inverse-pos-xy-pos', p2, pos, tolp, N=n)
                r2 = call('xy_to_a12', fails, g.xy_to_a12, r[0], r[1], **kwbx)
                if r2 is not None:
                    cmp(fails, 'inverse-a12-xy-a12', r2[0], a1, tola, N=n)
                    cmp(fails, 'inverse-a12-xy-a12', r2[1], a2, tola, N=n)
    chk.note('conversion-positions', n)
    if nontriv:
        chk.note('conversion-positions-nontrivial', n)
    # an out-of-plane plotting axis is refused
    if case['alt'] and n == 1:
        try:
            g.pos_to_xy(np.array(pos[0]), xvect=np.array(v_add(o.A1, o.nhat)))
            fails.append(Fail(key='xvect-out-of-plane-accepted', msg='pos_to_xy accepted an xvect outside the fault plane'))
        except ValueError:
            pass
    return fails


UNITSETS = [dict(), dict(length_unit='nm', energyperarea_unit='eV/angstrom^2')]


@chk.clause('model')
def model(case):
    """GammaSurface -> model() -> (DataModelDict | JSON | XML | file-like) -> GammaSurface"""
    uc.reset_units(length='angstrom', mass='amu', energy='eV', charge='e')
    o = make_gamma(case['geom'], case['n1'], case['n2'], case['dup'], case['delta'], salt=case.get('salt', 0))
    g = o.g
    fails = []
    m = call('model', fails, g.model, **UNITSETS[case['units']])
    if m is None:
        return fails
    fmt = case['fmt']
    src = call('serialise-' + fmt, fails, lambda: {'dm': lambda: m, 'json': lambda: m.json(), 'xml': lambda: m.xml(),
                                                 'jsonfile': lambda: io.BytesIO(m.json(indent=2).encode('utf-8'))}[fmt]())
    if src is None:
        return fails
    g2 = call('load-' + fmt, fails, GammaSurface, model=src)
    if g2 is None:
        return fails
    t = 1e-12
    cmp(fails, 'model-a1vect', g2.a1vect, o.a1v3, t)
    cmp(fails, 'model-a2vect', g2.a2vect, o.a2v3, t)
    cmp(fails, 'model-box', g2.box.vects, o.vects, t * 10)
    cmp(fails, 'model-planenormal', g2.planenormal, g.planenormal, t)
    d = g2.data
    cmp(fails, 'model-a1', d.a1.values, [r[0] for r in o.rows], t)
    cmp(fails, 'model-a2', d.a2.values, [r[1] for r in o.rows], t)
    cmp(fails, 'model-E', d.E_gsf.values, [r[2] for r in o.rows], t * o.Emax * 10)
    if ('delta' in d) != bool(o.hasdelta):
        fails.append(Fail(key='model-delta-presence', msg='plane-separation data %s after the round trip'
                          % ('appeared' if 'delta' in d else 'lost')))
    elif o.hasdelta:
        cmp(fails, 'model-delta', d.delta.values, [r[3] for r in o.rows], t * o.Dmax * 10)
    # same interpolant afterwards (nodes + off-node points, shifted by periods)
    a1 = np.array([f + k for f in F_OFF for k in (0, -1, 3)] + [i / o.n1 for i in range(o.n1)])
    a2 = np.array([f + k for f in reversed(F_OFF) for k in (1, 0, -2)] + [(j % o.n2) / o.n2 for j in range(o.n1)])
    for smooth in (True, False):
        e1 = call('E_gsf-a12', fails, g.E_gsf, a1=a1, a2=a2, smooth=smooth)
        e2 = call('E_gsf-a12', fails, g2.E_gsf, a1=a1, a2=a2, smooth=smooth)
        if e1 is not None:
            cmp(fails, 'model-E_gsf-query', e2, e1, 1e-9 * o.Emax)
            chk.note('gamma-queries', len(a1))
            chk.note('gamma-queries-nontrivial', len(a1))
        if o.hasdelta:
            e1 = call('delta-a12', fails, g.delta, a1=a1, a2=a2, smooth=smooth)
            e2 = call('delta-a12', fails, g2.delta, a1=a1, a2=a2, smooth=smooth)
            if e1 is not None:
                cmp(fails, 'model-delta-query', e2, e1, 1e-9 * o.Dmax)
    chk.note('model-round-trips')
    return fails


# --------------------------------------------------------------------------------------------
# SDVPN: systems, profiles, grids, settings

def _systems():
    cub = am.Box.cubic(4.05)
    hexb = am.Box.hexagonal(3.2, 5.2)
    Ccub = dict(C11=1.1, C12=0.6, C44=0.3)
    Cort = dict(C11=1.1, C12=0.6, C13=0.5, C22=1.3, C23=0.55, C33=0.9, C44=0.3, C55=0.25, C66=0.35)
    Chex = dict(C11=0.4, C12=0.16, C13=0.13, C33=0.39, C44=0.1)
    Ciso = dict(E=0.7, nu=0.33)
    return [
        # name, C, box, burgers uvw, xi uvw, slip hkl, m, n, gamma a1vect, a2vect
        ('fcc-edge-aniso', Ccub, cub, [0.5, 0, -0.5], [1, -2, 1], [1, 1, 1], 'x', 'y', [0.5, 0, -0.5], [0.5, -1, 0.5]),
        ('fcc-60deg-aniso', Ccub, cub, [0.5, 0, -0.5], [0, 1, -1], [1, 1, 1], 'x', 'y', [0.5, 0, -0.5], [0, 0.5, -0.5]),
        ('fcc-60deg-axes-yz', Ccub, cub, [0.5, 0, -0.5], [0, 1, -1], [1, 1, 1], 'y', 'z', [0.5, 0, -0.5], [0, 0.5, -0.5]),
        ('ortho-K13', Cort, cub, [0.5, 0, -0.5], [0, 1, -1], [1, 1, 1], 'x', 'y', [0.5, 0, -0.5], [0.5, -1, 0.5]),
        ('iso-screw', Ciso, cub, [0.5, 0, -0.5], [1, 0, -1], [1, 1, 1], 'x', 'y', [0.5, 0, -0.5], [0.5, -1, 0.5]),
        ('hex-basal-edge', Chex, hexb, [1, 1, 0], [1, -1, 0], [0, 0, 1], 'x', 'y', [1, 0, 0], [0, 1, 0]),
    ]


SYSTEMS = _systems()
AXES = {'x': [1.0, 0, 0], 'y': [0, 1.0, 0], 'z': [0, 0, 1.0]}
_SYS_CACHE = {}


def sin_table(n1, n2, g0):
    E = [[0.5 * g0 * (1 - math.cos(2 * PI * i / n1)) for j in range(n2)] for i in range(n1)]
    D = [[0.0] * n2 for i in range(n1)]
    return E, D


class S(object):
    pass


def make_system(si, table='generic', n1=6, n2=4, g0=None):
    key = (si, table, n1, n2, g0)
    if key in _SYS_CACHE:
        return _SYS_CACHE[key]
    name, Cd, box, buvw, xi, hkl, m, n, a1v, a2v = SYSTEMS[si]
    o = S()
    o.name = name
    C = am.ElasticConstants(**Cd)
    o.v = am.defect.solve_volterra_dislocation(C, np.array(buvw, float), ξ_uvw=xi, slip_hkl=hkl, box=box, m=m, n=n)
    # gamma surface of this slip plane
    vects = box.vects.tolist()
    o.A1, o.A2 = crystal_to_cart(a1v, vects), crystal_to_cart(a2v, vects)
    if table == 'generic':
        E, D = etable(n1, n2, 3 + si)
    else:
        E, D = sin_table(n1, n2, g0)
    rows = [(i / n1, j / n2, E[i][j]) for i in range(n1) for j in range(n2)]
    o.g = GammaSurface(a1vect=a1v, a2vect=a2v, a1=[r[0] for r in rows], a2=[r[1] for r in rows],
                       E_gsf=[r[2] for r in rows], box=box)
    o.E, o.n1, o.n2 = E, n1, n2
    o.Emax = max(max(abs(t) for t in r) for r in E)
    # rotation into the (m, n, xi) frame by index loops (what SDVPN documents it does)
    v = o.v
    M = [[float(t) for t in v.m], [float(t) for t in v.n], [float(t) for t in v.ξ]]
    Kv = v.K_tensor.tolist()
    Tv = v.transform.tolist()
    bv = v.burgers.tolist()
    o.K = [[sum(M[i][k] * Kv[k][l] * M[j][l] for k in range(3) for l in range(3)) for j in range(3)] for i in range(3)]
    o.b = [sum(M[i][k] * bv[k] for k in range(3)) for i in range(3)]
    o.T = [[sum(M[i][k] * Tv[k][j] for k in range(3)) for j in range(3)] for i in range(3)]
    o.bcart = crystal_to_cart(buvw, vects)
    o.bmag = v_norm(o.bcart)
    o.mname = m
    _SYS_CACHE[key] = o
    return o


def to_cart(o, d):
    """dislocation-frame vector -> crystal Cartesian (rows of T are the frame axes)"""
    return [sum(d[j] * o.T[j][k] for j in range(3)) for k in range(3)]


def to_frame(o, p):
    return [sum(o.T[j][k] * p[k] for k in range(3)) for j in range(3)]


def xgrid(N, dx, off):
    return [(i - (N - 1) / 2.0) * dx + off for i in range(N)]


HALFW = [0.25, 0.4, 0.6, 0.8, 1.0, 1.5, 2.5]


def profile(o, kind, x, N, dx):
    """(N,3) disregistry in the dislocation frame, y component exactly 0; returns list of lists"""
    b = o.b
    bm = o.bmag
    if kind[0] == 'arctan':
        # the library's own analytic family is an *input* here (checked separately in clause 'arctan')
        z = kind[1] * bm
        xx, d = am.defect.pn_arctan_disregistry(x=np.array(x), burgers=np.array(b), halfwidth=z)
        d = d.tolist()
    elif kind[0] == 'generic':
        s = kind[1]
        bh = v_unit(b)
        # in-plane direction perpendicular to b (frame y is the plane normal)
        ph = v_cross([0.0, 1.0, 0.0], bh)
        d = []
        for t in x:
            f = 0.6 * (math.atan((t - 0.4 * bm) / ((0.8 + 0.05 * s) * bm)) / PI + 0.5) \
                + 0.4 * (0.5 + 0.5 * math.tanh((t + 0.9 * bm) / ((1.3 - 0.04 * s) * bm)))
            w = (0.15 + 0.01 * s) * math.exp(-(t / (1.5 * bm)) ** 2) + 0.02 * math.sin(0.7 * t / bm)
            d.append(v_add(v_scale(f * bm, bh), v_scale(w * bm, ph)))
    elif kind[0] == 'nodes':
        # every value is a node of the gamma surface: (k/n1) A1 + (l/n2) A2, a staircase over several periods
        d = []
        for i in range(N):
            k = (i * 7) // N * 2 + (i % 3) - 4
            l = (i * 5) // N - (i % 2) * 3
            p = v_add(v_scale(k / o.n1, o.A1), v_scale(l / o.n2, o.A2))
            d.append(to_frame(o, p))
    else:
        raise ValueError(kind)
    for r in d:
        r[1] = 0.0
    return d


def node_profile_energy(o, N):
    tot = 0.0
    for i in range(N):
        k = (i * 7) // N * 2 + (i % 3) - 4
        l = (i * 5) // N - (i % 2) * 3
        tot += o.E[k % o.n1][l % o.n2]
    return tot


# ---- independent evaluations of the documented formulas (pure python)

def o_rho(x, d, cdiff):
    """rho[i] = (d[i]-d[i-1])/(x[i]-x[i-1])   or central   (d[i+1]-d[i-1])/(x[i+1]-x[i-1])"""
    out = []
    if not cdiff:
        for i in range(1, len(x)):
            h = x[i] - x[i - 1]
            out.append([(d[i][c] - d[i - 1][c]) / h for c in range(3)])
    else:
        for i in range(1, len(x) - 1):
            h = x[i + 1] - x[i - 1]
            out.append([(d[i + 1][c] - d[i - 1][c]) / h for c in range(3)])
    return out


def o_psi(i, j, dx):
    """psi(i,j,dx) = 1/2 (i-j)^2 dx^2 ln(|i-j| dx), 0 for i = j"""
    k = abs(i - j)
    if k == 0:
        return 0.0
    return 0.5 * k * k * dx * dx * math.log(k * dx)


def o_chi(i, j, dx):
    """chi = 3/2 dx^2 + psi(i-1,j-1) + psi(i,j) - psi(i,j-1) - psi(j,i-1)"""
    return 1.5 * dx * dx + o_psi(i - 1, j - 1, dx) + o_psi(i, j, dx) - o_psi(i, j - 1, dx) - o_psi(j, i - 1, dx)


def o_bilinear(r1, r2, K, dx):
    """1/(4 pi) sum_i sum_j chi(i,j) K_lm r1_l[i] r2_m[j]  -> (value, sum of |terms|)"""
    tot = 0.0
    sab = 0.0
    n = len(r1)
    for i in range(n):
        u = [r1[i][0] * K[0][m] + r1[i][1] * K[1][m] + r1[i][2] * K[2][m] for m in range(3)]
        for j in range(n):
            t = o_chi(i, j, dx) * (u[0] * r2[j][0] + u[1] * r2[j][1] + u[2] * r2[j][2])
            tot += t
            sab += abs(t)
    return tot / (4 * PI), sab / (4 * PI)


def o_longrange(K, b, L):
    """1/(2 pi) K_lm b_l b_m ln(L)"""
    return sum(K[l][m] * b[l] * b[m] for l in range(3) for m in range(3)) * math.log(L) / (2 * PI)


def o_stress_full(x, rho, tau, first):
    """-1/2 sum_i (x[i]^2 - x[i-1]^2) rho_l[i] tau_2l ; rho[0] belongs to x index `first`"""
    tot = 0.0
    sab = 0.0
    for k, r in enumerate(rho):
        i = k + first
        t = -0.5 * (x[i] ** 2 - x[i - 1] ** 2) * sum(r[l] * tau[1][l] for l in range(3))
        tot += t
        sab += abs(t)
    return tot, sab


def o_stress_alt(x, d, tau):
    """Shen & Cheng with the sign flip stated in the source: +1/2 sum_i tau_2l (d_l[i] + d_l[i+1]) dx"""
    dx = x[1] - x[0]
    tot = 0.0
    sab = 0.0
    for i in range(len(x) - 1):
        t = 0.5 * sum(tau[1][l] * (d[i][l] + d[i + 1][l]) for l in range(3)) * dx
        tot += t
        sab += abs(t)
    return tot, sab


def o_surface(rho, beta, dx):
    """sum_j beta_lj / 4 sum_i rho_l[i]^2 dx"""
    tot = 0.0
    sab = 0.0
    for l in range(3):
        bl = sum(beta[l][j] for j in range(3))
        for r in rho:
            t = bl / 4.0 * r[l] ** 2 * dx
            tot += t
            sab += abs(t)
    return tot, sab


def o_nonlocal(d, alphas, dx):
    """sum_m alpha_m sum_i d[i].(d[i] - (d[i+m] + d[i-m])/2) dx,   m = 1..len(alpha), i = m..N-1-m"""
    tot = 0.0
    sab = 0.0
    N = len(d)
    for num, al in enumerate(alphas):
        m = num + 1
        for i in range(m, N - m):
            t = al * sum(d[i][c] * (d[i][c] - 0.5 * (d[i + m][c] + d[i - m][c])) for c in range(3)) * dx
            tot += t
            sab += abs(t)
    return tot, sab


def o_misfit(o, x, d):
    """sum gamma(delta) dx, gamma evaluated one point at a time through the fractional-coordinate route"""
    dx = x[1] - x[0]
    tot = 0.0
    sab = 0.0
    for r in d:
        p = to_cart(o, [r[0], 0.0, r[2]])
        a1, a2 = solve_plane(p, o.A1, o.A2)
        e = float(o.g.E_gsf(a1=a1, a2=a2))
        tot += e * dx
        sab += abs(e * dx)
    return tot, sab


TAUS = [None,
        [[0.0, 0.011, 0.0], [0.011, -0.004, 0.007], [0.0, 0.007, 0.0]]]
ALPHAS = [None, [0.0], [0.1], [0.1, 0.05], 0.07]
# quick tier: default, two-coefficient and scalar alpha; thorough: all five
ALPHA_IDX = list(range(len(ALPHAS))) if THOROUGH else [0, 3, 4]
BETAS = [None,
         [[0.05, 0, 0], [0, 0.02, 0], [0, 0, 0.08]],
         [[0.05, 0.01, -0.02], [0.01, 0.02, 0.015], [-0.02, 0.015, 0.08]]]
FLAGS = list(itertools.product([True, False], repeat=4))    # fullstress, cdiffelastic, cdiffsurface, cdiffstress
ZERO33 = [[0.0] * 3 for _ in range(3)]


def grids():
    out = []
    for N in (21, 41):
        for den in (12, 20):
            out.append((N, den, 0.0))
    out.append((21, 12, 0.37 + 0.05 * (SEED % 8)))          # not centred on the origin
    if THOROUGH:
        out.append((41, 20, -1.3))
        out.append((31, 16, 0.0))
        out.append((12, 8, 0.21))
    return out


GRIDS = grids()


def profiles():
    out = [('arctan', h) for h in (HALFW if THOROUGH else [0.25, 0.6, 1.0, 2.5])]
    out.append(('generic', 0))
    out.append(('generic', 1 + SEED % 8))
    out.append(('nodes', 0))
    return out


PROFILES = profiles()


def sdvpn_kwargs(ti, ai, bi, flags):
    kw = {}
    if TAUS[ti] is not None:
        kw['tau'] = np.array(TAUS[ti])
    if ALPHAS[ai] is not None:
        kw['alpha'] = ALPHAS[ai]
    if BETAS[bi] is not None:
        kw['beta'] = np.array(BETAS[bi])
    kw['fullstress'], kw['cdiffelastic'], kw['cdiffsurface'], kw['cdiffstress'] = flags
    return kw


def alpha_tuple(ai):
    a = ALPHAS[ai]
    if a is None:
        return [0.0]
    if isinstance(a, float):
        return [a]
    return list(a)


def ecmp(fails, key, obs, exp, scale, nontrivial=True, **extra):
    chk.note('energy-comparisons')
    if exp != 0.0 and nontrivial:
        chk.note('energy-comparisons-nonzero')
    if obs is None:
        return
    try:
        obs = float(obs)
    except Exception:
        fails.append(Fail(key=key + '-type', msg='%s is not a number: %r' % (key, obs)))
        return
    tol = 1e-10 * scale + 1e-300
    if not abs(obs - exp) <= tol:
        fails.append(Fail(key=key, msg='%s differs from the independent evaluation of its formula' % key,
                          observed=obs, expected=exp, tol=tol, **extra))


@chk.clause('terms')
def terms(case):
    """every energy term = independent double-loop evaluation; total = sum; for tau x alpha x beta x 16 flags"""
    uc.reset_units(length='angstrom', mass='amu', energy='eV', charge='e')
    o = make_system(case['sys'])
    N, den, off = GRIDS[case['grid']]
    dx = o.bmag / den
    x = xgrid(N, dx, off * o.bmag)
    kind = PROFILES[case['prof']]
    d = profile(o, kind, x, N, dx)
    xa, da = np.array(x), np.array(d)
    fails = []
    # frame conventions of the object under test against the index-loop rotation
    s0 = call('SDVPN', fails, SDVPN, volterra=o.v, gamma=o.g)
    if s0 is None:
        return fails
    cmp(fails, 'frame-K_tensor', s0.K_tensor, o.K, 1e-12 * max(abs(t) for r in o.K for t in r))
    cmp(fails, 'frame-burgers', s0.burgers, o.b, 1e-12 * o.bmag)
    cmp(fails, 'frame-transform', s0.transform, o.T, 1e-12)
    cmp(fails, 'frame-burgers-cart', to_cart(o, s0.burgers.tolist()), o.bcart, 1e-7 * o.bmag)
    # oracle pieces
    rho = {False: o_rho(x, d, False), True: o_rho(x, d, True)}
    el = {c: o_bilinear(rho[c], rho[c], o.K, x[1] - x[0]) for c in (False, True)}
    mis = o_misfit(o, x, d)
    L = 1000.0
    lr = o_longrange(o.K, o.b, L)
    # density itself (public method)
    for c in (False, True):
        r = call('disldensity', fails, s0.disldensity, xa, da, cdiff=c)
        if r is not None:
            cmp(fails, 'disldensity-x', r[0], x[1:] if not c else x[1:-1], 1e-12 * (abs(x[0]) + abs(x[-1])))
            cmp(fails, 'disldensity-rho', r[1], rho[c], 1e-12 * o.bmag / dx)
    if kind[0] == 'nodes':
        exp = node_profile_energy(o, N) * (x[1] - x[0])
        r = call('misfit_energy', fails, s0.misfit_energy, xa, da)
        chk.note('energy-comparisons')
        chk.note('energy-comparisons-nonzero')
        if r is not None and not abs(float(r) - exp) <= 1e-8 * o.Emax * N * dx:
            fails.append(Fail(key='misfit-node-profile', msg='misfit energy of a node-valued profile is not dx * sum of node energies',
                              observed=float(r), expected=exp))
    known = False
    for ti, ai, bi in itertools.product(range(len(TAUS)), ALPHA_IDX, range(len(BETAS))):
        tau = TAUS[ti] or ZERO33
        beta = BETAS[bi] or ZERO33
        al = alpha_tuple(ai)
        nl = o_nonlocal(d, al, x[1] - x[0])
        sf = {c: o_surface(rho[c], beta, x[1] - x[0]) for c in (False, True)}
        st_alt = o_stress_alt(x, d, tau)
        st_full = o_stress_full(x, rho[False], tau, 1)
        for flags in FLAGS:
            full, cde, cds, cdt = flags
            s = call('SDVPN', fails, SDVPN, volterra=o.v, gamma=o.g, **sdvpn_kwargs(ti, ai, bi, flags))
            if s is None:
                continue
            tag = dict(tau=ti, alpha=ai, beta=bi, flags=list(flags))
            e_mis = call('misfit_energy', fails, s.misfit_energy, xa, da)
            ecmp(fails, 'misfit', e_mis, mis[0], mis[1], **tag)
            e_el = call('elastic_energy', fails, s.elastic_energy, xa, da)
            ecmp(fails, 'elastic', e_el, el[cde][0], el[cde][1], **tag)
            e_lr = call('longrange_energy', fails, s.longrange_energy)
            ecmp(fails, 'longrange', e_lr, lr, abs(lr), **tag)
            e_sf = call('surface_energy', fails, s.surface_energy, xa, da)
            ecmp(fails, 'surface', e_sf, sf[cds][0], sf[cds][1], **tag)
            e_nl = call('nonlocal_energy', fails, s.nonlocal_energy, xa, da)
            ecmp(fails, 'nonlocal', e_nl, nl[0], nl[1], **tag)
            if full and cdt:
                # central-difference density has N-2 entries, the x^2 differences N-1: see finding
                try:
                    e_st = float(s.stress_energy(xa, da))
                except ValueError as e:
                    # only the documented-but-broken shape mismatch (N-1 squared-x differences against N-2
                    # central-difference densities) is the finding; any other ValueError is a fresh failure
                    if 'could not be broadcast' not in str(e) or '(%d,) (%d,)' % (N - 1, N - 2) not in str(e):
                        fails.append(Fail(key='stress_energy:ValueError', msg='stress_energy raised ValueError: %s' % e, **tag))
                        continue
                    if not known:
                        fails.append(Fail(key='fullstress-cdiffstress-raises',
                                          msg='stress_energy (and total_energy, solve) raise for fullstress=True with '
                                              'cdiffstress=True: %s' % e, **tag))
                        known = True
                    chk.note('settings-refused-fullstress-cdiffstress')
                    continue
                # repaired some day: accept the literal reading or the centred-weight reading of the formula
                lit = o_stress_full(x, rho[True], tau, 1)
                cen = sum(-0.25 * (x[k + 2] ** 2 - x[k] ** 2) * sum(r[l] * tau[1][l] for l in range(3))
                          for k, r in enumerate(rho[True]))
                if min(abs(e_st - lit[0]), abs(e_st - cen)) > 1e-10 * lit[1] + 1e-300:
                    fails.append(Fail(key='stress-cdiff-formula', msg='central-difference stress energy matches neither reading',
                                      observed=e_st, expected=[lit[0], cen], **tag))
                    continue
                st = (e_st, lit[1])
            else:
                st = st_full if full else st_alt
                e_st = call('stress_energy', fails, s.stress_energy, xa, da)
                ecmp(fails, 'stress-full' if full else 'stress-alt', e_st, st[0], st[1], **tag)
            e_tot = call('total_energy', fails, s.total_energy, xa, da)
            parts = [e_mis, e_el, e_lr, e_st, e_nl, e_sf]
            if e_tot is not None and None not in parts:
                sc = sum(abs(float(p)) for p in parts)
                # sum of the object's own terms (pure addition: 1e-13)
                chk.note('energy-comparisons')
                if not abs(float(e_tot) - sum(float(p) for p in parts)) <= 1e-13 * sc:
                    fails.append(Fail(key='total-not-sum', msg='total_energy is not the sum of the six term methods',
                                      observed=float(e_tot), expected=sum(float(p) for p in parts), **tag))
                exp = mis[0] + el[cde][0] + lr + st[0] + nl[0] + sf[cds][0]
                ecmp(fails, 'total', e_tot, exp, mis[1] + el[cde][1] + abs(lr) + st[1] + nl[1] + sf[cds][1], **tag)
            chk.note('settings')
    # the two stress expressions differ by a pure end-point term (summation by parts, exact)
    tau = TAUS[1]
    s = SDVPN(volterra=o.v, gamma=o.g, tau=np.array(tau), fullstress=True)
    s2 = SDVPN(volterra=o.v, gamma=o.g, tau=np.array(tau), fullstress=False)
    a, b2 = call('stress_energy', fails, s.stress_energy, xa, da), call('stress_energy', fails, s2.stress_energy, xa, da)
    if a is not None and b2 is not None:
        exp = -sum(tau[1][l] * (x[-1] * d[-1][l] - x[0] * d[0][l]) for l in range(3))
        sc = o_stress_full(x, rho[False], tau, 1)[1] + o_stress_alt(x, d, tau)[1] + abs(exp)
        ecmp(fails, 'stress-full-minus-alt', float(a) - float(b2), exp, sc * 10)
    # stored x / disregistry give the same numbers as explicit arguments
    s = SDVPN(volterra=o.v, gamma=o.g, tau=np.array(TAUS[1]), alpha=[0.1, 0.05], beta=np.array(BETAS[2]))
    s.x = xa
    s.disregistry = da
    for name in ('misfit_energy', 'elastic_energy', 'stress_energy', 'surface_energy', 'nonlocal_energy', 'total_energy'):
        a = call(name, fails, getattr(s, name))
        b2 = call(name, fails, getattr(s, name), xa, da)
        chk.note('energy-comparisons')
        if a is not None and b2 is not None and float(a) != float(b2):
            fails.append(Fail(key='stored-vs-explicit', msg='%s() with the stored x/disregistry differs from the explicit call' % name))
    return fails


@chk.clause('bilinear')
def bilinear(case):
    """elastic energy: quadratic form whose polarisation is the symmetric double sum; invariant under rigid shifts"""
    o = make_system(case['sys'])
    N, den, off = GRIDS[case['grid']]
    dx = o.bmag / den
    x = xgrid(N, dx, off * o.bmag)
    d1 = profile(o, PROFILES[case['p1']], x, N, dx)
    d2 = profile(o, PROFILES[case['p2']], x, N, dx)
    cde = bool(case['cdiff'])
    xa = np.array(x)
    D1, D2 = np.array(d1), np.array(d2)
    s = SDVPN(volterra=o.v, gamma=o.g, cdiffelastic=cde)
    fails = []
    r1, r2 = o_rho(x, d1, cde), o_rho(x, d2, cde)
    b12, s12 = o_bilinear(r1, r2, o.K, x[1] - x[0])
    b21, s21 = o_bilinear(r2, r1, o.K, x[1] - x[0])
    b11, s11 = o_bilinear(r1, r1, o.K, x[1] - x[0])
    b22, s22 = o_bilinear(r2, r2, o.K, x[1] - x[0])
    sc = s11 + s22 + 2 * s12
    # the documented kernel is symmetric
    chk.note('energy-comparisons')
    if abs(b12 - b21) > 1e-10 * s12:
        fails.append(Fail(key='oracle-kernel-asymmetric', msg='documented chi kernel with symmetric K is not symmetric?!'))
    E = lambda D: call('elastic_energy', fails, s.elastic_energy, xa, D)    # noqa
    ep, em, e1, e2 = E(D1 + D2), E(D1 - D2), E(D1), E(D2)
    if None in (ep, em, e1, e2):
        return fails
    ecmp(fails, 'bilinear-polarisation', 0.25 * (ep - em), b12, sc)
    ecmp(fails, 'bilinear-polarisation', 0.25 * (ep - em), b21, sc)
    ecmp(fails, 'quadratic-parallelogram', ep + em, 2 * (b11 + b22), 2 * sc)
    ecmp(fails, 'quadratic-parallelogram', ep + em - 2 * e1 - 2 * e2, 0.0, 4 * sc, nontrivial=False)
    for f in (-1.0, 2.0, 0.5, -3.0):
        ecmp(fails, 'quadratic-homogeneous', E(f * D1), f * f * b11, f * f * s11, factor=f)
    # rigid shift of the disregistry (x and z components; y must stay 0)
    for c in ([o.bmag, 0, 0], [0.3, 0, -0.7], [-10 * o.bmag, 0, 4 * o.bmag]):
        sh = D1 + np.array(c)
        # rounding of the shifted differences: eps*|c| per entry relative to |d rho| -> 1e-9 of the scale is ample
        chk.note('energy-comparisons')
        chk.note('energy-comparisons-nonzero')
        es = E(sh)
        if es is not None and not abs(es - e1) <= 1e-9 * s11:
            fails.append(Fail(key='elastic-shift-variant', msg='elastic energy changed under a rigid disregistry shift',
                              observed=float(es), expected=float(e1), shift=c))
    return fails


SOLVE_SETTINGS = [
    dict(),
    dict(tau=1, alpha=3, beta=2),
    dict(tau=1, alpha=2, beta=1, flags=(False, True, False, False)),
    dict(alpha=3, flags=(False, False, True, True)),
]
SOLVE_METHODS = [('Powell', {'maxiter': 1}), ('Powell', {'maxiter': 2, 'xtol': 1e-2, 'ftol': 1e-3}),
                 ('Nelder-Mead', {'maxiter': 150})]


@chk.clause('solve')
def solve(case):
    """solve(): the total energy does not rise, both end disregistries (and x) stay what they were"""
    uc.reset_units(length='angstrom', mass='amu', energy='eV', charge='e')
    o = make_system(case['sys'], table='sin', n1=8, n2=4, g0=0.04) if case['gam'] else make_system(case['sys'])
    N = case['N']
    dx = o.bmag / 6
    x = xgrid(N, dx, 0.0)
    kind = [('arctan', 0.3), ('generic', 0), ('arctan', 1.5)][case['prof']]
    d = profile(o, kind, x, N, dx)
    st = SOLVE_SETTINGS[case['set']]
    kw = sdvpn_kwargs(st.get('tau', 0), st.get('alpha', 0), st.get('beta', 0), st.get('flags', (True, False, True, False)))
    meth, opts = SOLVE_METHODS[case['meth']]
    fails = []
    xa, da = np.array(x), np.array(d)
    if case['how'] == 0:
        s = SDVPN(volterra=o.v, gamma=o.g, min_method=meth, min_options=dict(opts), **kw)
        e0 = float(s.total_energy(xa, da))
        if call('solve', fails, s.solve, x=xa.copy(), disregistry=da.copy()) is None and fails:
            return fails
    else:
        s = SDVPN(volterra=o.v, gamma=o.g, **kw)
        s.x = xa.copy()
        s.disregistry = da.copy()
        e0 = float(s.total_energy())
        n0 = len(fails)
        call('solve', fails, s.solve, min_method=meth, min_options=dict(opts))
        if len(fails) > n0:
            return fails
    d1 = np.asarray(s.disregistry)
    e1 = float(s.total_energy())
    chk.note('solve-runs')
    chk.note('energy-comparisons', 3)
    if d1.shape != da.shape:
        return [Fail(key='solve-shape', msg='disregistry shape changed to %s' % (d1.shape,))]
    if not e1 <= e0 + 1e-12 * abs(e0):
        fails.append(Fail(key='solve-energy-rose', msg='solve() raised the total energy', observed=e1, expected=e0))
    if e1 < e0:
        chk.note('solve-runs-energy-lowered')
        chk.note('energy-comparisons-nonzero')
    if not (np.array_equal(d1[0], da[0]) and np.array_equal(d1[-1], da[-1])):
        fails.append(Fail(key='solve-ends-moved', msg='an end disregistry changed', observed=[d1[0], d1[-1]], expected=[da[0], da[-1]]))
    if not np.array_equal(np.asarray(s.x), xa):
        fails.append(Fail(key='solve-x-changed', msg='x coordinates changed'))
    if np.any(d1[:, 1] != 0.0):
        fails.append(Fail(key='solve-y-component', msg='out-of-plane disregistry appeared'))
    if s.res is None or not abs(float(s.res.fun) - e1) <= 1e-10 * abs(e1):
        fails.append(Fail(key='solve-res-inconsistent', msg='res.fun is not the energy of the stored disregistry'))
    return fails


HW_CONFIGS = [(1001, 10, 0.5), (1001, 10, 1.0), (1001, 20, 0.5), (2001, 10, 0.5), (2001, 10, 1.0), (2001, 20, 0.5), (2001, 20, 1.0)]
HW_RATIOS = [0.8, 0.9, 1.0, 1.1, 1.2, 1.3]


def hw_minimum(o, s, N, den, zs):
    """vertex of the least-squares parabola in ln(zeta) through the energies of the arctan family"""
    dx = o.bmag / den
    x = np.array(xgrid(N, dx, 0.0))
    lz, en = [], []
    for r in HW_RATIOS:
        z = r * zs * o.bmag
        xx, d = am.defect.pn_arctan_disregistry(x=x, burgers=np.array(o.b), halfwidth=z)
        lz.append(math.log(z))
        en.append(float(s.misfit_energy(x, d)) + float(s.elastic_energy(x, d)))
    # normal equations of e = c0 + c1 t + c2 t^2 with t centred
    t0 = sum(lz) / len(lz)
    t = [v - t0 for v in lz]
    A = [[sum(ti ** (p + q) for ti in t) for q in range(3)] for p in range(3)]
    rhs = [sum(e * ti ** p for e, ti in zip(en, t)) for p in range(3)]
    c = np.linalg.solve(np.array(A), np.array(rhs))
    return c, t0, en


@chk.clause('halfwidth')
def halfwidth(case):
    """gamma = g0/2 (1 - cos 2 pi d/b): E(zeta) of the arctan family is lowest at zeta* = K b^2 / (4 pi^2 g0)"""
    uc.reset_units(length='angstrom', mass='amu', energy='eV', charge='e')
    si = case['sys']
    N, den, zs = HW_CONFIGS[case['cfg']]
    base = make_system(si)
    bh = v_unit(base.b)
    Kb = sum(base.K[l][m] * bh[l] * bh[m] for l in range(3) for m in range(3))
    g0 = Kb * base.bmag ** 2 / (4 * PI ** 2 * zs * base.bmag)
    o = make_system(si, table='sin', n1=16, n2=4, g0=g0)
    s = SDVPN(volterra=o.v, gamma=o.g)
    fails = []
    c, t0, en = hw_minimum(o, s, N, den, zs)
    chk.note('energy-comparisons', len(en))
    chk.note('energy-comparisons-nonzero', len(en))
    if not c[2] > 0:
        return [Fail(key='halfwidth-no-minimum', msg='energy over the arctan family is not convex in ln(zeta)', energies=en)]
    zmin = math.exp(t0 - c[1] / (2 * c[2])) / o.bmag
    dev = zmin / zs - 1
    chk.note('halfwidth-fits')
    if abs(dev) > 0.10:
        fails.append(Fail(key='halfwidth-off', msg='energy minimum of the arctan family at %.4f b, classical half-width %.4f b'
                          % (zmin, zs), observed=zmin, expected=zs, X_over_zeta=(N - 1) / 2 / den / zs))
    if N == 1001 and (2001, den, zs) in HW_CONFIGS:
        c2, t02, en2 = hw_minimum(o, s, 2001, den, zs)
        if c2[2] > 0:
            dev2 = math.exp(t02 - c2[1] / (2 * c2[2])) / o.bmag / zs - 1
            if not abs(dev2) <= abs(dev) + 1e-3:
                fails.append(Fail(key='halfwidth-window', msg='doubling the window moved the minimum away from the classical value',
                                  observed=dev2, expected=dev))
    return fails


@chk.clause('arctan')
def arctan(case):
    """pn_arctan_disregistry / pn_arctan_disldensity against their docstring formulas"""
    b = [[2.5, 0.0, 0.0], [1.2, 0.0, -2.1], [0.0, 0.0, 3.0]][case['b']]
    bm = v_norm(b)
    z = HALFW[case['hw']] * bm
    cen = [0.0, 0.4 * bm][case['cen']]
    N, den = [(21, 12), (41, 20), (12, 8)][case['grid']]
    dx = bm / den
    fails = []
    xmax = dx * (N - 1) / 2
    gens = [dict(xnum=N, xstep=dx), dict(xmax=xmax, xnum=N), dict(xmax=xmax, xstep=dx), dict(x=np.array(xgrid(N, dx, 0.0)))]
    xo = xgrid(N, dx, 0.0)
    raw = [[bc / PI * math.atan((t - cen) / z) + bc / 2 for bc in b] for t in xo]
    for gi, gk in enumerate(gens):
        for norm in (True, False):
            for shift in (True, False):
                r = call('pn_arctan_disregistry', fails, am.defect.pn_arctan_disregistry, burgers=np.array(b), center=cen,
                         halfwidth=z, normalize=norm, shift=shift, **gk)
                if r is None:
                    continue
                cmp(fails, 'arctan-x', r[0], xo, 1e-12 * xmax, gen=gi)
                if norm:
                    sc = bm / v_norm([raw[-1][c] - raw[0][c] for c in range(3)])
                    exp = [[(p[c] - raw[0][c]) * sc for c in range(3)] for p in raw]
                else:
                    exp = [list(p) for p in raw]
                if not shift:
                    exp = [[p[c] - b[c] / 2 for c in range(3)] for p in exp]
                cmp(fails, 'arctan-disregistry', r[1], exp, 1e-12 * bm, gen=gi, normalize=norm, shift=shift)
                if norm and shift:
                    dd = np.asarray(r[1])
                    cmp(fails, 'arctan-endpoints', dd[-1] - dd[0], b, 1e-12 * bm)
            r = call('pn_arctan_disldensity', fails, am.defect.pn_arctan_disldensity, burgers=np.array(b), center=cen,
                     halfwidth=z, normalize=norm, **gk)
            if r is None:
                continue
            den_o = [[bc * z / (PI * ((t - cen) ** 2 + z ** 2)) for bc in b] for t in xo]
            if norm:
                sc = bm / v_norm([raw[-1][c] - raw[0][c] for c in range(3)])
                den_o = [[q * sc for q in p] for p in den_o]
            cmp(fails, 'arctan-density', r[1], den_o, 1e-12 * bm / z, gen=gi, normalize=norm)
    # density = derivative of the disregistry: central difference error <= dx^2/6 max|d'''| = dx^2/6 * 2|b|/(pi z^3)
    xx, d = am.defect.pn_arctan_disregistry(x=np.array(xo), burgers=np.array(b), center=cen, halfwidth=z, normalize=False)
    xx, rr = am.defect.pn_arctan_disldensity(x=np.array(xo), burgers=np.array(b), center=cen, halfwidth=z, normalize=False)
    fd = (d[2:] - d[:-2]) / (2 * dx)
    cmp(fails, 'arctan-density-is-derivative', fd, rr[1:-1], dx ** 2 / 6 * 2 * bm / (PI * z ** 3) * 1.0001 + 1e-12)
    return fails


# --------------------------------------------------------------------------------------------


# --------------------------------------------------------------------------
# ONE live SDVPN object evaluated on several grids / with changed settings.  Every energy method takes (x, disregistry)
# explicitly and every setting has a setter, so an object is legitimately reused; whatever it answered before, each
# answer must equal the answer of a fresh object with the same settings (whose values the `terms` clause judges).
# All histories of length 3 over {4 grids: two pairs with EQUAL point count and different spacing} x 2 profiles, with
# a setting change (tau / alpha / beta / cdiffelastic) between evaluations.

LIVE_GRIDS = [(21, 12, 0.0), (21, 20, 0.0), (41, 12, 0.0), (41, 20, 0.0)]
LIVE_SETTERS = [None, ('tau', 1), ('alpha', 3), ('beta', 2), ('cdiffelastic', False), ('cdiffsurface', False)]
LIVE_TERMS = ('misfit_energy', 'elastic_energy', 'longrange_energy', 'stress_energy', 'surface_energy', 'nonlocal_energy', 'total_energy')


def _live_eval(s, xa, da):
    out = []
    for name in LIVE_TERMS:
        out.append(float(getattr(s, name)() if name == 'longrange_energy' else getattr(s, name)(xa, da)))
    return np.array(out)


def _live_apply(s, st):
    if st is None:
        return
    name, k = st
    if name == 'tau':
        s.tau = np.array(TAUS[k])
    elif name == 'alpha':
        s.alpha = ALPHAS[k]
    elif name == 'beta':
        s.beta = np.array(BETAS[k])
    else:
        setattr(s, name, k)


@chk.clause('live')
def live(case):
    o = make_system(case['sys'])
    fails = []
    data = []
    for (N, den, off) in LIVE_GRIDS:
        dx = o.bmag / den
        x = xgrid(N, dx, off * o.bmag)
        data.append((np.array(x), [np.array(profile(o, PROFILES[p], x, N, dx)) for p in (0, 4)]))
    g1 = case['g1']
    for g2 in range(len(LIVE_GRIDS)):
        for g3 in range(len(LIVE_GRIDS)):
            for si, st in enumerate(LIVE_SETTERS):
                hist = [(g1, 0, None), (g2, 1, st), (g3, 0, None)]
                live_obj = SDVPN(volterra=o.v, gamma=o.g, tau=np.array(TAUS[1]))
                applied = []
                for (g, pr, setter) in hist:
                    _live_apply(live_obj, setter)
                    if setter is not None:
                        applied.append(setter)
                    fresh = SDVPN(volterra=o.v, gamma=o.g, tau=np.array(TAUS[1]))
                    for a in applied:
                        _live_apply(fresh, a)
                    xa, da = data[g][0], data[g][1][pr]
                    got, exp = _live_eval(live_obj, xa, da), _live_eval(fresh, xa, da)
                    chk.note('energy-comparisons', len(LIVE_TERMS))
                    chk.note('energy-comparisons-nonzero', int(np.count_nonzero(exp)))
                    chk.note('live-evaluations')
                    bad = np.abs(got - exp) > 1e-12 * np.abs(exp).max()
                    if bad.any():
                        k = int(np.argmax(bad))
                        fails.append(Fail(key='live-%s-depends-on-history' % LIVE_TERMS[k],
                                          msg='%s on a reused SDVPN object differs from a fresh object with the same settings; grids visited %s, setter %s'
                                          % (LIVE_TERMS[k], [LIVE_GRIDS[h[0]][:2] for h in hist], st), observed=float(got[k]), expected=float(exp[k])))
                        return fails
    return fails

def gen():
    ngeom = len(GEOMS)
    # gamma surface: nodes, periodicity, model round trip
    for gi in range(ngeom):
        for n1 in NS:
            for n2 in NS:
                for dup in (0, 1):
                    for dl in (0, 1):
                        c = dict(geom=gi, n1=n1, n2=n2, dup=dup, delta=dl)
                        yield 'nodes', dict(c)
                        yield 'periodic', dict(c)
                        if THOROUGH:
                            yield 'nodes', dict(c, salt=5 + SEED % 8, rev=1)
                            yield 'periodic', dict(c, salt=5 + SEED % 8)
                        fm = ['dm', 'json', 'xml', 'jsonfile']
                        for fi, fmt in enumerate(fm):
                            for un in range(len(UNITSETS)):
                                if THOROUGH or (n1, n2) in ((4, 5), (6, 4), (5, 5)):
                                    yield 'model', dict(c, fmt=fmt, units=un)
    # conversions
    for gi in range(ngeom):
        for alt in (0, 1, 2, 3):
            for n in NPOS:
                for form in (['single', 'array', 'list'] if n == 1 else ['array', 'list']):
                    for start in (range(len(A12_MENU)) if THOROUGH else (0, 3)):
                        yield 'convert', dict(geom=gi, alt=alt, N=n, form=form, start=start)
    # arctan family
    for bi in range(3):
        for hw in range(len(HALFW)):
            for cen in (0, 1):
                for gr in range(3):
                    yield 'arctan', dict(b=bi, hw=hw, cen=cen, grid=gr)
    # SDVPN energy terms
    for si in range(len(SYSTEMS)):
        for pi_ in range(len(PROFILES)):
            for gr in range(len(GRIDS)):
                yield 'terms', dict(sys=si, prof=pi_, grid=gr)
    # bilinear / shift
    np_ = len(PROFILES)
    for si in range(len(SYSTEMS)):
        for gr in ((0, 4) if not THOROUGH else range(len(GRIDS))):
            for p1 in range(np_):
                for p2 in range(np_):
                    if p1 < p2 or (THOROUGH and p1 != p2):
                        for cd in (0, 1):
                            yield 'bilinear', dict(sys=si, grid=gr, p1=p1, p2=p2, cdiff=cd)
    # solve
    for si in ((0, 3, 4) if not THOROUGH else range(len(SYSTEMS))):
        for pr in range(3 if THOROUGH else 2):
            for st in range(len(SOLVE_SETTINGS)):
                for meth in ((0,) if not THOROUGH else range(len(SOLVE_METHODS))):
                    for how in (0, 1):
                        for gam in (0, 1):
                            if not THOROUGH and (how + gam + st + pr) % 2:
                                continue
                            yield 'solve', dict(sys=si, prof=pr, set=st, meth=meth, how=how, gam=gam,
                                                N=(13 if not THOROUGH else 21))
    # one live SDVPN object over several grids / settings
    for si in ((0, 4) if not THOROUGH else range(len(SYSTEMS))):
        for g1 in range(len(LIVE_GRIDS)):
            yield 'live', dict(sys=si, g1=g1)
    # half-width
    for si in (0, 4):
        for cfg in range(len(HW_CONFIGS)):
            yield 'halfwidth', dict(sys=si, cfg=cfg)


def _timed(name, fn):
    import time

    def run(case):
        t = time.time()
        try:
            return fn(case)
        finally:
            chk.note('cpu-ms-' + name, int(1000 * (time.time() - t)))
    return run


if __name__ == '__main__':
    for _n in list(chk.clauses):
        chk.clauses[_n] = _timed(_n, chk.clauses[_n])
    cases = list(gen())
    # expensive cases first so that the pool drains evenly
    order = {'halfwidth': 0, 'solve': 1, 'terms': 2, 'bilinear': 3}
    cases.sort(key=lambda c: order.get(c[0], 9))
    chk.run_cases(iter(cases), batch=4)
    n = chk.notes
    # evaluations = every individual point query / energy-term comparison that was judged against its oracle
    cov = {'evaluations': n.get('gamma-queries', 0) + n.get('conversion-positions', 0) + n.get('energy-comparisons', 0),
           'distinct_nontrivial': n.get('gamma-queries-nontrivial', 0) + n.get('conversion-positions-nontrivial', 0)
           + n.get('energy-comparisons-nonzero', 0),
           'calls_cases': sum(chk.counts.values())}
    sys.exit(chk.finish(cov))
