"""C03 - neighbor list = exactly the pairs closer than the cutoff.

Bounded-exhaustive enumeration of sparse systems (all pairs / triples of a
per-axis coordinate menu that contains faces, the 1 % sliver below the high
face and bin-edge values), for all 8 periodicity settings, several cell /
cutoff ratios, storage sizes; one dense family crossing both growth paths.
Oracle: brute force over i<j with an independent 27-image distance.
"""
import itertools
import os
import sys
import tempfile

import numpy as np

from mc.common import Check, Fail, SEED, THOROUGH, assert_overlay
from props.c01 import chol_from_params

am = assert_overlay()
from atomman.core.nlist import nlist  # noqa: E402

chk = Check('C03', 'exploration',
            'sparse systems: every pair of the 7^3 (thorough 11^3 for the first cell) per-axis coordinate menu '
            '{low face, 0.3c, 0.95c, L/2, L-0.6c, L-0.005c (sliver), high face} whose reference distance is < 1.5c '
            '(quick; plus every 10th far pair; thorough: all pairs), every triple of a 3^3 sub-grid, in 6+ cells x origins x all 8 pbc; '
            'exact-ties: all pairs/triples of 9 integer/dyadic points in power-of-two orthogonal cells with the cutoff set exactly to representable pair distances (Fraction oracle, strict <); '
            'small cells with cutoff > L/2 and > L; a dense family (45-60 atoms in one bin); storage sizes (1,1),(2,3),(20,10); '
            'a case is one neighbor-list build; non-trivial = the reference has at least one neighbor pair through a periodic image')
chk.assumptions = ['pairs whose reference distance is within 1e-9 of the cutoff are exempt (counted) except in the exact-ties clause, whose arithmetic is certified exact with Fractions',
                   'periodic distance = shortest of the 27 (pbc-restricted) image candidates, as C02 defines it']

C = 1.0
PBCS = list(itertools.product([False, True], repeat=3))
IMAGES = np.array(list(itertools.product([-1, 0, 1], repeat=3)))


def axis_menu(L, c, big=False):
    m = [0.0, 0.3 * c, 0.95 * c, L / 2, L - 0.6 * c, L - 0.005 * c, L]
    if big:
        m += [0.005 * c, 0.6 * c, L - 0.95 * c, L - 0.3 * c]
    return m


def _cells():
    """(name, vects, cutoff, kind) ; kind 'ortho' uses Cartesian per-axis menus, 'rel' relative menus"""
    out = [('ortho-3.7x4.3x5.6', np.diag([3.7, 4.3, 5.6]), 1.0),
           ('cubic-integer-4', np.diag([4.0, 4.0, 4.0]), 1.0),
           ('cubic-3.5', np.diag([3.5, 3.5, 3.5]), 1.0),
           ('ortho-scaled-2.7', 2.7 * np.diag([3.2, 5.3, 3.9]), 2.7),
           ('triclinic', np.array([[4.1, 0, 0], [1.3, 3.8, 0], [-0.9, 1.1, 4.6]]), 1.0),
           ('triclinic-strong-tilt', np.array([[3.6, 0, 0], [2.3, 3.9, 0], [-1.9, 2.2, 4.2]]), 1.0)]
    s = SEED % 8
    out.append(('seed-slice', np.diag([3.1 + 0.11 * s, 4.9 - 0.13 * s, 3.3 + 0.17 * s]), 1.0))
    return out


CELLS = _cells()
SMALL = [('small-1.7x1.3x2.2', np.diag([1.7, 1.3, 2.2]), 1.0),           # cutoff > L/2
         ('small-0.8x0.9x0.7', np.diag([0.8, 0.9, 0.7]), 1.0),           # cutoff > L
         ('small-triclinic', np.array([[1.6, 0, 0], [0.5, 1.4, 0], [-0.4, 0.3, 1.9]]), 1.0)]
ORIGINS = [np.zeros(3), np.array([1.3, -2.7, 0.45])]
STORAGE = [(20, 10), (1, 1), (2, 3)]
SMALL_GRID = [0.0, 0.31, 0.77, 1.0] if THOROUGH else [0.0, 0.31, 1.0]


def menu_positions(ci, big=False):
    name, v, c = CELLS[ci]
    if np.array_equal(v, np.diag(np.diag(v))):
        ms = [axis_menu(v[i, i], c, big) for i in range(3)]
        return np.array(list(itertools.product(*ms)))
    # tilted cells: the same menu in relative coordinates along each cell vector
    ms = []
    for i in range(3):
        L = np.linalg.norm(v[i])
        ms.append([x / L for x in axis_menu(L, c, big)])
    rel = np.array(list(itertools.product(*ms)))
    return rel @ v


def ref_dist(pi, pj, v, pbc):
    """independent periodic distance(s): shortest of the pbc-restricted 27 candidates"""
    allowed = IMAGES[np.all((IMAGES == 0) | np.asarray(pbc)[None, :], axis=1)]
    d = (pj - pi)[..., None, :] + (allowed @ v)
    return np.sqrt((d ** 2).sum(axis=-1).min(axis=-1))


def expected_lists(pos, v, pbc, cutoff):
    n = len(pos)
    exp = [[] for _ in range(n)]
    exempt = False
    through_image = False
    for i in range(n):
        for j in range(i + 1, n):
            r = ref_dist(pos[i], pos[j], v, pbc)
            if abs(r - cutoff) < 1e-9:
                exempt = True
                continue
            if r < cutoff:
                exp[i].append(j)
                exp[j].append(i)
                if np.linalg.norm(pos[j] - pos[i]) >= cutoff:
                    through_image = True
    return exp, exempt, through_image


def compare(arr, exp, tag):
    """arr: raw nlist array (coord + neighbors). Returns list of Fail."""
    fails = []
    n = len(exp)
    if arr.shape[0] != n:
        return [Fail(key=tag + 'rows', msg='nlist has %d rows for %d atoms' % (arr.shape[0], n))]
    for i in range(n):
        c = int(arr[i, 0])
        got = [int(x) for x in arr[i, 1:1 + c]]
        if got != exp[i]:
            miss = sorted(set(exp[i]) - set(got))
            extra = sorted(set(got) - set(exp[i]))
            if miss:
                fails.append(Fail(key=tag + 'missing-pair', msg='atom %d lacks neighbors %s' % (i, miss), got=got, expected=exp[i]))
            elif extra:
                if i in extra:
                    fails.append(Fail(key=tag + 'self-entry', msg='atom %d lists itself' % i, got=got))
                else:
                    fails.append(Fail(key=tag + 'extra-pair', msg='atom %d lists non-neighbors %s' % (i, extra), got=got, expected=exp[i]))
            elif len(got) != len(set(got)):
                fails.append(Fail(key=tag + 'duplicate', msg='atom %d has duplicate entries' % i, got=got))
            else:
                fails.append(Fail(key=tag + 'unsorted', msg='atom %d list not ascending' % i, got=got))
            break
    return fails


def class_checks(system, cutoff, exp, storage, tag):
    """NeighborList object semantics + file round trip"""
    fails = []
    kw = {} if storage is None else dict(initialsize=storage[0], deltasize=storage[1])
    nl = am.NeighborList(system=system, cutoff=cutoff, **kw)
    if len(nl) != len(exp):
        fails.append(Fail(key=tag + 'len', msg='len(NeighborList) != natoms'))
        return fails
    for i in range(len(exp)):
        li = [int(x) for x in nl[i]]
        if li != exp[i]:
            fails.append(Fail(key=tag + 'getitem', msg='NeighborList[%d]=%s expected %s' % (i, li, exp[i])))
            break
        if int(nl.coord[i]) != len(li):
            fails.append(Fail(key=tag + 'coord', msg='coord[%d]=%d but list length %d' % (i, nl.coord[i], len(li))))
            break
    nl2 = system.neighborlist(cutoff=cutoff, **kw)
    if any([int(x) for x in nl2[i]] != exp[i] for i in range(len(exp))):
        fails.append(Fail(key=tag + 'system.neighborlist', msg='System.neighborlist differs'))
    # write / read back (path and text content)
    fd, path = tempfile.mkstemp(suffix='.nlist')
    os.close(fd)
    try:
        nl.dump(path)
        text = open(path).read()
        for how, src in (('path', path), ('text', text)):
            back = am.NeighborList(model=src)
            if len(back) != len(exp) or any([int(x) for x in back[i]] != exp[i] for i in range(len(exp))) \
                    or any(int(back.coord[i]) != len(exp[i]) for i in range(len(exp))):
                fails.append(Fail(key=tag + 'file-roundtrip-' + how, msg='neighbor list read back from %s differs' % how))
    finally:
        os.unlink(path)
    return fails


def near_partner_indices(P, a, v, c, every_far):
    """indices b > a enumerated for first atom a: all near ones (+ every 10th far pair in quick)."""
    b = np.arange(a + 1, len(P))
    if len(b) == 0:
        return b
    r = ref_dist(P[a], P[b], v, (True, True, True))
    near = r < 1.5 * c
    if every_far is None:
        return b
    if every_far == 0:
        return b[near]
    far = b[~near]
    return np.concatenate([b[near], far[::every_far]])


@chk.clause('pairs')
def pairs(case):
    """all two-atom systems with first atom = menu position a"""
    name, v, c = CELLS[case['cell']]
    o = ORIGINS[case['origin']]
    pbc = PBCS[case['pbc']]
    P = menu_positions(case['cell'], case.get('big', False))
    a = case['a']
    if 'b' in case:
        bs = [case['b']]
    else:
        bs = near_partner_indices(P, a, v, c, case['far'])
    system = am.System(atoms=am.Atoms(pos=np.array([P[a], P[a]]) + o), box=am.Box(vects=v, origin=o), pbc=pbc)
    fails = []
    for b in bs:
        pos = np.array([P[a], P[b]])
        system.atoms.pos[:] = pos + o
        exp, exempt, img = expected_lists(pos, v, pbc, c)
        chk.note('builds')
        if exempt:
            chk.note('exempt-at-cutoff')
            continue
        if img:
            chk.note('nontrivial-image-pairs')
        if exp[0]:
            chk.note('builds-with-neighbors')
        st = STORAGE[(a + int(b)) % 3]
        arr = nlist(system, c, st[0], st[1])
        f = compare(arr, exp, '')
        if f:
            for x in f:
                x['pos'] = pos.tolist()
                x['b'] = int(b)
            fails += f
            if len(fails) > 3:
                break
    return fails


@chk.clause('triples')
def triples(case):
    name, v, c = CELLS[case['cell']]
    o = ORIGINS[case['origin']]
    pbc = PBCS[case['pbc']]
    P = menu_positions(case['cell'])
    # 3^3 sub-grid: low face / sliver / 0.95c on each axis - the values that interact with ghost bins
    sel = [0, 2, 5]
    idx = [i * 49 + j * 7 + k for i in sel for j in sel for k in sel]
    S = P[idx]
    a = case['a']
    system = am.System(atoms=am.Atoms(pos=S[:3] + o), box=am.Box(vects=v, origin=o), pbc=pbc)
    fails = []
    for b in range(a + 1, len(S)):
        for d in range(b + 1, len(S)):
            pos = S[[a, b, d]]
            system.atoms.pos[:] = pos + o
            exp, exempt, img = expected_lists(pos, v, pbc, c)
            chk.note('builds')
            if exempt:
                chk.note('exempt-at-cutoff')
                continue
            if img:
                chk.note('nontrivial-image-pairs')
            for st in (STORAGE if THOROUGH else STORAGE[(a + b + d) % 3:][:1]):
                arr = nlist(system, c, st[0], st[1])
                f = compare(arr, exp, '')
                if f:
                    for x in f:
                        x['pos'] = pos.tolist()
                        x['storage'] = st
                    fails += f
                    break
            if len(fails) > 3:
                return fails
    return fails


@chk.clause('small-cells')
def small_cells(case):
    """cutoff above L/2 and above L: each pair is in range through several images, must be listed once"""
    name, v, c = SMALL[case['cell']]
    o = ORIGINS[case['origin']]
    pbc = PBCS[case['pbc']]
    rel = np.array(list(itertools.product(SMALL_GRID, repeat=3)))
    P = rel @ v
    a = case['a']
    fails = []
    system = am.System(atoms=am.Atoms(pos=P[:3] + o), box=am.Box(vects=v, origin=o), pbc=pbc)
    for b in range(a + 1, len(P)):
        for d in range(b + 1, len(P), 3 if THOROUGH else 1):
            pos = P[[a, b, d]]
            system.atoms.pos[:] = pos + o
            for cut in (0.6 * c, 1.0 * c, 1.7 * c, 2.6 * c):
                exp, exempt, img = expected_lists(pos, v, pbc, cut)
                chk.note('builds')
                if exempt:
                    chk.note('exempt-at-cutoff')
                    continue
                if img:
                    chk.note('nontrivial-image-pairs')
                st = STORAGE[(a + b + d) % 3]
                f = compare(nlist(system, cut, st[0], st[1]), exp, '')
                if f:
                    for x in f:
                        x['pos'] = pos.tolist()
                        x['cutoff'] = cut
                    fails += f
            if len(fails) > 3:
                return fails
    return fails


@chk.clause('dense')
def dense(case):
    """many atoms inside one bin: crosses the bin-capacity growth (40->50->60) and the row growth paths"""
    n = case['n']
    o = ORIGINS[case['origin']]
    pbc = PBCS[case['pbc']]
    v = np.diag([3.7, 4.3, 5.6]) if case['cell'] == 0 else np.array([[4.1, 0, 0], [1.3, 3.8, 0], [-0.9, 1.1, 4.6]])
    # deterministic low-discrepancy cluster of n atoms inside a 0.9c cube placed at `where`
    k = np.arange(1, n + 1)
    frac = np.stack([(k * 0.6180339887) % 1, (k * 0.7548776662) % 1, (k * 0.5698402910) % 1], axis=1)
    where = {'interior': np.array([1.2, 1.3, 1.4]), 'low-corner': np.array([0.0, 0.0, 0.0])}[case['where']]
    if case['cell'] == 0:
        pos = where + 0.9 * frac * C
        if case['where'] == 'low-corner':
            # spread a few atoms to the high faces so that ghosts fill the cluster's bin as well
            pos[::7, 0] = 3.7 - pos[::7, 0]
            pos[::5, 2] = 5.6 - pos[::5, 2]
    else:
        rel = (where / 5.0 + 0.2 * frac)
        if case['where'] == 'low-corner':
            rel[::7, 0] = 1 - rel[::7, 0]
        pos = rel @ v
    system = am.System(atoms=am.Atoms(pos=pos + o), box=am.Box(vects=v, origin=o), pbc=pbc)
    cut = case['cut']
    exp, exempt, img = expected_lists(pos, v, pbc, cut)
    chk.note('builds', len(STORAGE))
    if exempt:
        chk.note('exempt-at-cutoff')
        return []
    if img:
        chk.note('nontrivial-image-pairs')
    chk.note('dense-max-coordination-%d' % (max(len(e) for e in exp) // 10 * 10))
    fails = []
    for st in STORAGE:
        f = compare(nlist(system, cut, st[0], st[1]), exp, 'dense-')
        for x in f:
            x['storage'] = st
        fails += f
    fails += class_checks(system, cut, exp, STORAGE[case['n'] % 3], 'dense-')
    fails += class_checks(system, cut, exp, None, 'dense-')
    return fails


@chk.clause('single-and-class')
def single_and_class(case):
    """1-atom systems and NeighborList object / file round trip on small systems"""
    name, v, c = CELLS[case['cell']]
    o = ORIGINS[case['origin']]
    pbc = PBCS[case['pbc']]
    P = menu_positions(case['cell'])
    fails = []
    for k in (0, 171, 342):
        system = am.System(atoms=am.Atoms(pos=P[[k]] + o), box=am.Box(vects=v, origin=o), pbc=pbc)
        chk.note('builds')
        for cut in (0.6 * c, c, 9.0 * c):
            fails += compare(nlist(system, cut, 1, 1), [[]], 'single-')
            fails += class_checks(system, cut, [[]], (1, 1), 'single-')
    idx = [0, 6, 48, 342, 171, 120, 2, 337]
    pos = P[idx]
    system = am.System(atoms=am.Atoms(pos=pos + o), box=am.Box(vects=v, origin=o), pbc=pbc)
    for cut in (0.6 * c, c, 1.7 * c):
        exp, exempt, img = expected_lists(pos, v, pbc, cut)
        if exempt:
            continue
        chk.note('builds')
        fails += class_checks(system, cut, exp, (1, 1), 'class-')
        fails += class_checks(system, cut, exp, None, 'class-')
    return fails



# ---------------------------------------------------------------------------
# exact boundary semantics: "below the cutoff" is strict.  All coordinates, cell edges and cutoffs are small
# integers or dyadic rationals, so every squared distance (direct or through an image) and cutoff*cutoff are
# exact in binary floating point; the expectation is computed with Fractions.  Every pair of a small integer
# point set is enumerated with the cutoff set EXACTLY to each distinct pair distance that is itself exactly
# representable (Pythagorean: 1, 2, 3, 4, 5 = |(3,4,0)|, 2.5 = |(1.5,2,0)|, ...), so ties at the cutoff sphere occur
# by construction (they are exempt everywhere else).
from fractions import Fraction as _Fr

TIE_CELLS = [np.diag([8.0, 8.0, 8.0]), np.diag([8.0, 16.0, 4.0])]
TIE_POINTS = np.array([[0, 0, 0], [3, 4, 0], [3, 0, 0], [0, 0, 2], [7, 0, 0], [1.5, 2, 0], [4, 4, 2], [0, 7, 3], [6, 0, 2]], float)
TIE_CUTS = [1.0, 2.0, 2.5, 3.0, 4.0, 5.0, 6.0]


def _exact_d2(pi, pj, v, pbc):
    best = None
    for im in IMAGES:
        if any(im[k] != 0 and not pbc[k] for k in range(3)):
            continue
        d = [_Fr(float(pj[k])) - _Fr(float(pi[k])) + sum(_Fr(int(im[m])) * _Fr(float(v[m, k])) for m in range(3)) for k in range(3)]
        d2 = sum(x * x for x in d)
        if best is None or d2 < best:
            best = d2
    return best


@chk.clause('exact-ties')
def exact_ties(case):
    v = TIE_CELLS[case['cell']]
    pbc = PBCS[case['pbc']]
    o = np.array([0.0, 0.0, 0.0]) if case['origin'] == 0 else np.array([-2.0, 0.5, 16.0])
    cut = TIE_CUTS[case['cut']]
    fails = []
    n = len(TIE_POINTS)
    # all subsets of size 2 and 3 containing point a
    a = case['a']
    subsets = [(a, b) for b in range(n) if b > a] + [(a, b, c) for b in range(n) if b > a for c in range(n) if c > b]
    for sub in subsets:
        pos = TIE_POINTS[list(sub)]
        inside = np.all((pos >= 0) & (pos <= np.diag(v)), axis=1).all()
        if not inside:
            continue
        exp = [[] for _ in sub]
        ties = 0
        for i in range(len(sub)):
            for j in range(i + 1, len(sub)):
                d2 = _exact_d2(pos[i], pos[j], v, pbc)
                if d2 == _Fr(cut) * _Fr(cut):
                    ties += 1
                if d2 < _Fr(cut) * _Fr(cut):
                    exp[i].append(j)
                    exp[j].append(i)
        system = am.System(atoms=am.Atoms(pos=pos + o), box=am.Box(vects=v, origin=o), pbc=pbc)
        chk.note('builds')
        chk.note('exact-tie-systems', 1 if ties else 0)
        f = compare(nlist(system, cut, 2, 3), exp, 'tie-')
        if f:
            for x in f:
                x['positions'] = pos.tolist()
                x['cutoff'] = cut
                x['pairs_exactly_at_cutoff'] = ties
            fails += f
            break
    return fails

def gen():
    ncell = len(CELLS)
    quick_pairs = {(0, 0), (0, 1), (4, 0)}       # quick: (cell, origin) combinations for the pair sweep
    quick_triples = {(0, 0), (4, 0), (2, 0)}
    for ci in range(ncell):
        npos = 343
        for oi in range(len(ORIGINS)):
            for pi in range(len(PBCS)):
                yield 'single-and-class', {'cell': ci, 'origin': oi, 'pbc': pi}
                if THOROUGH or (ci, oi) in quick_triples:
                    for a in range(27):
                        yield 'triples', {'cell': ci, 'origin': oi, 'pbc': pi, 'a': a}
                if THOROUGH or (ci, oi) in quick_pairs or (ci == ncell - 1 and oi == 0 and pi == 7):
                    for a in range(npos):
                        yield 'pairs', {'cell': ci, 'origin': oi, 'pbc': pi, 'a': a, 'far': None if THOROUGH else 10}
    if THOROUGH:
        for pi in range(len(PBCS)):
            for a in range(11 ** 3):
                yield 'pairs', {'cell': 0, 'origin': 0, 'pbc': pi, 'a': a, 'far': 0, 'big': True}
    for ci in range(len(SMALL)):
        for oi in range(len(ORIGINS) if THOROUGH else 1):
            for pi in range(len(PBCS)):
                for a in range(len(SMALL_GRID) ** 3):
                    yield 'small-cells', {'cell': ci, 'origin': oi, 'pbc': pi, 'a': a}
    for ci in range(len(TIE_CELLS)):
        for oi in (0, 1):
            for pi in range(len(PBCS)):
                for cu in range(len(TIE_CUTS)):
                    for a in range(len(TIE_POINTS) - 1):
                        yield 'exact-ties', {'cell': ci, 'origin': oi, 'pbc': pi, 'cut': cu, 'a': a}
    for ci in (0, 1):
        for oi in range(len(ORIGINS)):
            for pi in (0, 7, 5):
                for where in ('interior', 'low-corner'):
                    for n in (39, 40, 41, 45, 50, 51, 60, 61):
                        for cut in (0.6, 1.0, 1.7):
                            yield 'dense', {'cell': ci, 'origin': oi, 'pbc': pi, 'where': where, 'n': n, 'cut': cut}


if __name__ == '__main__':
    chk.run_cases(gen(), batch=4)
    cov = {'evaluations': chk.notes.get('builds', 0),
           'distinct_nontrivial': chk.notes.get('nontrivial-image-pairs', 0),
           'cases': sum(chk.counts.values())}
    sys.exit(chk.finish(cov))
