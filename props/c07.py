"""C07 - written LAMMPS data / LAMMPS dump / table / POSCAR files are well-formed under an independent
parser and describe the system.

Bounded-exhaustive enumeration (full product of the menus below, nothing sampled).  The oracles are the
format readers in mc/refs/c07_parsers.py (written from the LAMMPS read_data / dump and VASP POSCAR rules)
and the unit table mc/refs/c07_units.py (LAMMPS `units` page + CODATA via scipy); no atomman loader is used.
"""
import io
import itertools
import os
import re
import shutil
import sys
import tempfile

import numpy as np

from mc.common import Check, Fail, SEED, THOROUGH, assert_overlay
from mc.refs import c07_parsers as P
from mc.refs import c07_units as U

am = assert_overlay()
import atomman.unitconvert as uc  # noqa: E402

chk = Check('C07', 'exploration',
            'full product: systems (orthogonal/triclinic incl. single-tilt cells, origin 0/generic, atoms inside, '
            'outside by several cells, exactly on faces; type gap + unused trailing type; N=3 and N=4; with/without '
            'velocity, charge, (3,3) float and int extras) x 8 pbc x every atom_style whose columns the system carries '
            '(18 plain + hybrids) x 8 unit styles x float formats -> one data file each; dump files: systems x 8 pbc x '
            '8 unit styles x formats x column variants (all properties, pos/spos/upos/supos, own atom ids); tables: '
            'systems x unit lists (none, named, scaled) x header x formats; POSCAR: systems x direct/Cartesian x '
            'box_scale {1, 2.5} x symbols (system / explicit / none) x formats.  evaluation = one written file parsed '
            'and compared column by column; non-trivial = file whose atoms needed image flags, a box extension, a '
            'scaled column or a scale factor != 1')
chk.assumptions = [
    'tolerance of every compared number = half a unit of its last printed digit (taken from the token text), '
    'propagated linearly through image-flag / bounding-box / scale-factor arithmetic, plus 1e-12 relative for float rounding',
    'unit oracle: LAMMPS units page + CODATA constants from scipy.constants (agree with numericalunits to 1e-15)',
    'meso columns rho/e/cv have no unit in read_data ("need units") and are compared unconverted',
    'atom_style column tables: read_data page (template: id mol templateindex templateatom type; smd without x0)',
    'a box whose extent is below 100 units of the last printed digit of the chosen float_format is not resolvable '
    'by that format; such (units, format) files are counted as unresolvable and not judged',
    'units=electron defines no density unit: atom styles with a density column are a documented refusal there',
    'Cartesian POSCAR only judged for origin 0 (the format has no origin)',
]

UNITS = list(U.STYLES)
PBCS = list(itertools.product([True, False], repeat=3))      # index 0 = fully periodic
if THOROUGH:
    FORMATS = ['%.13f', '%.10e', '%.6f', '%.3f', '%.16e']
else:
    FORMATS = ['%.13f', '%.10e', '%.6f']

# ---------------------------------------------------------------------------------------------
# column name -> (system property, component index or None, physical quantity)   [data files]
COLPROP = {
    'mol': ('m_id', None, None), 'q': ('charge', None, 'charge'),
    'mux': ('mu', 0, 'dipole'), 'muy': ('mu', 1, 'dipole'), 'muz': ('mu', 2, 'dipole'),
    'spin': ('espin', None, None), 'eradius': ('eradius', None, 'length'), 'bodyflag': ('bflag', None, None),
    'mass': ('mass', None, 'mass'), 'ellipsoidflag': ('eflag', None, None), 'density': ('density', None, 'density'),
    'lineflag': ('lflag', None, None), 'rho': ('rho', None, None), 'e': ('e', None, None), 'cv': ('cv', None, None),
    'volume': ('volume', None, 'volume'), 'kernelradius': ('kradius', None, 'length'),
    'contactradius': ('cradius', None, 'length'), 'diameter': ('diameter', None, 'length'),
    'templateindex': ('m_template', None, None), 'templateatom': ('a_template', None, None),
    'triangleflag': ('tflag', None, None), 'etag': ('e_id', None, None), 'cs_re': ('cs_re', None, None),
    'cs_im': ('cs_im', None, None),
    'vx': ('velocity', 0, 'velocity'), 'vy': ('velocity', 1, 'velocity'), 'vz': ('velocity', 2, 'velocity'),
    'ervel': ('eradial_velocity', None, 'velocity'),
    'lx': ('ang_momentum', 0, 'angmom'), 'ly': ('ang_momentum', 1, 'angmom'), 'lz': ('ang_momentum', 2, 'angmom'),
    'wx': ('ang_velocity', 0, 'angvel'), 'wy': ('ang_velocity', 1, 'angvel'), 'wz': ('ang_velocity', 2, 'angvel'),
}
# dump-file column names (LAMMPS dump custom attributes) -> (property, component, quantity)
DUMPCOL = {
    'mol': ('m_id', None, None), 'mass': ('mass', None, 'mass'), 'q': ('charge', None, 'charge'),
    'vx': ('velocity', 0, 'velocity'), 'vy': ('velocity', 1, 'velocity'), 'vz': ('velocity', 2, 'velocity'),
    'fx': ('force', 0, 'force'), 'fy': ('force', 1, 'force'), 'fz': ('force', 2, 'force'),
    'mux': ('mu', 0, 'dipole'), 'muy': ('mu', 1, 'dipole'), 'muz': ('mu', 2, 'dipole'),
    'diameter': ('diameter', None, 'length'), 'radius': ('radius', None, 'length'),
    'omegax': ('ang_velocity', 0, 'angvel'), 'omegay': ('ang_velocity', 1, 'angvel'), 'omegaz': ('ang_velocity', 2, 'angvel'),
    'angmomx': ('ang_momentum', 0, 'angmom'), 'angmomy': ('ang_momentum', 1, 'angmom'), 'angmomz': ('ang_momentum', 2, 'angmom'),
}
ATOM_STYLES = sorted(P.DATA_ATOM_COLUMNS) + ['hybrid charge sphere', 'hybrid molecular dipole']
if THOROUGH:
    ATOM_STYLES += ['hybrid sphere charge', 'hybrid electron', 'hybrid bond ellipsoid peri']


# ---------------------------------------------------------------------------------------------
# the system alphabet (shared with C08)

def _props(kind, n):
    """deterministic per-atom property values (working units); kind selects which are carried"""
    k = np.arange(n, dtype=float)
    ki = np.arange(n)
    p = {}
    if kind in ('vel', 'mid', 'full'):
        p['velocity'] = np.outer(k + 1, [0.4321987654321, -1.2345678901234, 2.7182818284590]) + [0.1, -0.25, 0.0]
    if kind in ('mid', 'full'):
        p['charge'] = np.array([-0.5, 1.25, 0.7531, -1.5031, 2.0625, -0.3137])[:n]
        p['stress'] = (np.arange(9.0).reshape(3, 3) - 3.3)[None] * (k + 0.37)[:, None, None] * 0.01234567
        p['tag'] = (ki * 7 + 3) % 5
        # per-atom shapes with singleton dimensions: one table column each, but not a scalar per atom
        p['weight'] = (0.25 + 0.5 * k).reshape(n, 1)
        p['w11'] = (1.75 - 0.125 * k).reshape(n, 1, 1)
    if kind == 'full':
        p['m_id'] = ki // 2 + 1
        p['mu'] = np.outer(k - 1.3, [0.11, -0.23, 0.37])
        p['espin'] = np.array([1, -1, 0, 2, 3, 1])[:n]
        p['eradius'] = 0.5 + 0.13 * k
        p['bflag'] = np.zeros(n, dtype=int)
        p['mass'] = 26.98 + 1.37 * k
        p['eflag'] = np.zeros(n, dtype=int)
        p['density'] = 1.618 + 0.271 * k
        p['lflag'] = np.zeros(n, dtype=int)
        p['rho'] = 0.91 + 0.011 * k
        p['e'] = 0.37 - 0.05 * k
        p['cv'] = 1.05 + 0.2 * k
        p['volume'] = 11.3 + 0.7 * k
        p['kradius'] = 2.6 + 0.1 * k
        p['cradius'] = 1.3 + 0.05 * k
        p['diameter'] = 2.2 + 0.21 * k
        p['m_template'] = ki % 2 + 1
        p['a_template'] = ki + 1
        p['tflag'] = np.zeros(n, dtype=int)
        p['e_id'] = ki + 11
        p['cs_re'] = 0.7 - 0.1 * k
        p['cs_im'] = -0.2 + 0.3 * k
        p['eradial_velocity'] = 0.031 * (k + 1)
        p['ang_momentum'] = np.outer(k + 0.5, [0.013, -0.021, 0.034])
        p['ang_velocity'] = np.outer(1.5 - k, [0.51, 0.22, -0.13])
    return p


_REL4 = [[0.31, 0.47, 0.62], [0.05, 0.93, 0.5], [0.98, 0.02, 0.97], [0.5, 0.5, 0.25]]
SYSDEFS = [
    dict(name='ortho0-inside', L=(4.0, 5.0, 6.0), tilt=(0.0, 0.0, 0.0), origin=(0.0, 0.0, 0.0),
         rel=_REL4, atype=[1, 2, 1, 2], symbols=None, props='vel'),
    dict(name='orthoO-outside-faces-gap', L=(4.0, 5.5, 3.5), tilt=(0.0, 0.0, 0.0), origin=(1.3, -2.7, 0.45),
         rel=[[0.31, 0.47, 0.62], [2.3, -1.6, 3.2], [0.0, 0.5, 1.0], [1.0, 0.0, 0.25]],
         atype=[1, 3, 3, 1], symbols=('Al', 'Cu', 'Fe', 'Ni'), props='full'),
    dict(name='tri0-inside-N3', L=(4.0, 5.0, 6.0), tilt=(1.1, -0.7, 0.9), origin=(0.0, 0.0, 0.0),
         rel=_REL4[:3], atype=[2, 1, 2], symbols=('Fe', 'O'), props='mid'),
    dict(name='triO-outside', L=(3.7, 4.1, 5.9), tilt=(-1.3, 0.8, -1.1), origin=(-0.6, 2.2, -7.5),
         rel=[[0.31, 0.47, 0.62], [-2.4, 1.7, -0.3], [3.6, -1.2, 2.5], [0.0, 1.0, 0.5]],
         atype=[1, 1, 2, 3], symbols=None, props='full'),
    dict(name='xy-only0-mixed', L=(5.0, 4.0, 3.0), tilt=(1.0, 0.0, 0.0), origin=(0.0, 0.0, 0.0),
         rel=[[0.25, 0.75, 0.5], [1.25, -0.75, 0.5], [0.5, 0.0, 0.0], [-3.5, 4.25, 1.0]],
         atype=[1, 1, 1, 1], symbols=('Cu',), props='none'),
    dict(name='yz-onlyO-neg', L=(3.0, 4.0, 5.0), tilt=(0.0, 0.0, -0.8), origin=(10.0, 20.5, -30.25),
         rel=[[0.31, 0.47, 0.62], [0.9, 0.1, -1.2], [0.0, 0.0, 0.0], [1.0, 1.0, 1.0]],
         atype=[2, 1, 1, 2], symbols=('Ni', 'Al'), props='full'),
    # xy and xz of the SAME sign: only then does the xy+xz term of the dump-file bounding box matter
    dict(name='tri0-xy-xz-positive', L=(6.0, 5.0, 4.0), tilt=(0.8, 1.3, -0.6), origin=(0.0, 0.0, 0.0),
         rel=_REL4[:3], atype=[1, 2, 1], symbols=None, props='none'),
    dict(name='triO-xy-xz-negative', L=(5.5, 4.5, 6.5), tilt=(-0.9, -1.4, 0.7), origin=(2.5, -1.5, 0.75),
         rel=[[0.31, 0.47, 0.62], [1.4, -0.3, 0.5], [0.0, 1.0, 0.25]], atype=[1, 1, 2], symbols=('Cu', 'Zr'), props='vel'),
]
# pre-vetted generic slices; VERIF_SEED appends exactly one (thorough: all), each enumerated completely
_SLICES = []
for _s in range(8):
    _SLICES.append(dict(name='slice%d' % _s, L=(3.0 + 0.37 * _s, 4.3 - 0.21 * _s, 5.2 + 0.13 * _s),
                        tilt=(0.9 - 0.31 * _s, -0.4 + 0.17 * _s, 0.6 - 0.23 * _s),
                        origin=(0.7 * _s - 2.0, 1.1 - 0.3 * _s, 0.05 * _s),
                        rel=[[0.13 + 0.09 * _s, 0.81 - 0.07 * _s, 0.44], [1.37 + 0.2 * _s, -0.61, 0.29],
                             [0.5, 0.5 - 0.4 * _s, -2.2 + 0.3 * _s], [-1.0 + 0.25 * _s, 2.75, 0.125 * _s]],
                        atype=[1 + _s % 2, 2, 1, 2 + _s % 2], symbols=None, props='full'))
SYSDEFS = SYSDEFS + (_SLICES if THOROUGH else [_SLICES[SEED % 8]])
if THOROUGH:
    SYSDEFS.append(dict(name='tri-N6-far', L=(2.5, 3.5, 4.5), tilt=(1.2, 1.0, -1.6), origin=(3.0, -3.0, 0.5),
                        rel=[[0.2, 0.3, 0.4], [17.6, -23.1, 9.9], [-9.25, 0.5, 0.5], [0.0, 0.0, 1.0], [1.0, 1.0, 0.0],
                             [0.999, 0.001, 0.5]],
                        atype=[1, 2, 4, 2, 1, 4], symbols=None, props='mid'))


def reset_units():
    uc.reset_units(length='angstrom', mass='amu', energy='eV', charge='e')


def sys_vects(sd):
    (lx, ly, lz), (xy, xz, yz) = sd['L'], sd['tilt']
    return np.array([[lx, 0.0, 0.0], [xy, ly, 0.0], [xz, yz, lz]])


def make_system(sd, pbc, own_id=None):
    """fresh real System + an independent plain record of what it holds (working units)"""
    v = sys_vects(sd)
    o = np.array(sd['origin'], dtype=float)
    rel = np.array(sd['rel'], dtype=float)
    pos = rel @ v + o
    n = len(pos)
    props = _props(sd['props'], n)
    if own_id is not None:
        props['atom_id'] = np.array(own_id[:n])
    atoms = am.Atoms(atype=np.array(sd['atype']), pos=pos.copy(), **{k: np.array(a) for k, a in props.items()})
    s = am.System(atoms=atoms, box=am.Box(vects=v.copy(), origin=o.copy()), pbc=pbc, symbols=sd['symbols'])
    natypes = max(max(sd['atype']), len(sd['symbols']) if sd['symbols'] else 0)
    rec = dict(n=n, vects=v, origin=o, rel=rel, pos=pos, atype=np.array(sd['atype']), props=props,
               natypes=natypes, symbols=sd['symbols'], pbc=tuple(pbc))
    return s, rec


def styles_for(sd):
    """atom styles whose columns the system carries (decided from the independent column tables)"""
    have = set(_props(sd['props'], len(sd['rel'])))
    out = []
    for st in ATOM_STYLES:
        need = [COLPROP[c][0] for c in P.data_atom_columns(st) if c in COLPROP]
        if 'velocity' in have:
            need += [COLPROP[c][0] for c in P.data_velocity_columns(st) if c in COLPROP]
        if all(p in have for p in need):
            out.append(st)
    return out


def slug(msg):
    return re.sub(r'[^a-z]+', '-', re.sub(r'\d+', '', str(msg).lower()))[:40].strip('-')


def relwidth(vects):
    """bound on |d s| per unit |d x|_inf when s = x @ inv(vects)"""
    return np.abs(np.linalg.inv(vects)).sum(axis=0).max()


def close(a, b, tol):
    return np.all(np.abs(np.asarray(a, float) - np.asarray(b, float)) <= tol)


def check_cell(fo, fv, hfo, hfv, rec, fl, tag, exact_dirs):
    """file cell vs the system's cell (converted by fl).  Along directions in exact_dirs the cell vector
    must equal the system's; along the others (non-periodic, data files) the documented wrap may extend the
    box: the vector stays parallel, and the new cell contains the old one."""
    fails = []
    v0, o0 = rec['vects'] * fl, rec['origin'] * fl
    scale = np.abs(v0).max() + np.abs(o0).max()
    eps = 1e-12 * scale
    inv0 = np.linalg.inv(v0)
    rt = relwidth(v0) * (hfo.max() + 2 * hfv.max() + eps) * 3 + 1e-12
    m = (fo - o0) @ inv0                 # origin shift in old relative coordinates
    kmat = fv @ inv0                     # new vectors in old relative coordinates (should be diagonal)
    off = kmat - np.diag(np.diag(kmat))
    if np.abs(off).max() > rt:
        fails.append(Fail(key=tag + '-cell-direction', msg='written cell vectors are not parallel to the system\'s',
                          observed=fv, expected=v0))
        return fails
    for i in range(3):
        k = kmat[i, i]
        if i in exact_dirs:
            if not close(fv[i], v0[i], hfv[i] + eps) or abs(m[i]) > rt:
                fails.append(Fail(key=tag + '-cell', msg='cell vector/origin %d differs from the system beyond print precision' % i,
                                  observed=[fo, fv[i]], expected=[o0, v0[i]]))
        else:
            if k < 1 - rt or m[i] > rt or m[i] + k < 1 - rt:
                fails.append(Fail(key=tag + '-cell-shrunk', msg='non-periodic direction %d: written cell does not contain the system cell' % i,
                                  observed=[m[i], k]))
    return fails


# ---------------------------------------------------------------------------------------------
# LAMMPS data files

def judge_data(text, info, rec, after, style, units, fname=None):
    """all C07 clauses for one data file.  rec = the system as constructed; after = (origin, vects, pos) of
    the System object after the call (None when safecopy)."""
    fails = []
    n = rec['n']
    fl = U.factor(units, 'length')
    try:
        d = P.parse_data(text, style)
    except P.FormatError as e:
        if str(e).startswith('box:'):
            # is the box resolvable at all by this float_format?
            m = re.search(r'\((\S+) (\S+)\)', str(e))
            hu = max(P.Num(m.group(1)).hu, P.Num(m.group(2)).hu)
            if (np.diag(rec['vects']) * fl).min() < 200 * hu:
                chk.note('data-unresolvable-format')
                return None
        return [Fail(key='data-malformed-' + slug(e), msg='independent read_data parser rejects the file: %s' % e, text=text[:600])]
    if d['natoms'] != n or len(d['atoms']['id']) != n:
        fails.append(Fail(key='data-natoms', msg='header says %s atoms, system has %d' % (d['natoms'], n)))
        return fails
    if d['ntypes'] != rec['natypes']:
        fails.append(Fail(key='data-ntypes', msg='header says %s atom types, system has %d' % (d['ntypes'], rec['natypes'])))
    if d['style_hint'] is not None and d['style_hint'] != style:
        fails.append(Fail(key='data-style-hint', msg='Atoms section comment %r is not the atom_style %r' % (d['style_hint'], style)))
    tri = any(t != 0.0 for t in np.array([rec['vects'][1, 0], rec['vects'][2, 0], rec['vects'][2, 1]]))
    if tri != (d['tilt'] is not None):
        fails.append(Fail(key='data-tilt-line', msg='tilt line present=%s but system tilted=%s' % (d['tilt'] is not None, tri)))
    ids = d['atoms']['id']
    if sorted(ids) != list(range(1, n + 1)):
        fails.append(Fail(key='data-ids', msg='atom ids are not 1..N', observed=ids))
        return fails
    row = np.argsort(ids)               # row[j] = line of atom j (id j+1)
    fo, fv, hfo, hfv = P.data_cell(d)
    exact = [i for i in range(3) if rec['pbc'][i]]
    fails += check_cell(fo, fv, hfo, hfv, rec, fl, 'data', exact)
    eps = 1e-12 * (np.abs(fv).max() + np.abs(fo).max() + np.abs(rec['pos'] * fl).max())
    if after is not None:
        ao, av, apos = after
        if not close(fo, ao * fl, hfo + eps) or not close(fv, av * fl, hfv + eps):
            fails.append(Fail(key='data-cell-vs-wrapped-system', msg='written box is not the box of the (wrapped) system object',
                              observed=[fo, fv], expected=[ao * fl, av * fl]))
    xyz = np.array([[float(d['atoms'][c][r]) for c in 'xyz'] for r in row])
    hxyz = np.array([[d['atoms'][c][r].hu for c in 'xyz'] for r in row])
    # every atom inside the written box
    inv = np.linalg.inv(fv)
    s = (xyz - fo) @ inv
    stol = (hxyz + hfo) @ np.abs(inv) + np.abs(s) @ (hfv @ np.abs(inv)) + 1e-12
    bad = (s < -stol) | (s > 1 + stol)
    if bad.any():
        fails.append(Fail(key='data-atom-outside-box', msg='an atom lies outside the written bounds', fractional=s[bad.any(axis=1)]))
    # positions after applying image flags
    flags = d['flags'][row] if d['flags'] is not None else np.zeros((n, 3), int)
    for i in range(3):
        if not rec['pbc'][i] and np.any(flags[:, i] != 0):
            fails.append(Fail(key='data-flag-nonperiodic', msg='non-zero image flag along non-periodic direction %d' % i))
    rebuilt = xyz + flags @ fv
    tol = hxyz + np.abs(flags) @ hfv + eps
    if not close(rebuilt, rec['pos'] * fl, tol):
        fails.append(Fail(key='data-position', msg='position + image flags * cell vectors differs from the system position (in %s units)' % units,
                          observed=rebuilt, expected=rec['pos'] * fl, tol=tol.max()))
    if after is not None and not close(xyz, after[2] * fl, hxyz + eps):
        fails.append(Fail(key='data-position-vs-wrapped-system', msg='written coordinates are not those of the wrapped system object'))
    # types and every other column
    if [d['atoms']['type'][r] for r in row] != list(rec['atype']):
        fails.append(Fail(key='data-type', msg='type column differs from atype'))
    fails += judge_columns(d['atoms'], row, rec, units, 'data', COLPROP, skip=('id', 'type', 'x', 'y', 'z'))
    # Velocities
    hasvel = 'velocity' in rec['props']
    if hasvel != (d['velocities'] is not None):
        fails.append(Fail(key='data-velocities-section', msg='Velocities section present=%s, system has velocity=%s' % (d['velocities'] is not None, hasvel)))
    elif hasvel:
        vrow = np.argsort(d['velocities']['id'])
        fails += judge_columns(d['velocities'], vrow, rec, units, 'data-vel', COLPROP, skip=('id',))
    # the command snippet
    fails += judge_info(info, rec, style, units, fname)
    hasflags = bool(np.any(flags != 0))
    extended = bool(len(exact) < 3 and (np.abs(np.diag(fv @ np.linalg.inv(rec['vects'] * fl)) - 1).max() > 1e-6))
    if hasflags:
        chk.note('data-files-with-image-flags')
    if extended:
        chk.note('data-files-with-extended-box')
    if hasflags or extended:
        chk.note('data-files-nontrivial')
    chk.note('data-files')
    return fails


def judge_columns(table, row, rec, units, tag, colmap, skip=()):
    fails = []
    for col, toks in table.items():
        if col in skip:
            continue
        if col not in colmap:
            fails.append(Fail(key=tag + '-unknown-column', msg='column %s' % col))
            continue
        pname, comp, q = colmap[col]
        want = np.asarray(rec['props'][pname])
        if comp is not None:
            want = want[:, comp]
        f = U.factor(units, q)
        got = [toks[r] for r in row]
        if q is None and want.dtype.kind in 'iu':
            if [int(x.text) if isinstance(x, P.Num) and re.match(r'^[+-]?\d+$', x.text) else (x if isinstance(x, int) else None)
                    for x in got] != list(want):
                fails.append(Fail(key='%s-column-%s' % (tag, col), msg='integer column %s differs' % col, observed=[getattr(x, 'text', x) for x in got], expected=want))
            continue
        want = want * f
        tol = np.array([x.hu if isinstance(x, P.Num) else 0.0 for x in got]) + 1e-12 * np.abs(want)
        if not close([float(x) for x in got], want, tol):
            fails.append(Fail(key='%s-column-%s-units-%s' % (tag, col, units if q else 'none'),
                              msg='column %s differs from the system value converted to %s units (%s)' % (col, units, q),
                              observed=[float(x) for x in got], expected=want))
    return fails


def judge_info(info, rec, style, units, fname):
    fails = []
    if not isinstance(info, str):
        return [Fail(key='info-missing', msg='no command snippet returned')]
    cmds = {}
    for line in info.split('\n'):
        w = line.split('#')[0].split()
        if w:
            cmds.setdefault(w[0], []).append(w[1:])
    if cmds.get('units') != [[units]]:
        fails.append(Fail(key='info-units', msg='snippet says units %s, file was written for %s' % (cmds.get('units'), units)))
    if cmds.get('atom_style') != [style.split()]:
        fails.append(Fail(key='info-atom-style', msg='snippet says atom_style %s, file was written for %s' % (cmds.get('atom_style'), style)))
    b = cmds.get('boundary')
    if not b or len(b) != 1 or len(b[0]) != 3 or any(not re.match(r'^[pfsm]{1,2}$', x) for x in b[0]):
        fails.append(Fail(key='info-boundary-syntax', msg='boundary command malformed: %s' % b))
    else:
        for i in range(3):
            if (b[0][i] == 'p') != bool(rec['pbc'][i]) or ('p' in b[0][i] and b[0][i] != 'p'):
                fails.append(Fail(key='info-boundary', msg='boundary %s for pbc %s' % (b[0], rec['pbc'])))
                break
    if fname is not None and cmds.get('read_data', [[None]])[0][:1] != [fname]:
        fails.append(Fail(key='info-read-data', msg='read_data does not name the written file'))
    return fails


def refusal_expected(style, units, hasvel):
    """(style, units) pairs for which the unit style defines no unit for a needed column"""
    cols = P.data_atom_columns(style) + (P.data_velocity_columns(style) if hasvel else [])
    return any(COLPROP[c][2] and U.factor(units, COLPROP[c][2]) is None for c in cols if c in COLPROP)


@chk.clause('data')
def data(case):
    reset_units()
    sd = SYSDEFS[case['sys']]
    pbc = PBCS[case['pbc']]
    style, units, fmt = ATOM_STYLES[case['style']], UNITS[case['units']], FORMATS[case['fmt']]
    s, rec = make_system(sd, pbc)
    if refusal_expected(style, units, 'velocity' in rec['props']):
        try:
            s.dump('atom_data', atom_style=style, units=units, float_format=fmt)
        except (KeyError, ValueError):
            chk.note('data-refusal-no-unit')
            return []
        return [Fail(key='data-no-refusal', msg='units=%s has no density unit but atom_style %s was written' % (units, style))]
    text, info = s.dump('atom_data', atom_style=style, units=units, float_format=fmt)
    after = (s.box.origin.copy(), s.box.vects.copy(), s.atoms.pos.copy())
    return judge_data(text, info, rec, after, style, units)


@chk.clause('data-io')
def data_io(case):
    """same file through f=<path>, f=<handle>, safecopy=True; system untouched under safecopy"""
    reset_units()
    sd = SYSDEFS[case['sys']]
    pbc = PBCS[case['pbc']]
    style, units = case['style'], case['units']
    s0, rec = make_system(sd, pbc)
    text0, info0 = s0.dump('atom_data', atom_style=style, units=units)
    fails = []
    s1, _ = make_system(sd, pbc)
    r = s1.dump('atom_data', atom_style=style, units=units, safecopy=True)
    if r[0] != text0:
        fails.append(Fail(key='io-safecopy-text', msg='safecopy=True writes a different file'))
    if not (np.array_equal(s1.atoms.pos, rec['pos']) and np.array_equal(s1.box.vects, rec['vects'])
            and np.array_equal(s1.box.origin, rec['origin'])):
        fails.append(Fail(key='io-safecopy-mutates', msg='safecopy=True changed the system'))
    f1 = judge_data(r[0], r[1], rec, None, style, units)
    fails += f1 or []
    tmp = tempfile.mkdtemp(prefix='c07_')
    try:
        path = os.path.join(tmp, 'atom.dat')
        s2, _ = make_system(sd, pbc)
        info = s2.dump('atom_data', f=path, atom_style=style, units=units)
        if open(path).read() != text0:
            fails.append(Fail(key='io-path-text', msg='f=<path> writes a different file'))
        fails += judge_info(info, rec, style, units, path)
        s3, _ = make_system(sd, pbc)
        h = io.StringIO()
        info = s3.dump('atom_data', f=h, atom_style=style, units=units, return_info=False)
        if h.getvalue() != text0 or info is not None:
            fails.append(Fail(key='io-handle-text', msg='f=<handle> writes a different file / returns something'))
    finally:
        shutil.rmtree(tmp, ignore_errors=True)
    return fails


# ---------------------------------------------------------------------------------------------
# LAMMPS dump files

# 'a+b': several position column sets requested together, in that order
DUMP_VARIANTS = ['all', 'pos', 'spos', 'upos', 'supos', 'ownid', 'pos+upos', 'upos+pos', 'supos+pos+spos+upos']
OWN_IDS = [7, 3, 12, 5, 40, 1]
POSCOLS = {'pos': 'x y z', 'spos': 'xs ys zs', 'upos': 'xu yu zu', 'supos': 'xsu ysu zsu'}


def judge_dump(text, rec, units, ids_expected):
    fails = []
    n = rec['n']
    fl = U.factor(units, 'length')
    try:
        d = P.parse_dump(text)
    except P.FormatError as e:
        return [Fail(key='dump-malformed-' + slug(e), msg='independent dump parser rejects the file: %s' % e, text=text[:600])], None
    if d['natoms'] != n:
        return [Fail(key='dump-natoms', msg='NUMBER OF ATOMS %d, system has %d' % (d['natoms'], n))], None
    tri = any(t != 0.0 for t in [rec['vects'][1, 0], rec['vects'][2, 0], rec['vects'][2, 1]])
    if tri != d['triclinic']:
        fails.append(Fail(key='dump-triclinic-header', msg='BOX BOUNDS xy xz yz present=%s, system tilted=%s' % (d['triclinic'], tri)))
    for i in range(3):
        if (d['bflags'][i] == 'pp') != bool(rec['pbc'][i]):
            fails.append(Fail(key='dump-boundary', msg='boundary flags %s for pbc %s' % (d['bflags'], rec['pbc'])))
            break
    b = np.array([[float(x) for x in r] for r in d['bounds']])
    hb = np.array([[x.hu for x in r] for r in d['bounds']])
    fo, fv, hfo, hfv = P.dump_cell(d)
    if np.any(np.diag(fv) <= 0):
        if (np.diag(rec['vects']) * fl).min() < 200 * hb.max():
            chk.note('dump-unresolvable-format')
            return None, None
        fails.append(Fail(key='dump-lo-hi', msg='lo >= hi after removing the bounding-box shifts', observed=[fo, fv]))
        return fails, None
    if (np.diag(rec['vects']) * fl).min() < 200 * hb.max():
        chk.note('dump-unresolvable-format')
        return None, None
    fails += check_cell(fo, fv, hfo, hfv, rec, fl, 'dump', [0, 1, 2])
    cols = d['columns']
    if 'id' not in cols:
        fails.append(Fail(key='dump-no-id', msg='no id column'))
        return fails, d
    ids = [P.as_int(r[cols.index('id')], 'id') for r in d['rows']]
    if sorted(ids) != sorted(ids_expected):
        fails.append(Fail(key='dump-ids', msg='ids are not the system\'s (or 1..N)', observed=ids, expected=ids_expected))
        return fails, d
    row = [ids.index(i) for i in ids_expected]
    table = {}
    for j, c in enumerate(cols):
        table[c] = [(P.as_int(r[j], c) if c in P.INT_COLUMNS else P.Num(r[j])) for r in d['rows']]
    eps = 1e-12 * (np.abs(fv).max() + np.abs(fo).max() + np.abs(rec['pos'] * fl).max())
    seen = set()
    for pname, names in POSCOLS.items():
        names = names.split()
        if not all(c in cols for c in names):
            if any(c in cols for c in names):
                fails.append(Fail(key='dump-partial-position-columns', msg='%s incomplete' % names))
            continue
        seen.update(names)
        val = np.array([[float(table[c][r]) for c in names] for r in row])
        hv = np.array([[table[c][r].hu for c in names] for r in row])
        if pname in ('spos', 'supos'):
            cart = fo + val @ fv
            tol = hfo + hv @ np.abs(fv) + np.abs(val) @ hfv + eps
            chk.note('dump-files-with-scaled-columns')
        else:
            cart, tol = val, hv + eps
        if not close(cart, rec['pos'] * fl, tol):
            fails.append(Fail(key='dump-position-%s' % pname, msg='%s columns (unscaled with the written box) differ from the system positions in %s units' % (names, units),
                              observed=cart, expected=rec['pos'] * fl))
    if 'type' in cols:
        seen.add('type')
        if [table['type'][r] for r in row] != list(rec['atype']):
            fails.append(Fail(key='dump-type', msg='type column differs'))
    seen.add('id')
    rest = {c: table[c] for c in cols if c not in seen}
    colmap = dict(DUMPCOL)
    # non-standard properties: documented fallback name = property name + index string
    for pname, a in rec['props'].items():
        a = np.asarray(a)
        if a.ndim == 1:
            colmap.setdefault(pname, (pname, None, None))
        elif a.ndim == 2:
            for i in range(a.shape[1]):
                colmap.setdefault('%s[%d]' % (pname, i), (pname, i, None))
        elif a.ndim == 3:
            for i in range(a.shape[1]):
                for j in range(a.shape[2]):
                    colmap.setdefault('%s[%d][%d]' % (pname, i, j), (pname, (i, j), None))
    rest2 = {}
    for c, toks in rest.items():
        if c in colmap and colmap[c][0] in rec['props'] and isinstance(colmap[c][1], tuple):
            i, j = colmap[c][1]
            want = np.asarray(rec['props'][colmap[c][0]])[:, i, j]
            got = [toks[r] for r in row]
            if not close([float(x) for x in got], want, np.array([x.hu for x in got]) + 1e-12 * np.abs(want)):
                fails.append(Fail(key='dump-column-%s' % c, msg='column differs'))
        else:
            rest2[c] = toks
    fails += judge_columns(rest2, row, rec, units, 'dump', colmap)
    chk.note('dump-files')
    return fails, d


@chk.clause('dump')
def dump(case):
    reset_units()
    sd = SYSDEFS[case['sys']]
    pbc = PBCS[case['pbc']]
    units, fmt, var = UNITS[case['units']], FORMATS[case['fmt']], DUMP_VARIANTS[case['var']]
    s, rec = make_system(sd, pbc, own_id=OWN_IDS if var == 'ownid' else None)
    kw = {}
    posvars = var.split('+') if all(v in POSCOLS for v in var.split('+')) else []
    if posvars:
        names = ['atom_id', 'atype'] + posvars
        for extra in ('velocity', 'charge'):
            if extra in rec['props']:
                names.append(extra)
        kw['prop_name'] = names
    text = s.dump('atom_dump', lammps_units=units, float_format=fmt, **kw)
    ids = list(rec['props'].pop('atom_id')) if var == 'ownid' else list(range(1, rec['n'] + 1))
    fails, d = judge_dump(text, rec, units, ids)
    fails = fails or []
    if d is not None:
        cols = d['columns']
        if posvars:
            want = ['id', 'type'] + [c for v in posvars for c in POSCOLS[v].split()]
            if cols[:len(want)] != want:
                fails.append(Fail(key='dump-columns', msg='requested %s, header lists %s' % (want, cols)))
        else:
            nexp = 5 + sum(int(np.prod(np.shape(a)[1:])) for a in rec['props'].values())
            if len(cols) != nexp or not all(c in cols for c in 'id type x y z'.split()):
                fails.append(Fail(key='dump-columns', msg='all properties requested: expected %d columns, header lists %s' % (nexp, cols)))
    if not np.array_equal(s.atoms.pos, rec['pos']) or not np.array_equal(s.box.vects, rec['vects']):
        fails.append(Fail(key='dump-mutates', msg='writing a dump file changed the system'))
    return fails


# ---------------------------------------------------------------------------------------------
# generic table

TABLE_VARIANTS = ['default', 'named', 'scaled']


@chk.clause('table')
def table(case):
    reset_units()
    sd = SYSDEFS[case['sys']]
    fmt, var, header = FORMATS[case['fmt']], TABLE_VARIANTS[case['var']], bool(case['header'])
    s, rec = make_system(sd, PBCS[0])
    n = rec['n']
    fails = []
    if var == 'default':
        names = ['atype', 'pos'] + list(rec['props'])
        units = [None] * len(names)
        text = s.dump('table', header=header, float_format=fmt)
    else:
        names = ['atype', 'pos']
        units = [None, 'nm' if var == 'named' else 'scaled']
        if 'velocity' in rec['props']:
            names.append('velocity')
            units.append('m/s')
        if 'stress' in rec['props']:
            names += ['stress', 'charge', 'tag']
            units += ['GPa', 'C', None]
        text = s.dump('table', prop_name=list(names), unit=list(units), header=header, float_format=fmt)
    lines = text.split('\n')
    if lines[-1] != '':
        fails.append(Fail(key='table-no-final-newline', msg='table does not end with a newline'))
    else:
        lines = lines[:-1]
    if len(lines) != n + int(header):
        return fails + [Fail(key='table-lines', msg='%d lines for %d atoms (header=%s)' % (len(lines), n, header))]
    want_cols = []
    want_vals = []
    for nm, un in zip(names, units):
        a = rec['atype'] if nm == 'atype' else (rec['pos'] if nm == 'pos' else np.asarray(rec['props'][nm]))
        if un == 'scaled':
            a = rec['rel']
            chk.note('table-files-with-scaled-columns')
        elif un is not None:
            a = a * U.named_factor(un)
        a = np.asarray(a).reshape(n, -1)
        shape = np.shape(rec['atype'] if nm == 'atype' else (rec['pos'] if nm == 'pos' else rec['props'][nm]))[1:]
        for j, idx in enumerate(itertools.product(*[range(k) for k in shape])):
            want_cols.append(nm + ''.join('[%d]' % i for i in idx))
            want_vals.append(a[:, j])
    if header:
        if lines[0].split() != want_cols:
            fails.append(Fail(key='table-header', msg='header %s, expected %s' % (lines[0].split(), want_cols)))
        lines = lines[1:]
    for r, line in enumerate(lines):
        w = line.split(' ')
        if len(w) != len(want_cols):
            return fails + [Fail(key='table-columns', msg='row has %d fields, expected %d' % (len(w), len(want_cols)))]
        for c, tok in enumerate(w):
            want = want_vals[c][r]
            try:
                if np.asarray(want_vals[c]).dtype.kind in 'iu':
                    ok = P.as_int(tok, 'int column') == want
                else:
                    x = P.Num(tok)
                    if var == 'scaled' and want_cols[c].startswith('pos'):
                        tolx = x.hu + 1e-12
                    else:
                        tolx = x.hu + 1e-12 * abs(want)
                    ok = abs(float(x) - want) <= tolx
            except P.FormatError as e:
                return fails + [Fail(key='table-token', msg=str(e))]
            if not ok:
                fails.append(Fail(key='table-value-%s-%s' % (re.sub(r'\[.*', '', want_cols[c]), var),
                                  msg='column %s row %d: %s, expected %r' % (want_cols[c], r, tok, float(want))))
                return fails
    chk.note('table-files')
    return fails


# ---------------------------------------------------------------------------------------------
# POSCAR

POSCAR_STYLES = ['direct', 'cartesian'] + (['Direct', 'Cartesian', 'kartesian', 'D'] if THOROUGH else [])
POSCAR_SCALES = [1.0, 2.5]
POSCAR_SYMS = ['system', 'explicit', 'none']
POSCAR_FORMATS = ['%.13e', '%.13f', '%.6f']


@chk.clause('poscar')
def poscar(case):
    reset_units()
    sd = dict(SYSDEFS[case['sys']])
    cstyle, bscale = POSCAR_STYLES[case['style']], POSCAR_SCALES[case['scale']]
    symmode, fmt = POSCAR_SYMS[case['sym']], POSCAR_FORMATS[case['fmt']]
    cart = cstyle[0] in 'cCkK'
    if cart and np.any(np.array(sd['origin']) != 0):
        chk.note('poscar-skipped-cartesian-with-origin')
        return []
    kw = {}
    if symmode == 'none':
        sd['symbols'] = None
    s, rec = make_system(sd, PBCS[0])
    if symmode == 'explicit':
        kw['symbols'] = tuple('XYZWVU'[:rec['natypes']])
    want_symbols = kw.get('symbols', rec['symbols'])
    text = s.dump('poscar', header='c07 header line', coordstyle=cstyle, box_scale=bscale, float_format=fmt, **kw)
    fails = []
    try:
        d = P.parse_poscar(text)
    except P.FormatError as e:
        return [Fail(key='poscar-malformed-' + slug(e), msg='independent POSCAR parser rejects the file: %s' % e, text=text[:500])]
    n = rec['n']
    if d['comment'] != 'c07 header line':
        fails.append(Fail(key='poscar-comment', msg='first line is not the header'))
    if d['cartesian'] != cart:
        fails.append(Fail(key='poscar-mode', msg='coordinate mode line %r for coordstyle %r' % (d['mode_line'], cstyle)))
    if abs(float(d['scale']) - bscale) > d['scale'].hu:
        fails.append(Fail(key='poscar-scale', msg='scale line %s for box_scale %s' % (d['scale'].text, bscale)))
    if sum(d['counts']) != n:
        return fails + [Fail(key='poscar-count-sum', msg='counts %s sum to %d, system has %d atoms' % (d['counts'], sum(d['counts']), n))]
    if want_symbols is None:
        if d['symbols'] is not None:
            fails.append(Fail(key='poscar-symbols-unexpected', msg='symbols line %s without symbols' % d['symbols']))
    elif d['symbols'] != list(want_symbols):
        fails.append(Fail(key='poscar-symbols', msg='symbols line %s, expected %s' % (d['symbols'], want_symbols)))
    want_counts = [int(np.sum(rec['atype'] == a)) for a in range(1, len(d['counts']) + 1)]
    if len(d['counts']) < max(rec['atype']) or d['counts'] != want_counts:
        fails.append(Fail(key='poscar-counts', msg='counts %s, atoms per type are %s' % (d['counts'], want_counts)))
        return fails
    eps = 1e-12 * np.abs(rec['vects']).max()
    if not close(d['vects'], rec['vects'], d['hvects'] + eps):
        fails.append(Fail(key='poscar-lattice', msg='scale * lattice differs from the box vectors', observed=d['vects'], expected=rec['vects']))
    order = np.concatenate([np.where(rec['atype'] == a)[0] for a in range(1, len(d['counts']) + 1)]).astype(int)
    if cart:
        if not close(d['cart'], rec['pos'][order], d['hcart'] + eps):
            fails.append(Fail(key='poscar-cartesian-scale' if bscale != 1 else 'poscar-cartesian',
                              msg='scale * Cartesian coordinates differ from the atom positions (VASP scales lattice and Cartesian coordinates)',
                              observed=d['cart'], expected=rec['pos'][order]))
    else:
        if not close(d['frac'], rec['rel'][order], d['hfrac'] + 1e-12 * (1 + np.abs(rec['rel'][order]))):
            fails.append(Fail(key='poscar-direct', msg='direct coordinates differ from the relative positions', observed=d['frac'], expected=rec['rel'][order]))
    if bscale != 1:
        chk.note('poscar-files-with-scale')
    chk.note('poscar-files')
    return fails


# ---------------------------------------------------------------------------------------------

def gen():
    for si, sd in enumerate(SYSDEFS):
        styles = styles_for(sd)
        for pi in range(len(PBCS)):
            for st in styles:
                for ui in range(len(UNITS)):
                    for fi in range(len(FORMATS)):
                        yield 'data', {'sys': si, 'pbc': pi, 'style': ATOM_STYLES.index(st), 'units': ui, 'fmt': fi}
            for st in [x for x in ('atomic', 'full') if x in styles]:
                for un in ('metal', 'nano'):
                    yield 'data-io', {'sys': si, 'pbc': pi, 'style': st, 'units': un}
            for ui in range(len(UNITS)):
                for fi in range(len(FORMATS)):
                    for vi in range(len(DUMP_VARIANTS)):
                        yield 'dump', {'sys': si, 'pbc': pi, 'units': ui, 'fmt': fi, 'var': vi}
        for fi in range(len(FORMATS)):
            for vi in range(len(TABLE_VARIANTS)):
                for h in (0, 1):
                    yield 'table', {'sys': si, 'fmt': fi, 'var': vi, 'header': h}
        for ci in range(len(POSCAR_STYLES)):
            for bi in range(len(POSCAR_SCALES)):
                for yi in range(len(POSCAR_SYMS)):
                    for fi in range(len(POSCAR_FORMATS)):
                        yield 'poscar', {'sys': si, 'style': ci, 'scale': bi, 'sym': yi, 'fmt': fi}


if __name__ == '__main__':
    chk.run_cases(gen(), batch=32)
    nt = sum(chk.notes.get(k, 0) for k in ('data-files-nontrivial',
                                           'dump-files-with-scaled-columns', 'table-files-with-scaled-columns',
                                           'poscar-files-with-scale'))
    cov = {'evaluations': sum(chk.notes.get(k, 0) for k in ('data-files', 'dump-files', 'table-files', 'poscar-files')),
           'distinct_nontrivial': nt, 'cases': sum(chk.counts.values())}
    sys.exit(chk.finish(cov))
