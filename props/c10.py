"""C10 - JSON/XML data-model round trip of values with units, Box, Atoms, System, ElasticConstants.

Bounded-exhaustive enumeration (full products of small menus, nothing sampled) over
inputs x encodings x (working units when the model is written, working units when it is read).

Every case: restore the default working units, switch to the writing configuration W, build
the object from *physical* numbers (menu value x my own factor of its unit under W), write the
model, encode it (DataModelDict object / .json() text / .xml() text / dump('system_model')),
switch to the reading configuration R with atomman.unitconvert.reset_units, decode and load,
and compare with the expectation computed from the physical numbers under R with the
independent factor table of this module (SI sizes of the units and dimension exponents;
uc.get_in_units / uc.set_in_units are never called for an expectation).
"""
import io
import itertools
import os
import random
import sys
import tempfile

import numpy as np
import numericalunits as nu
from DataModelDict import DataModelDict as DM

from mc.common import Check, Fail, SEED, THOROUGH, assert_overlay

am = assert_overlay()
uc = am.unitconvert

chk = Check('C10', 'exploration',
            'full products: (a) uc.model/value_unit/error_unit: dtype{float,int,str,bool} x shape{(),(1,),(3,),(1,1),(1,3),(2,2),(2,3,3)} '
            'x unit{None,nm,eV/angstrom^3,scaled} x container{ndarray,python-native; rank>=2 also Fortran-ordered and transposed-view ndarrays} x error{no,yes}; (b) Box.model: boxes x length_unit '
            'x reader{Box(model=),box.model(model=)}; (c) Atoms.model: natoms{1,3,..} x property-set x unit-style x api{prop_unit dict, '
            'prop_name+unit lists, no arguments}; (d) System.model/System(model=)/dump(system_model)/load(system_model): atoms x '
            'symbols/masses{none,full,partial,..} x box x pbc x pos unit{angstrom,nm,scaled,default} x property-set x unit-style x box_unit '
            'x route{model->dm/json/xml, dump->dm/json/xml/file}; (e) ElasticConstants.model: crystal system x unit x reader; every one '
            'crossed with encoding{DataModelDict,JSON text,XML text} and with the full product (writing configuration x reading '
            'configuration) of the core working-unit menu (default, SI, nm-amu-ps, one random draw) plus the extra configurations (nm-J and pm-eV, in which 1 GPa is the number 1e-18 / 6e-9, and the VERIF_SEED random draw) crossed with default and themselves (thorough: with everything); atoms and systems also with all per-atom arrays of rank>=2 handed over in non-C memory layouts.  One case = one write + one read.  distinct_nontrivial = cases whose writing and '
            'reading working units differ or whose text encoding is XML with a collapsed one-element list')
chk.assumptions = [
    'numericalunits (third party) is trusted for the base units of a configuration; the SI sizes of angstrom, nm, ps, eV, e, amu, GPa '
    'used by the oracle are literals of this module and are cross-checked against numericalunits under SI at start-up',
    'quantities stored with a unit (or box-scaled) are compared as physical values to 1e-11 x the largest magnitude of the array '
    '(derivation: <= 6 multiplications/divisions by factors of <= 10 flops each, one 3x3 solve with condition number < 20 for scaled; '
    'float repr in JSON and XML is exact)',
    'quantities stored with unit None are compared exactly as raw numbers, strings and booleans exactly',
    'integer dtypes: signed/unsigned are not distinguished; string item sizes are not compared',
    'string menu avoids texts that DataModelDict XML decoding maps to other types by design (numbers, "", true/false, nan, inf, '
    'leading/trailing blanks)',
    'ElasticConstants inputs already have the symmetry of the crystal_system they are normalised to (tolerance 1e-10 relative)',
]

# --------------------------------------------------------------------------------------------
# independent unit oracle

EV = 1.602176634e-19       # J
ECH = 1.602176634e-19      # C
AMU = 1.66053906892e-27    # kg (CODATA 2022, the value numericalunits 1.28 carries)

# name -> (size in SI, exponents of (length, mass, time, charge))
UNITS = {
    'angstrom': (1e-10, (1, 0, 0, 0)),
    'nm': (1e-9, (1, 0, 0, 0)),
    'eV/angstrom^3': (EV / 1e-30, (-1, 1, -2, 0)),
    'GPa': (1e9, (-1, 1, -2, 0)),
    # a compound unit with a product AFTER a quotient (left to right: (eV/angstrom^3)*angstrom = energy per area), the
    # form atomman.defect.SDVPN stores its beta coefficients with
    'eV/angstrom^3*angstrom': (EV / 1e-20, (0, 1, -2, 0)),
    'e': (ECH, (0, 0, 0, 1)),
    'C': (1.0, (0, 0, 0, 1)),
    'angstrom/ps': (1e-10 / 1e-12, (1, 0, -1, 0)),
    'nm/ps': (1e-9 / 1e-12, (1, 0, -1, 0)),
    'eV': (EV, (2, 1, -2, 0)),
    'mJ/m^2': (1e-3, (0, 1, -2, 0)),
}

# working-unit configurations: (name, how atomman is told, SI sizes of the working (length, mass, time, charge) units)


def _seed_scales(k):
    """numericalunits draws m, kg, s, C, K = 10**uniform(-2, 2) from random.seed(k); one metre is the NUMBER m,
    hence the working length unit measures 1/m metres."""
    r = random.Random(k)
    m, kg, s, c = [10 ** r.uniform(-2, 2) for _ in range(4)]
    return (1 / m, 1 / kg, 1 / s, 1 / c)


def _configs():
    out = [
        ('default', dict(length='angstrom', mass='amu', energy='eV', charge='e'),
         (1e-10, AMU, (AMU * 1e-20 / EV) ** 0.5, ECH)),
        ('SI', 'SI', (1.0, 1.0, 1.0, 1.0)),
        ('nm-amu-ps', dict(length='nm', mass='amu', time='ps'), (1e-9, AMU, 1e-12, 1.0)),
        ('seed3', 3, _seed_scales(3)),
    ]
    if THOROUGH:
        out.append(('cm-g-s-e', dict(length='cm', mass='g', time='s', charge='e'), (1e-2, 1e-3, 1.0, ECH)))
    global NCORE
    NCORE = len(out)
    # working units in which a pressure of 1 GPa is a tiny NUMBER (1e-18 and 6.2e-9): anything that compares a stored
    # quantity against an absolute threshold shows here (the mass unit follows from energy = mass length^2 / time^2)
    out.append(('nm-J', dict(length='nm', energy='J'), (1e-9, 1.0 / 1e-18, 1.0, 1.0)))
    out.append(('pm-eV', dict(length='pm', energy='eV'), (1e-12, EV / 1e-24, 1.0, 1.0)))
    # VERIF_SEED appends one pre-vetted extra configuration (a random-unit draw), it never selects cases
    k = 11 + SEED % 8
    out.append(('seedslice%d' % k, k, _seed_scales(k)))
    return out


NCORE = None
CONFIGS = _configs()
# full product of the core configurations; the extra ones (tiny-pressure units, seed slice) are crossed with 'default' and
# themselves (quick) or with everything (thorough)
if THOROUGH:
    CFGPAIRS = list(itertools.product(range(len(CONFIGS)), repeat=2))
else:
    CFGPAIRS = list(itertools.product(range(NCORE), repeat=2))
    for _x in range(NCORE, len(CONFIGS)):
        CFGPAIRS += [(_x, 0), (0, _x), (_x, _x)]


def F(cfg, unit):
    """number that a quantity of 1 <unit> has in the working units of configuration cfg"""
    size, ex = UNITS[unit]
    sc = CONFIGS[cfg][2]
    d = 1.0
    for s, e in zip(sc, ex):
        d *= s ** e
    return size / d


def convert(unit_from, unit_to):
    """number of unit_to in one unit_from (configuration independent)"""
    (s1, e1), (s2, e2) = UNITS[unit_from], UNITS[unit_to]
    assert e1 == e2
    return s1 / s2


def set_config(cfg):
    how = CONFIGS[cfg][1]
    if isinstance(how, dict):
        uc.reset_units(**how)
    else:
        uc.reset_units(how)
    # harness sanity: the oracle's idea of the configuration is the one numericalunits is in
    sc = CONFIGS[cfg][2]
    got = (1 / nu.m, 1 / nu.kg, 1 / nu.s, 1 / nu.C)
    for a, b in zip(sc, got):
        if abs(a - b) > 1e-12 * abs(a):
            return [Fail(key='config-sanity', msg='configuration %s: oracle scales %r, numericalunits %r' % (CONFIGS[cfg][0], sc, got))]
    return []


def restore_default():
    uc.reset_units(length='angstrom', mass='amu', energy='eV', charge='e')


def _startup_selfcheck():
    nu.reset_units('SI')
    for name, ref in (('angstrom', 1e-10), ('nm', 1e-9), ('ps', 1e-12), ('eV', EV), ('e', ECH), ('amu', AMU), ('GPa', 1e9), ('mJ', 1e-3)):
        v = getattr(nu, name)
        if abs(v - ref) > 1e-14 * ref:
            print('FATAL: oracle constant %s = %r differs from numericalunits %r' % (name, ref, v))
            sys.exit(3)
    restore_default()


_startup_selfcheck()

RTOL = 1e-11
ENCODINGS = ['dm', 'json', 'xml'] + (['json-indent', 'xml-indent'] if THOROUGH else [])

# --------------------------------------------------------------------------------------------
# shared helpers


def encode(model, enc):
    """DataModelDict with ONE root -> what is handed to the reader"""
    if enc == 'dm':
        return model
    if enc == 'json':
        return model.json()
    if enc == 'xml':
        return model.xml()
    if enc == 'json-indent':
        return model.json(indent=2)
    if enc == 'xml-indent':
        return model.xml(indent=2)
    raise ValueError(enc)


def kind_of(a):
    k = np.asarray(a).dtype.kind
    return {'u': 'i', 'S': 'U'}.get(k, k)


def compare(tag, got, exp, exact, fails, kind=None, collapse_ok=False):
    """got vs exp: shape, dtype kind, values (exact or to RTOL x max|exp|)"""
    exp = np.asarray(exp)
    g = np.asarray(got)
    if g.shape != exp.shape:
        if collapse_ok and g.size == exp.size:
            fails.append(Fail(key=tag + '-shape-collapsed', msg='%s: shape %s read back as %s' % (tag, exp.shape, g.shape),
                              expected=list(exp.shape), observed=list(g.shape)))
            g = g.reshape(exp.shape)
        else:
            fails.append(Fail(key=tag + '-shape', msg='%s: shape %s read back as %s' % (tag, exp.shape, g.shape),
                              expected=list(exp.shape), observed=list(g.shape)))
            return
    ek = kind or kind_of(exp)
    if kind_of(g) != ek:
        fails.append(Fail(key=tag + '-dtype', msg='%s: dtype kind %s read back as %s (%s)' % (tag, ek, kind_of(g), g.dtype),
                          expected=ek, observed=str(g.dtype)))
        return
    if ek in 'Ub' or exact:
        if not np.array_equal(g, exp):
            fails.append(Fail(key=tag + '-value', msg='%s: values differ (exact comparison)' % tag, expected=exp, observed=g))
    else:
        scale = np.abs(exp).max() if exp.size else 0.0
        err = np.abs(g.astype(float) - exp.astype(float)).max() if exp.size else 0.0
        if not (err <= RTOL * scale):
            fails.append(Fail(key=tag + '-value', msg='%s: physical value differs, max abs err %.3g at scale %.3g' % (tag, err, scale),
                              expected=exp, observed=g))


def suffix(fails, sfx):
    for f in fails:
        f['key'] = f['key'] + sfx
    return fails


def cross(case):
    return 'same' if case['W'] == case['R'] else 'cross'


def note_case(case, enc, collapsed=False):
    chk.note('cases')
    if case['W'] != case['R']:
        chk.note('write-and-read-units-differ')
    if case['W'] != case['R'] or (enc.startswith('xml') and collapsed):
        chk.note('nontrivial')
    if enc.startswith('xml') and collapsed:
        chk.note('xml-with-collapsed-one-element-list')


def staged(stage, fn, fails, sfx):
    """run fn; an exception becomes a Fail that names the stage"""
    try:
        return True, fn()
    except Exception as e:   # noqa
        fails.append(Fail(key='%s-exception:%s%s' % (stage, type(e).__name__, sfx),
                          msg='%s raised %s: %s' % (stage, type(e).__name__, str(e)[:200])))
        return False, None


# --------------------------------------------------------------------------------------------
# (a) values with units: uc.model / uc.value_unit / uc.error_unit

FLOATS = [4.05, -0.1, 1 / 3, 2.5e-7, 1234.5678, 0.0, -7.0, 1e5 / 7, 3.0, 0.75, -2e-3, 11.0, 0.02, 5.5, -1 / 7, 8.125, 1.0, 6.02]
INTS = [3, -7, 0, 12, 1, 2, -1, 40, 5, 9, -3, 8, 7, 100, -25, 6, 4, 11]
STRS = ['Al', 'x y', 'Cu', 'b-c', 'A1', 'fcc', 'Ni', 'q', 'Fe', 'hcp', 'W', 'zz', 'Mg', 'a.b', 'O', 'H', 'Ti', 'bcc']
BOOLS = [True, False, True, True, False, False, True, False, True, False, False, True, True, True, False, False, True, False]
VSHAPES = [(), (1,), (3,), (1, 1), (1, 3), (2, 2), (2, 3, 3)]
VKINDS = [('f', None), ('f', 'nm'), ('f', 'eV/angstrom^3'), ('f', 'eV/angstrom^3*angstrom'), ('f', 'scaled'), ('i', None), ('i', 'nm'), ('U', None), ('b', None)]
# 'ndarray-F' / 'ndarray-T': the same array held in Fortran order / as a transposed view (rank >= 2 only): what is
# written must follow the array's INDEX order, whatever its memory order
CONTAINERS = ['ndarray', 'native', 'ndarray-F', 'ndarray-T']


def relayout(a, how):
    """the same array (same shape, same elements) in another memory layout"""
    a = np.asarray(a)
    if a.ndim < 2:
        return a
    if how == 'ndarray-F':
        out = np.asfortranarray(a)
    else:
        out = np.ascontiguousarray(a.transpose()).transpose()
    assert out.shape == a.shape and np.array_equal(out, a)
    return out


def menu_array(kind, shape, offset=0):
    n = int(np.prod(shape)) if shape else 1
    src = {'f': FLOATS, 'i': INTS, 'U': STRS, 'b': BOOLS}[kind]
    vals = [src[(i + offset) % len(src)] for i in range(n)]
    a = np.array(vals)
    return a.reshape(shape)


@chk.clause('value')
def value(case):
    restore_default()
    try:
        return _value(case)
    finally:
        restore_default()


def _value(case):
    kind, unit = VKINDS[case['kind']]
    shape = VSHAPES[case['shape']]
    enc = ENCODINGS[case['enc']]
    cont = CONTAINERS[case['cont']]
    witherr = case['err']
    W, R = case['W'], case['R']
    sfx = ':%s@%s' % (enc.split('-')[0], cross(case))
    fails = []
    phys = menu_array(kind, shape)
    ephys = np.abs(menu_array(kind, shape, offset=5)) * 1e-3 if witherr else None
    real_unit = unit not in (None, 'scaled')

    fails += set_config(W)
    fw = F(W, unit) if real_unit else 1
    work = phys * fw if real_unit else phys
    ework = (ephys * fw if real_unit else ephys) if witherr else None
    if cont == 'native':
        arg = work.tolist()
        earg = ework.tolist() if witherr else None
    elif cont == 'ndarray':
        arg, earg = work, ework
    else:
        arg, earg = relayout(work, cont), (relayout(ework, cont) if witherr else None)
        if arg.ndim >= 2 and arg.size > 1 and not arg.flags['C_CONTIGUOUS']:
            chk.note('non-C-contiguous-argument')
    kw = {}
    if unit is not None:
        kw['units'] = unit
    if witherr:
        kw['error'] = earg
    ok, m = staged('write', lambda: uc.model(arg, **kw), fails, sfx)
    if not ok:
        return fails
    # what was stored: the physical value in the requested unit (raw numbers for None / scaled)
    st = []
    if m.get('unit', None) != unit:
        st.append(Fail(key='stored-unit', msg='unit field %r for requested %r' % (m.get('unit', None), unit)))
    stored = np.asarray(m['value'])
    if stored.size != phys.size:
        st.append(Fail(key='stored-size', msg='%d values stored for shape %s' % (stored.size, shape)))
    elif len(shape) >= 2 and list(m.get('shape', [])) != list(shape):
        st.append(Fail(key='stored-shape', msg='shape field %r for array of shape %s' % (m.get('shape', None), shape)))
    else:
        compare('stored', stored.reshape(shape), phys.astype(float) if real_unit else phys, not real_unit, st,
                kind='f' if real_unit else None)
    if st:
        return fails + suffix(st, sfx)
    ok, payload = staged('encode', lambda: encode(DM([('quantity', m)]), enc), fails, sfx)
    if not ok:
        return fails

    fails += set_config(R)
    ok, term = staged('decode', lambda: DM(payload)['quantity'], fails, sfx)
    if not ok:
        return fails
    ok, got = staged('read', lambda: uc.value_unit(term), fails, sfx)
    if not ok:
        return fails
    fr = F(R, unit) if real_unit else 1
    collapsed = (shape == (1,))
    out = []
    compare('value', got, phys * fr if real_unit else phys, not real_unit, out, kind='f' if real_unit else None,
            collapse_ok=enc.startswith('xml') and collapsed)
    if witherr:
        ok, egot = staged('read-error', lambda: uc.error_unit(term), fails, sfx)
        if ok:
            compare('error', egot, ephys * fr if real_unit else ephys, not real_unit, out, kind='f',
                    collapse_ok=enc.startswith('xml') and collapsed)
    note_case(case, enc, collapsed=int(np.prod(shape)) == 1 and len(shape) >= 1)
    return fails + suffix(out, sfx)


# --------------------------------------------------------------------------------------------
# (b) Box

def _rot(axis, deg):
    axis = np.asarray(axis, float) / np.linalg.norm(axis)
    t = np.radians(deg)
    K = np.array([[0, -axis[2], axis[1]], [axis[2], 0, -axis[0]], [-axis[1], axis[0], 0]])
    return np.identity(3) + np.sin(t) * K + (1 - np.cos(t)) * K @ K


def _boxes():
    s = SEED % 8
    tri = np.array([[3.7, 0, 0], [-1.1, 4.1, 0], [0.6, -1.3, 5.9]])
    return [
        ('cubic', 4.05 * np.identity(3), np.zeros(3)),
        ('tilted-origin', np.array([[3.2, 0, 0], [0.7, 4.1, 0], [-0.4, 0.9, 5.3]]), np.array([1.3, -2.7, 0.45])),
        ('rotated-triclinic-origin', tri @ _rot([1, 2, 3], 37.0).T, np.array([-10.5, 0.25, 3.0])),
        ('seed-slice', np.array([[3.0 + 0.37 * s, 0, 0], [0.3 * s - 1.0, 4.3 - 0.21 * s, 0], [0.5, -0.2 * s, 5.2 + 0.13 * s]]),
         np.array([0.1 * s, -0.7, 2.0 + s])),
    ]


BOXES = _boxes()        # angstrom
LENGTH_UNITS = ['<default>', 'nm', None, 'angstrom']
BOX_READERS = ['Box(model=)', 'box.model(model=)']


def compare_box(box2, bi, R, length_unit, W, fails, prefix='box'):
    name, vects, origin = BOXES[bi]
    if length_unit is None:
        # raw storage: the numbers written under W come back unchanged
        fw = F(W, 'angstrom')
        compare(prefix + '-vects-raw', box2.vects, vects * fw, False, fails)
        compare(prefix + '-origin-raw', box2.origin, origin * fw, False, fails)
    else:
        fr = F(R, 'angstrom')
        # scale of a cell: its largest component (the class zeroes |x| < 1e-9 max itself)
        compare(prefix + '-vects', box2.vects, vects * fr, False, fails)
        compare(prefix + '-origin', box2.origin, origin * fr, False, fails)


@chk.clause('box')
def box(case):
    restore_default()
    try:
        return _box(case)
    finally:
        restore_default()


def _box(case):
    name, vects, origin = BOXES[case['box']]
    lu = LENGTH_UNITS[case['lu']]
    enc = ENCODINGS[case['enc']]
    reader = BOX_READERS[case['reader']]
    W, R = case['W'], case['R']
    sfx = ':%s@%s' % (enc.split('-')[0], cross(case))
    fails = []
    fails += set_config(W)
    fw = F(W, 'angstrom')
    b = am.Box(vects=vects * fw, origin=origin * fw)
    kw = {} if lu == '<default>' else {'length_unit': lu}
    ok, m = staged('write', lambda: b.model(**kw), fails, sfx)
    if not ok:
        return fails
    eff = 'angstrom' if lu == '<default>' else lu
    # stored numbers
    st = []
    for key, ref in (('avect', vects[0]), ('bvect', vects[1]), ('cvect', vects[2]), ('origin', origin)):
        t = m['box'][key]
        if t.get('unit', None) != eff:
            st.append(Fail(key='stored-unit', msg='%s unit %r, requested %r' % (key, t.get('unit', None), eff)))
            continue
        exp = ref * fw if eff is None else ref * convert('angstrom', eff)
        compare('stored-' + key, t['value'], exp, False, st)
    if st:
        return fails + suffix(st, sfx)
    ok, payload = staged('encode', lambda: encode(m, enc), fails, sfx)
    if not ok:
        return fails
    fails += set_config(R)
    if reader == 'Box(model=)':
        ok, b2 = staged('read', lambda: am.Box(model=payload), fails, sfx)
    else:
        def rd():
            bb = am.Box()
            bb.model(model=payload)
            return bb
        ok, b2 = staged('read', rd, fails, sfx)
    if not ok:
        return fails
    out = []
    compare_box(b2, case['box'], R, eff, W, out)
    note_case(case, enc)
    return fails + suffix(out, sfx)


# --------------------------------------------------------------------------------------------
# (c)/(d) Atoms and System

# atom sets: (name, atype, relative positions)
REL = np.array([[0.1, 0.25, 0.3], [0.5, 0.75, 0.625], [0.9, -0.2, 1.3], [0.0, 0.5, 1.0], [0.33, 0.66, 0.05]])
ATOMSETS = [('1atom-type1', [1], REL[:1]),
            ('3atoms-types122', [1, 2, 2], REL[:3])]
if THOROUGH:
    ATOMSETS += [('1atom-type2', [2], REL[1:2]),
                 ('2atoms-types21', [2, 1], REL[2:4]),
                 ('5atoms-types13231', [1, 3, 2, 3, 1], REL)]

# per-atom property specs: name -> (kind, per-atom shape, unit of the menu numbers, {unit style: storage unit})
PROPS = {
    'charge': ('f', (), 'e', {'native': 'e', 'alt': 'C'}),
    'itag': ('i', (), None, {}),
    'tag': ('U', (), None, {}),
    'flag': ('b', (), None, {}),
    'velocity': ('f', (3,), 'angstrom/ps', {'native': 'angstrom/ps', 'alt': 'nm/ps'}),
    'disp': ('f', (3,), 'angstrom', {'native': 'angstrom', 'alt': 'scaled'}),     # 'scaled' only through System
    'ivec': ('i', (3,), None, {}),
    'svec': ('U', (2,), None, {}),
    'bvec': ('b', (2,), None, {}),
    'stress': ('f', (3, 3), 'GPa', {'native': 'GPa', 'alt': 'eV/angstrom^3'}),
    'iten': ('i', (2, 2), None, {}),
    'sten': ('U', (2, 2), None, {}),
    'gamma': ('f', (1, 1), 'mJ/m^2', {'native': 'mJ/m^2', 'alt': 'mJ/m^2'}),
    'raw': ('f', (), None, {}),
}
PROPSETS = [
    ('pos-only', []),
    ('rank1', ['charge', 'itag', 'tag', 'flag', 'raw']),
    ('rank2', ['velocity', 'ivec', 'svec', 'disp', 'bvec']),
    ('rank3', ['stress', 'iten', 'sten', 'gamma']),
]
USTYLES = ['native', 'alt', 'none']
APIS = ['prop_unit', 'prop_name+unit']
POSUNITS = ['angstrom', 'nm', 'scaled', None]
POSUNITS_ATOMS = ['angstrom', 'nm', None]

PBCS = [(True, True, True), (True, False, True)] + ([(False, False, False), (False, True, False)] if THOROUGH else [])

# symbols / masses per number of atom types (masses are raw numbers: the model stores them without unit)
SYMS = ['Al', 'Cu', 'Ni']
MASS = [26.9815385, 63.546, 58.6934]


def symmass(i, ntypes):
    full_s, full_m = SYMS[:ntypes], MASS[:ntypes]
    if i == 0:      # nothing given
        return None, None
    if i == 1:      # all given
        return list(full_s), list(full_m)
    if i == 2:      # first symbol only, first mass missing
        return [full_s[0]] + [None] * (ntypes - 1), [None] + full_m[1:] if ntypes > 1 else [None]
    if i == 3:      # first symbol missing, last mass missing
        return [None] + full_s[1:], full_m[:-1] + [None] if ntypes > 1 else list(full_m)
    if i == 4:      # symbols only
        return list(full_s), None
    raise ValueError(i)


NSYMMASS = 5
BOX_UNITS = ['<default>', 'nm'] + (['angstrom'] if THOROUGH else [])
SYS_BOXES = [1, 2] + ([0, 3] if THOROUGH else [])
ROUTES = ['model-dm', 'model-json', 'model-xml', 'dump-dm', 'dump-xml', 'dump-path-json']
if THOROUGH:
    ROUTES += ['dump-json', 'dump-path-xml', 'dump-filelike-xml', 'dump-json-indent', 'dump-xml-indent', 'dump-filelike-json']


def phys_props(aset, pset, bi):
    """physical menu numbers of every per-atom property (positions in angstrom, Cartesian)"""
    _, atype, rel = ATOMSETS[aset]
    _, vects, origin = BOXES[bi]
    n = len(atype)
    out = {'atype': np.array(atype), 'pos': rel @ vects + origin}
    for k, name in enumerate(PROPSETS[pset][1]):
        kind, shp, unit, _ = PROPS[name]
        out[name] = menu_array(kind, (n,) + shp, offset=3 * k + 1)
    return out


def working_props(phys, cfg, layout=None):
    """layout 'ndarray-F' / 'ndarray-T': every per-atom array of rank >= 2 is handed over in that memory layout"""
    out = {}
    for name, a in phys.items():
        unit = 'angstrom' if name == 'pos' else (PROPS[name][2] if name in PROPS else None)
        out[name] = a * F(cfg, unit) if unit is not None else a.copy()
        if layout is not None:
            out[name] = relayout(out[name], layout)
    return out


LAYOUTS = [None, 'ndarray-F', 'ndarray-T']


def note_layout(obj):
    if any(obj.view[k].ndim >= 2 and obj.view[k].size > 1 and not obj.view[k].flags['C_CONTIGUOUS'] for k in obj.prop()):
        chk.note('non-C-contiguous-argument')


def storage_units(pset, ustyle, posunit, allow_scaled):
    pu = {'atype': None, 'pos': posunit}
    for name in PROPSETS[pset][1]:
        kind, shp, unit, styles = PROPS[name]
        u = None if ustyle == 'none' else styles.get(ustyle, None)
        if u == 'scaled' and not allow_scaled:
            u = 'nm'
        pu[name] = u
    return pu


def call_kwargs(pu, api):
    if api == 'prop_unit':
        return {'prop_unit': dict(pu)}
    if api == 'prop_name+unit':
        return {'prop_name': list(pu), 'unit': [pu[k] for k in pu]}
    return {}


def check_stored_atoms(amodel, phys, pu, W, bi, fails):
    """the numbers written: physical value in the requested unit, relative coordinates for 'scaled', raw for None"""
    names = [p['name'] for p in amodel.aslist('property')]
    if sorted(names) != sorted(pu):
        fails.append(Fail(key='stored-property-names', msg='properties written %r, requested %r' % (names, list(pu))))
        return
    if amodel['natoms'] != len(phys['atype']):
        fails.append(Fail(key='stored-natoms', msg='natoms %r' % (amodel['natoms'],)))
    _, vects, origin = BOXES[bi]
    for p in amodel.aslist('property'):
        name = p['name']
        u = pu[name]
        if name == 'pos' and u is None:
            u = 'angstrom'
        d = p['data']
        if d.get('unit', None) != u:
            fails.append(Fail(key='stored-unit', msg='%s stored with unit %r, requested %r' % (name, d.get('unit', None), u)))
            continue
        a = phys[name]
        inunit = 'angstrom' if name == 'pos' else (PROPS[name][2] if name in PROPS else None)
        if u is None:
            exp, exact = (a * F(W, inunit) if inunit is not None else a), inunit is None
        elif u == 'scaled':
            exp, exact = np.linalg.solve(vects.T, (a - origin).T).T, False
        else:
            exp, exact = a * convert(inunit, u), False
        st = np.asarray(d['value'])
        if st.size != exp.size:
            fails.append(Fail(key='stored-size', msg='%s: %d values stored for shape %s' % (name, st.size, exp.shape)))
            continue
        if exp.ndim >= 2 and list(d.get('shape', [])) != list(exp.shape):
            fails.append(Fail(key='stored-shape', msg='%s: shape field %r for array of shape %s' % (name, d.get('shape', None), exp.shape)))
            continue
        if u == 'scaled':
            # compare on the scale of 1 (relative coordinates), not of the largest coordinate
            err = np.abs(st.reshape(exp.shape) - exp).max()
            if not err <= RTOL * max(1.0, np.abs(exp).max()):
                fails.append(Fail(key='stored-' + name + '-value', msg='%s: stored box-relative coordinates differ by %.3g' % (name, err),
                                  expected=exp, observed=st))
        else:
            compare('stored-' + name, st.reshape(exp.shape), exp, exact, fails, kind='f' if not exact else None)


def compare_atoms(atoms2, phys, pu, W, R, fails):
    names = atoms2.prop()
    if sorted(names) != sorted(pu):
        fails.append(Fail(key='property-names', msg='properties read %r, written %r' % (names, list(pu))))
        return
    if atoms2.natoms != len(phys['atype']):
        fails.append(Fail(key='natoms', msg='natoms %r, expected %d' % (atoms2.natoms, len(phys['atype']))))
        return
    for name in pu:
        u = pu[name]
        if name == 'pos' and u is None:
            u = 'angstrom'
        a = phys[name]
        inunit = 'angstrom' if name == 'pos' else (PROPS[name][2] if name in PROPS else None)
        got = atoms2.view[name]
        if u is None:
            # raw: the working numbers of the writing configuration
            if inunit is None:
                compare(name, got, a, True, fails)
            else:
                compare(name + '-raw', got, a * F(W, inunit), False, fails, kind='f')
        else:
            compare(name, got, a * F(R, inunit), False, fails, kind='f')


@chk.clause('atoms')
def atoms(case):
    restore_default()
    try:
        return _atoms(case)
    finally:
        restore_default()


def _atoms(case):
    aset, pset, bi = case['atoms'], case['props'], 1
    enc = ENCODINGS[case['enc']]
    W, R = case['W'], case['R']
    sfx = ':%s@%s' % (enc.split('-')[0], cross(case))
    fails = []
    phys = phys_props(aset, pset, bi)
    fails += set_config(W)
    a = am.Atoms(**working_props(phys, W, LAYOUTS[case.get('layout', 0)]))
    note_layout(a)
    if case['ustyle'] == 'default':
        pu = storage_units(pset, 'none', None, False)
        kw = {}
    else:
        pu = storage_units(pset, USTYLES[case['ustyle']], POSUNITS_ATOMS[case['posunit']], False)
        kw = call_kwargs(pu, APIS[case['api']])
    ok, m = staged('write', lambda: a.model(**kw), fails, sfx)
    if not ok:
        return fails
    st = []
    check_stored_atoms(m['atoms'], phys, pu, W, bi, st)
    if st:
        return fails + suffix(st, sfx)
    ok, payload = staged('encode', lambda: encode(m, enc), fails, sfx)
    if not ok:
        return fails
    fails += set_config(R)
    ok, a2 = staged('read', lambda: am.Atoms(model=payload), fails, sfx)
    if not ok:
        return fails
    out = []
    compare_atoms(a2, phys, pu, W, R, out)
    note_case(case, enc, collapsed=len(phys['atype']) == 1)
    return fails + suffix(out, sfx)


@chk.clause('system')
def system(case):
    restore_default()
    try:
        return _system(case)
    finally:
        restore_default()


def _system(case):
    aset, pset, bi = case['atoms'], case['props'], SYS_BOXES[case['box']]
    route = ROUTES[case['route']]
    W, R = case['W'], case['R']
    enc = route.split('-', 1)[1]
    sfx = ':%s@%s' % (route, cross(case))
    fails = []
    phys = phys_props(aset, pset, bi)
    ntypes = int(max(phys['atype']))
    symbols, masses = symmass(case['symmass'], ntypes)
    pbc = PBCS[case['pbc']]
    _, vects, origin = BOXES[bi]

    fails += set_config(W)
    fw = F(W, 'angstrom')
    if case.get('hist'):
        # the same system reached through a history on ONE live System: built in a cubic box, scaled coordinates read
        # (whatever the Box caches is now populated), then the box replaced in place by the target cell with scale=True
        wp = working_props(phys, W)
        _, atype_, rel_ = ATOMSETS[aset]
        cub = 4.05 * fw * np.identity(3)
        wp['pos'] = np.asarray(rel_, float) @ cub
        s = am.System(atoms=am.Atoms(**wp), box=am.Box(vects=cub), pbc=pbc, symbols=symbols, masses=masses)
        s.atoms_prop(key='pos', scale=True)
        s.box_set(vects=vects * fw, origin=origin * fw, scale=True)
    else:
        s = am.System(atoms=am.Atoms(**working_props(phys, W, LAYOUTS[case.get('layout', 0)])),
                      box=am.Box(vects=vects * fw, origin=origin * fw), pbc=pbc, symbols=symbols, masses=masses)
        note_layout(s.atoms)
    bu = BOX_UNITS[case['box_unit']]
    kw = {} if bu == '<default>' else {'box_unit': bu}
    effbu = 'angstrom' if bu == '<default>' else bu
    if case['ustyle'] == 'default':
        pu = storage_units(pset, 'none', None, True)
    else:
        pu = storage_units(pset, USTYLES[case['ustyle']], POSUNITS[case['posunit']], True)
        kw.update(call_kwargs(pu, APIS[case['api']]))

    tmp = None
    try:
        if route.startswith('model-'):
            ok, m = staged('write', lambda: s.model(**kw), fails, sfx)
            if not ok:
                return fails
            st = []
            check_stored_system(m, phys, pu, W, bi, effbu, pbc, symbols, masses, ntypes, st)
            if st:
                return fails + suffix(st, sfx)
            ok, payload = staged('encode', lambda: encode(m, enc), fails, sfx)
            if not ok:
                return fails
            fails += set_config(R)
            ok, s2 = staged('read', lambda: am.System(model=payload), fails, sfx)
        else:
            if enc == 'dm':
                ok, payload = staged('write', lambda: s.dump('system_model', **kw), fails, sfx)
                if ok and not isinstance(payload, DM):
                    fails.append(Fail(key='dump-return-type' + sfx, msg='dump without format returned %s' % type(payload).__name__))
            elif enc in ('json', 'xml'):
                ok, payload = staged('write', lambda: s.dump('system_model', format=enc, **kw), fails, sfx)
            elif enc in ('json-indent', 'xml-indent'):
                ok, payload = staged('write', lambda: s.dump('system_model', format=enc.split('-')[0], indent=2, **kw), fails, sfx)
            elif enc in ('path-json', 'path-xml'):
                tmp = tempfile.TemporaryDirectory(prefix='c10_')
                payload = os.path.join(tmp.name, 'system.' + enc.split('-')[1])
                ok, _ = staged('write', lambda: s.dump('system_model', f=payload, **kw), fails, sfx)
            elif enc in ('filelike-xml', 'filelike-json'):
                fp = io.StringIO()
                ok, _ = staged('write', lambda: s.dump('system_model', f=fp, format=enc.split('-')[1], **kw), fails, sfx)
                payload = fp.getvalue()
            else:
                raise ValueError(route)
            if not ok:
                return fails
            if enc != 'dm' and not isinstance(payload, str):
                fails.append(Fail(key='dump-return-type' + sfx, msg='dump returned %s' % type(payload).__name__))
                return fails
            # what dump wrote (decoded with DataModelDict only): requested units honoured, content complete
            ok, m = staged('decode', lambda: DM(payload), fails, sfx)
            if not ok:
                return fails
            st = []
            check_stored_system(m, phys, pu, W, bi, effbu, pbc, symbols, masses, ntypes, st)
            if st:
                return fails + suffix(st, sfx)
            fails += set_config(R)
            ok, s2 = staged('read', lambda: am.load('system_model', payload), fails, sfx)
        if not ok:
            return fails
    finally:
        if tmp is not None:
            tmp.cleanup()

    out = []
    compare_box(s2.box, bi, R, effbu, W, out)
    compare_atoms(s2.atoms, phys, pu, W, R, out)
    if tuple(bool(x) for x in s2.pbc) != tuple(pbc) or np.asarray(s2.pbc).dtype.kind != 'b':
        out.append(Fail(key='pbc', msg='pbc %r read back as %r' % (pbc, s2.pbc)))
    esym = tuple(symbols) if symbols is not None else (None,) * ntypes
    emass = tuple(masses) if masses is not None else (None,) * ntypes
    if tuple(s2.symbols) != esym:
        out.append(Fail(key='symbols', msg='symbols %r read back as %r' % (esym, s2.symbols)))
    if tuple(s2.masses) != emass:
        out.append(Fail(key='masses', msg='masses %r read back as %r' % (emass, s2.masses)))
    if s2.natypes != ntypes:
        out.append(Fail(key='natypes', msg='natypes %r, expected %d' % (s2.natypes, ntypes)))
    xmlish = 'xml' in enc
    note_case(case, 'xml' if xmlish else enc, collapsed=len(phys['atype']) == 1 or ntypes == 1)
    return fails + suffix(out, sfx)


def check_stored_system(m, phys, pu, W, bi, effbu, pbc, symbols, masses, ntypes, fails):
    root = m['atomic-system']
    _, vects, origin = BOXES[bi]
    for key, ref in (('avect', vects[0]), ('bvect', vects[1]), ('cvect', vects[2]), ('origin', origin)):
        t = root['box'][key]
        if t.get('unit', None) != effbu:
            fails.append(Fail(key='stored-box-unit', msg='box %s stored with unit %r; requested/documented %r' % (key, t.get('unit', None), effbu)))
            return
        compare('stored-box-' + key, t['value'], ref * convert('angstrom', effbu), False, fails)
    if list(root['periodic-boundary-condition']) != list(pbc):
        fails.append(Fail(key='stored-pbc', msg='pbc stored %r' % (root['periodic-boundary-condition'],)))
    esym = list(symbols) if symbols is not None else [None] * ntypes
    if root.aslist('atom-type-symbol') != esym:
        fails.append(Fail(key='stored-symbols', msg='symbols stored %r, expected %r' % (root.aslist('atom-type-symbol'), esym)))
    emass = list(masses) if masses is not None and any(x is not None for x in masses) else []
    if root.aslist('atom-type-mass') != emass:
        fails.append(Fail(key='stored-masses', msg='masses stored %r, expected %r' % (root.aslist('atom-type-mass'), emass)))
    check_stored_atoms(root['atoms'], phys, pu, W, bi, fails)


# --------------------------------------------------------------------------------------------
# (e) ElasticConstants

def _ecs():
    """(crystal_system, 6x6 Voigt matrix in GPa with exactly that symmetry)"""
    out = []
    lam, mu = 60.0, 26.5
    c = np.zeros((6, 6))
    c[:3, :3] = lam
    c[[0, 1, 2], [0, 1, 2]] = lam + 2 * mu
    c[[3, 4, 5], [3, 4, 5]] = mu
    out.append(('isotropic', c))
    c11, c12, c44 = 169.0, 122.0, 75.3
    c = np.zeros((6, 6))
    c[:3, :3] = c12
    c[[0, 1, 2], [0, 1, 2]] = c11
    c[[3, 4, 5], [3, 4, 5]] = c44
    out.append(('cubic', c))
    c11, c12, c13, c33, c44 = 160.0, 90.0, 66.0, 181.5, 46.5
    c66 = (c11 - c12) / 2
    hexa = np.array([[c11, c12, c13, 0, 0, 0], [c12, c11, c13, 0, 0, 0], [c13, c13, c33, 0, 0, 0],
                     [0, 0, 0, c44, 0, 0], [0, 0, 0, 0, c44, 0], [0, 0, 0, 0, 0, c66]], float)
    out.append(('hexagonal', hexa))
    c16, c66t = 7.25, 53.0
    out.append(('tetragonal', np.array([[c11, c12, c13, 0, 0, c16], [c12, c11, c13, 0, 0, -c16], [c13, c13, c33, 0, 0, 0],
                                        [0, 0, 0, c44, 0, 0], [0, 0, 0, 0, c44, 0], [c16, -c16, 0, 0, 0, c66t]], float)))
    c14, c15 = 12.5, -3.75
    out.append(('rhombohedral', np.array([[c11, c12, c13, c14, c15, 0], [c12, c11, c13, -c14, -c15, 0], [c13, c13, c33, 0, 0, 0],
                                          [c14, -c14, 0, c44, 0, -c15], [c15, -c15, 0, 0, c44, c14], [0, 0, 0, -c15, c14, c66]], float)))
    out.append(('orthorhombic', np.array([[231.0, 87.0, 52.5, 0, 0, 0], [87.0, 197.0, 71.0, 0, 0, 0], [52.5, 71.0, 254.0, 0, 0, 0],
                                          [0, 0, 0, 81.0, 0, 0], [0, 0, 0, 0, 42.25, 0], [0, 0, 0, 0, 0, 66.0]], float)))
    # general triclinic: 21 independent numbers, diagonally dominant
    t = np.zeros((6, 6))
    k = 0
    for i in range(6):
        for j in range(i, 6):
            t[i, j] = t[j, i] = (150.0 + 11.5 * i) if i == j else (FLOATS[k % len(FLOATS)] % 17.0) - 6.0 + 0.5 * k
            k += 1
    # a small but physical coupling term (0.05 GPa next to ~150 GPa: 3e-4 of the largest constant)
    t[3, 5] = t[5, 3] = 0.05
    out.append(('triclinic', t))
    out.append(('<default>', t + np.diag([1.5, 0, 0, 2.25, 0, 0])))
    return out


ECS = _ecs()
EC_UNITS = [None, 'GPa', 'eV/angstrom^3']
EC_READERS = ['ElasticConstants(model=)', 'ec.model(model=)']


@chk.clause('elastic')
def elastic(case):
    restore_default()
    try:
        return _elastic(case)
    finally:
        restore_default()


def _elastic(case):
    cs, cij = ECS[case['ec']]
    unit = EC_UNITS[case['unit']]
    enc = ENCODINGS[case['enc']]
    W, R = case['W'], case['R']
    sfx = ':%s@%s' % (enc.split('-')[0], cross(case))
    fails = []
    fails += set_config(W)
    fw = F(W, 'GPa')
    ec = am.ElasticConstants(Cij=cij * fw)
    kw = {}
    if unit is not None:
        kw['unit'] = unit
    if cs != '<default>':
        kw['crystal_system'] = cs
    ok, m = staged('write', lambda: ec.model(**kw), fails, sfx)
    if not ok:
        return fails
    t = m['elastic-constants']['Cij']
    st = []
    if t.get('unit', None) != unit:
        st.append(Fail(key='stored-unit', msg='Cij stored with unit %r, requested %r' % (t.get('unit', None), unit)))
    stored = np.asarray(t['value'])
    if stored.size != 36 or list(t.get('shape', [])) != [6, 6]:
        st.append(Fail(key='stored-shape', msg='Cij stored with %d values, shape field %r' % (stored.size, t.get('shape', None))))
    else:
        exp = cij * fw if unit is None else cij * convert('GPa', unit)
        err = np.abs(stored.reshape(6, 6) - exp).max()
        if not err <= 1e-10 * np.abs(exp).max():
            st.append(Fail(key='stored-value', msg='Cij stored differs from the constants in the requested unit by %.3g (scale %.3g)'
                           % (err, np.abs(exp).max()), expected=exp, observed=stored))
    if st:
        return fails + suffix(st, sfx)
    ok, payload = staged('encode', lambda: encode(m, enc), fails, sfx)
    if not ok:
        return fails
    fails += set_config(R)
    if EC_READERS[case['reader']] == 'ElasticConstants(model=)':
        ok, ec2 = staged('read', lambda: am.ElasticConstants(model=payload), fails, sfx)
    else:
        def rd():
            e = am.ElasticConstants()
            e.model(model=payload)
            return e
        ok, ec2 = staged('read', rd, fails, sfx)
    if not ok:
        return fails
    got = np.asarray(ec2.Cij)
    exp = cij * fw if unit is None else cij * F(R, 'GPa')
    out = []
    if got.shape != (6, 6):
        out.append(Fail(key='Cij-shape', msg='Cij shape %s' % (got.shape,)))
    else:
        err = np.abs(got - exp).max()
        if not err <= 1e-10 * np.abs(exp).max():
            out.append(Fail(key='Cij-value' if unit is not None else 'Cij-raw-value',
                            msg='Cij read back differs by %.3g (scale %.3g)' % (err, np.abs(exp).max()), expected=exp, observed=got))
    note_case(case, enc)
    return fails + suffix(out, sfx)


# --------------------------------------------------------------------------------------------
# enumeration

def gen():
    ne = len(ENCODINGS)
    for (W, R) in CFGPAIRS:
        # (a) values
        for ki, (kind, unit) in enumerate(VKINDS):
            for si in range(len(VSHAPES)):
                for ci in range(len(CONTAINERS)):
                    if ci >= 2 and len(VSHAPES[si]) < 2:
                        continue
                    for err in ((0, 1) if kind == 'f' else (0,)):
                        for e in range(ne):
                            yield 'value', {'kind': ki, 'shape': si, 'cont': ci, 'err': err, 'enc': e, 'W': W, 'R': R}
        # (b) boxes
        for bi in range(len(BOXES)):
            for lu in range(len(LENGTH_UNITS)):
                for rd in range(len(BOX_READERS)):
                    for e in range(ne):
                        yield 'box', {'box': bi, 'lu': lu, 'reader': rd, 'enc': e, 'W': W, 'R': R}
        # (e) elastic constants
        for ei in range(len(ECS)):
            for ui in range(len(EC_UNITS)):
                for rd in range(len(EC_READERS)):
                    for e in range(ne):
                        yield 'elastic', {'ec': ei, 'unit': ui, 'reader': rd, 'enc': e, 'W': W, 'R': R}
        # (c) atoms
        for ai in range(len(ATOMSETS)):
            for pi in range(len(PROPSETS)):
                for e in range(ne):
                    yield 'atoms', {'atoms': ai, 'props': pi, 'ustyle': 'default', 'enc': e, 'W': W, 'R': R}
                    if len(ATOMSETS[ai][1]) > 1:
                        for lay in (1, 2):
                            yield 'atoms', {'atoms': ai, 'props': pi, 'ustyle': 'default', 'enc': e, 'W': W, 'R': R, 'layout': lay}
                            yield 'atoms', {'atoms': ai, 'props': pi, 'ustyle': 1, 'posunit': 1, 'api': 0, 'enc': e, 'W': W, 'R': R,
                                            'layout': lay}
                    for us in range(len(USTYLES)):
                        for pu in range(len(POSUNITS_ATOMS)):
                            for api in range(len(APIS)):
                                yield 'atoms', {'atoms': ai, 'props': pi, 'ustyle': us, 'posunit': pu, 'api': api, 'enc': e, 'W': W, 'R': R}
        # (d) systems, slice 1 (content): atoms x symbols/masses x box x pbc x property set x route, default units
        for ai in range(len(ATOMSETS)):
            for sm in range(NSYMMASS):
                for bi in range(len(SYS_BOXES)):
                    for pb in range(len(PBCS)):
                        for pi in range(len(PROPSETS)):
                            for rt in range(len(ROUTES)):
                                yield 'system', {'atoms': ai, 'symmass': sm, 'box': bi, 'pbc': pb, 'box_unit': 0, 'props': pi,
                                                 'route': rt, 'ustyle': 'default', 'W': W, 'R': R}
                                if sm == 1 and pb == 0 and len(ATOMSETS[ai][1]) > 1:
                                    # ... with the per-atom arrays held in Fortran order / as transposed views; raw and
                                    # with 'scaled' positions
                                    for lay in (1, 2):
                                        yield 'system', {'atoms': ai, 'symmass': sm, 'box': bi, 'pbc': pb, 'box_unit': 0, 'props': pi,
                                                         'route': rt, 'ustyle': 'default', 'W': W, 'R': R, 'layout': lay}
                                        yield 'system', {'atoms': ai, 'symmass': sm, 'box': bi, 'pbc': pb, 'box_unit': 0, 'props': pi,
                                                         'route': rt, 'ustyle': 0, 'posunit': 2, 'api': 0, 'W': W, 'R': R, 'layout': lay}
        # (d) systems, slice 2 (units): atoms x box x box_unit x property set x unit style x pos unit x api x route
        # (thorough: the first 4 atom sets, 3 boxes and 9 routes of the larger thorough menus)
        for ai in range(min(len(ATOMSETS), 4)):
            for bi in range(min(len(SYS_BOXES), 3)):
                for bu in range(len(BOX_UNITS)):
                    for pi in range(1, len(PROPSETS)):
                        for us in range(len(USTYLES)):
                            for pu in range(len(POSUNITS)):
                                for api in range(len(APIS)):
                                    for rt in range(min(len(ROUTES), 9)):
                                        yield 'system', {'atoms': ai, 'symmass': 1, 'box': bi, 'pbc': 1, 'box_unit': bu, 'props': pi,
                                                         'route': rt, 'ustyle': us, 'posunit': pu, 'api': api, 'W': W, 'R': R}
                                        if POSUNITS[pu] == 'scaled' and api == 0 and bu == 0:
                                            # ... and reached through a history on one live System (box replaced in place)
                                            yield 'system', {'atoms': ai, 'symmass': 1, 'box': bi, 'pbc': 1, 'box_unit': bu, 'props': pi,
                                                             'route': rt, 'ustyle': us, 'posunit': pu, 'api': api, 'W': W, 'R': R, 'hist': 1}


if __name__ == '__main__':
    chk.run_cases(gen(), batch=64)
    cov = {'distinct_nontrivial': chk.notes.get('nontrivial', 0),
           'configuration_pairs': len(CFGPAIRS)}
    sys.exit(chk.finish(cov))
