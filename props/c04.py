"""C04 - supercells and re-oriented cells contain the same infinite crystal.

Bounded-exhaustive enumeration:
  supersize : unit cells x all 7^3 multiplier tuples from {-2,-1,1,2,(-1,1),(-2,1),(0,2)} (+ refusals)
  rotate    : unit cells x EVERY 3x3 matrix over {-1,0,1} (singular ones must be refused),
              thorough: rows from the 32 integer vectors with |r|^2 <= 4 (all cells) and the 56 with |r|^2 <= 5
              (three cells), |det| <= 8
  rotate-hex: hexagonal cells x every triple of Miller-Bravais rows [u v t w], u,v,w in {-1,0,1}, t=-(u+v)
  centering : every setting p,a,b,c,i,f,t1,t2,t with every compatible crystal family,
              conventional_to_primitive -> primitive_to_conventional -> conventional_to_primitive

Oracle (written from the definition of "same infinite crystal", never calling the code under test):
result lattice = integer matrix U times the original lattice (rotated by the returned proper rotation T),
every result atom maps through T^-1, modulo the ORIGINAL lattice, onto exactly one original atom with equal
type / property values, every original atom is hit exactly |det U| times and the lattice translations of
the atoms hitting one original atom are pairwise distinct modulo the super-lattice (exact integer arithmetic:
a complete set of coset representatives), no two result atoms closer than 1e-6 (periodic).
"""
import itertools
import sys

import numpy as np

from mc.common import Check, Fail, SEED, THOROUGH, assert_overlay
from props.c01 import chol_from_params, rot

am = assert_overlay()

chk = Check('C04', 'exploration',
            'full products: unit-cell menu x all 343 supersize multiplier tuples; unit-cell menu x all 19683 3x3 matrices '
            'over {-1,0,1} through System.rotate (9651 singular ones must be refused, 10032 checked); hexagonal cells x all '
            'triples of Miller-Bravais rows; every centering setting x every compatible crystal family through '
            'conventional_to_primitive / primitive_to_conventional; a case is one call; non-trivial = the call returned '
            'a cell with replication count > 1 or a non-identity rotation and the full crystal-equality oracle ran on it')
chk.assumptions = ['positions compared to 1e-8 x longest result cell vector; "inside" to 1e-9 relative; coincidence threshold 1e-6',
                   'relative coordinates of the menu atoms are multiples of 1/100, 1/24 or 1/3 so that with |det| <= 8 no atom '
                   'lies within 2e-4 (relative) of a face of the new cell without lying exactly on it (the tolerance ladder '
                   'of rotate starts at 1e-4+1e-5)',
                   'rotate is also run on other presentations of the crystal: rotated in space, face atoms on the far faces, a generic '
                   'box origin, and on a cell with an atom 4e-6 below a face (inside the tolerance ladder of rotate)']

TOL_REL = 1e-8      # positions: 1e-8 * cell size
TOL_IN = 1e-9       # inside, relative coordinates
TOL_COINCIDE = 1e-6


# ---------------------------------------------------------------------------------------------------
# unit-cell menu (independent of atomman: plain arrays)

def ucell(name, vects, rel, atype, symbols, origin=(0.0, 0.0, 0.0)):
    rel = np.array(rel, float)
    n = len(rel)
    atype = np.array(atype, int)
    i = np.arange(n)
    return dict(name=name, vects=np.array(vects, float), origin=np.array(origin, float), rel=rel, atype=atype,
                symbols=tuple(symbols),
                ip=(10 * i + 3 * atype + 7).astype(int),                      # int per-atom property
                fv=np.stack([i + 0.5, -0.25 * i - 1.0, 1.0 / (i + 1.0)], axis=1))  # float (3,) per-atom property


def _ucells():
    T3 = 1.0 / 3.0
    c = []
    c.append(ucell('fcc', chol_from_params(4.05, 4.05, 4.05, 90, 90, 90),
                   [[0, 0, 0], [0.5, 0.5, 0], [0.5, 0, 0.5], [0, 0.5, 0.5]], [1, 1, 1, 1], ['Al']))
    c.append(ucell('triclinic-3at-faces', chol_from_params(3.7, 4.1, 5.9, 81, 97, 112),
                   [[0, 0.5, 0.25], [0.5, 0, 0], [0.31, 0.62, 0.77]], [1, 2, 1], ['Al', 'Ni']))
    c.append(ucell('hcp', chol_from_params(3.2, 3.2, 5.1, 90, 90, 120),
                   [[T3, 2 * T3, 0.25], [2 * T3, T3, 0.75]], [1, 1], ['Mg']))
    c.append(ucell('B2', chol_from_params(3.0, 3.0, 3.0, 90, 90, 90),
                   [[0, 0, 0], [0.5, 0.5, 0.5]], [1, 2], ['Ni', 'Al']))
    # --- quick tier uses the four cells above for rotate; everything uses all cells for supersize
    c.append(ucell('sc', chol_from_params(3.3, 3.3, 3.3, 90, 90, 90), [[0, 0, 0]], [1], ['Po']))
    c.append(ucell('tetragonal-2types', chol_from_params(3.1, 3.1, 4.7, 90, 90, 90),
                   [[0, 0, 0], [0.5, 0.5, 0.37]], [1, 2], ['Ti', 'O']))
    c.append(ucell('ortho-C-centred', chol_from_params(3.1, 4.2, 5.3, 90, 90, 90),
                   [[0, 0, 0], [0.5, 0.5, 0], [0, 0.3, 0.25], [0.5, 0.8, 0.25]], [1, 1, 2, 2], ['U', 'O']))
    c.append(ucell('monoclinic', chol_from_params(3.3, 4.4, 5.5, 90, 103, 90),
                   [[0, 0, 0], [0.25, 0.5, 0.13]], [2, 1], ['Zr', 'O']))
    c.append(ucell('rhombohedral-hex-setting', chol_from_params(3.4, 3.4, 8.1, 90, 90, 120),
                   [[0, 0, 0], [2 * T3, T3, T3], [T3, 2 * T3, 2 * T3],
                    [0, 0, 0.24], [2 * T3, T3, T3 + 0.24], [T3, 2 * T3, 2 * T3 + 0.24]], [1, 1, 1, 2, 2, 2], ['Bi', 'Te']))
    c.append(ucell('triclinic-rotated-not-lammps', chol_from_params(3.7, 4.1, 5.9, 81, 97, 112) @ rot([1, 2, 3], 37.0).T,
                   [[0, 0.5, 0.25], [0.5, 0, 0], [0.31, 0.62, 0.77]], [1, 2, 1], ['Al', 'Ni']))
    lh = chol_from_params(3.3, 4.4, 5.5, 90, 103, 90).copy()
    lh[2] *= -1.0
    c.append(ucell('monoclinic-left-handed', lh, [[0, 0, 0], [0.25, 0.5, 0.13]], [2, 1], ['Zr', 'O']))
    s = SEED % 8    # seed slice: one more generic triclinic cell, enumerated completely like the others
    c.append(ucell('seed-slice', chol_from_params(3.0 + 0.37 * s, 4.3 - 0.21 * s, 5.2 + 0.13 * s,
                                                  70 + 3.1 * s, 95 - 2.3 * s, 105 + 1.7 * s),
                   [[0.01 * (7 + 11 * s), 0.5, 0.0], [0.5, 0.01 * (3 + 9 * s), 0.25], [0.62, 0.77, 0.01 * (31 + 5 * s)]],
                   [2, 1, 2], ['Cu', 'Zr']))
    return c


UCELLS = _ucells()
# an atom 4e-6 (relative) below the upper c face: inside rotate()'s own boundary tolerance ladder (1e-4 ... 1e-7), so it is
# rounded onto the face for the selection -- it must still appear exactly once per replica
NEAR_FACE = ucell('tetragonal-near-face', chol_from_params(3.0, 3.0, 4.7, 90, 90, 90),
                  [[0.0, 0.0, 0.0], [0.5, 0.5, 1.0 - 4e-6], [0.31, 0.62, 0.77]], [1, 2, 1], ['Ti', 'O'])
NQUICK_ROT = 4          # rotate, quick tier: the first four cells + the seed slice
HEX_CELLS = [i for i, u in enumerate(UCELLS) if u['name'] in ('hcp', 'rhombohedral-hex-setting')]
GENERIC_ORIGIN = np.array([1.3, -2.7, 0.45])


def make_system(u, origin=None):
    o = u['origin'] if origin is None else origin
    # copies: the menu arrays must never be reachable from the objects under test
    box = am.Box(vects=u['vects'].copy(), origin=np.array(o, float))
    atoms = am.Atoms(atype=u['atype'].copy(), pos=u['rel'].copy(), ip=u['ip'].copy(), fv=u['fv'].copy())
    return am.System(atoms=atoms, box=box, scale=True, symbols=u['symbols'])


class Snap:
    """plain-array copy of everything observable of a System that the property speaks about"""

    def __init__(self, system):
        self.vects = np.array(system.box.vects)
        self.origin = np.array(system.box.origin)
        self.pos = np.array(system.atoms.pos)
        self.natoms = int(system.natoms)
        self.keys = sorted(system.atoms_prop())
        self.props = {k: np.array(system.atoms.view[k]) for k in self.keys if k != 'pos'}
        self.symbols = tuple(system.symbols)
        self.pbc = tuple(bool(x) for x in system.pbc)

    def same(self, other):
        if not (np.array_equal(self.vects, other.vects) and np.array_equal(self.origin, other.origin)
                and np.array_equal(self.pos, other.pos) and self.keys == other.keys and self.symbols == other.symbols
                and self.pbc == other.pbc):
            return False
        return all(self.props[k].dtype == other.props[k].dtype and np.array_equal(self.props[k], other.props[k])
                   for k in self.props)


def adjugate_int(U):
    U = [[int(x) for x in r] for r in U]
    c = lambda a, b, cc, d: a * d - b * cc
    adj = [[c(U[1][1], U[1][2], U[2][1], U[2][2]), -c(U[0][1], U[0][2], U[2][1], U[2][2]), c(U[0][1], U[0][2], U[1][1], U[1][2])],
           [-c(U[1][0], U[1][2], U[2][0], U[2][2]), c(U[0][0], U[0][2], U[2][0], U[2][2]), -c(U[0][0], U[0][2], U[1][0], U[1][2])],
           [c(U[1][0], U[1][1], U[2][0], U[2][1]), -c(U[0][0], U[0][1], U[2][0], U[2][1]), c(U[0][0], U[0][1], U[1][0], U[1][1])]]
    det = U[0][0] * adj[0][0] + U[0][1] * adj[1][0] + U[0][2] * adj[2][0]
    return np.array(adj, dtype=np.int64), int(det)


def proper_rotation(T, fails, tag=''):
    T = np.asarray(T, float)
    if T.shape != (3, 3):
        fails.append(Fail(key=tag + 'transform-shape', msg='returned transform has shape %s' % (T.shape,)))
        return False
    if np.abs(T @ T.T - np.eye(3)).max() > 1e-9 or abs(np.linalg.det(T) - 1.0) > 1e-9:
        fails.append(Fail(key=tag + 'transform-not-proper-rotation', msg='returned transform is not orthonormal with det +1',
                          observed=T, det=float(np.linalg.det(T))))
        return False
    return True


def same_crystal(o, r, T, U, fails, tag='', check_props=True):
    """o: Snap of the original cell, r: Snap of the result, T: rotation with result = T . original,
    U: integer matrix, result lattice rows = U . original lattice rows (then rotated).  Appends Fails."""
    V, V2 = o.vects, r.vects
    size = np.linalg.norm(V2, axis=1).max()
    tol = TOL_REL * size
    adj, det = adjugate_int(U)
    count = abs(det)
    bad = lambda key, msg, **kw: fails.append(Fail(key=tag + key, msg=msg, **kw))
    # lattice of the result = U . lattice of the original, rotated by T
    if np.abs(V2 - (np.asarray(U, float) @ V) @ T.T).max() > tol:
        bad('cell-vectors', 'result cell vectors are not the requested integer combinations of the original ones, '
            'rotated by the returned transform', observed=V2, expected=(np.asarray(U, float) @ V) @ T.T)
        return
    # counts
    if r.natoms != o.natoms * count:
        bad('natoms', 'natoms %d, expected %d x %d' % (r.natoms, o.natoms, count))
    vol_o, vol_r = abs(np.linalg.det(V)), abs(np.linalg.det(V2))
    if abs(vol_r - count * vol_o) > 1e-9 * count * vol_o:
        bad('volume', 'volume %r, expected %d x %r' % (vol_r, count, vol_o))
    if r.natoms == 0:
        return
    # map every result atom back: Cartesian -> original frame -> relative to the original lattice
    q = r.pos @ T                       # rows: T^-1 p = T^T p  ==  p @ T
    sq = (q - o.origin) @ np.linalg.inv(V)
    so = (o.pos - o.origin) @ np.linalg.inv(V)
    d = sq[:, None, :] - so[None, :, :]
    n = np.rint(d)
    dist = np.linalg.norm((d - n) @ V, axis=2)
    match = dist <= tol
    nm = match.sum(axis=1)
    if np.any(nm == 0):
        j = int(np.argmax(nm == 0))
        bad('atom-not-in-crystal', 'a result atom does not map (through the returned rotation, modulo the original lattice) '
            'onto any original atom', atom=j, pos=r.pos[j], nearest=float(dist[j].min()), n_bad=int(np.sum(nm == 0)))
        return
    if np.any(nm > 1):
        bad('atom-ambiguous', 'a result atom maps onto several original atoms')
        return
    which = match.argmax(axis=1)
    # same type and per-atom property values
    if r.keys != o.keys:
        bad('property-names', 'per-atom properties %s, expected %s' % (r.keys, o.keys))
    elif check_props:
        for k in o.props:
            if not np.array_equal(r.props[k], o.props[k][which]):
                jj = int(np.argmax(np.any((r.props[k] != o.props[k][which]).reshape(r.natoms, -1), axis=1)))
                bad('property-' + k, 'per-atom %s of a result atom differs from the original atom it maps onto' % k,
                    atom=jj, observed=r.props[k][jj], expected=o.props[k][which][jj])
    if r.symbols != o.symbols:
        bad('symbols', 'symbols %r, expected %r' % (r.symbols, o.symbols))
    # each original atom equally often
    hits = np.bincount(which, minlength=o.natoms)
    if np.any(hits != count):
        bad('unequal-representation', 'original atoms are represented %s times, expected %d each' % (hits.tolist(), count))
    # the translations of the atoms over one original atom: distinct cosets modulo the super-lattice (exact integers)
    nn = n[np.arange(r.natoms), which].astype(np.int64)
    coset = (nn @ adj) % count if count > 1 else np.zeros_like(nn)
    keys = set()
    for j in range(r.natoms):
        kk = (int(which[j]),) + tuple(int(x) for x in coset[j])
        if kk in keys:
            bad('duplicate-image', 'two result atoms are the same atom of the infinite crystal modulo the new lattice', atom=j)
            break
        keys.add(kk)
    # direct statement: no two result atoms coincide (periodic in the new cell)
    sr = (r.pos - r.origin) @ np.linalg.inv(V2)
    dd = sr[:, None, :] - sr[None, :, :]
    dd -= np.rint(dd)
    dm = np.linalg.norm(dd @ V2, axis=2)
    dm[np.arange(r.natoms), np.arange(r.natoms)] = np.inf
    if dm.min() < TOL_COINCIDE:
        bad('coincident-atoms', 'two result atoms coincide (periodic distance %g)' % dm.min())


def inside_relative(r):
    return (r.pos - r.origin) @ np.linalg.inv(r.vects)


def lammps_norm(v):
    return v[0, 1] == 0 and v[0, 2] == 0 and v[1, 2] == 0 and v[0, 0] > 0 and v[1, 1] > 0 and v[2, 2] > 0


# ---------------------------------------------------------------------------------------------------
# supersize

SIZES = [-2, -1, 1, 2, (-1, 1), (-2, 1), (0, 2)]
BAD_SIZES = [0, (0, 0), (1, 2), (-1, -2), 1.5, (-1, 1.0), (1,), [0, 2], '2', None]


def lohi(s):
    if isinstance(s, tuple):
        return (int(s[0]), int(s[1]))
    s = int(s)
    return (0, s) if s > 0 else (s, 0)


@chk.clause('supersize')
def supersize(case):
    u = UCELLS[case['cell']]
    origin = GENERIC_ORIGIN if case['origin'] else None
    fails = []
    for kc in range(len(SIZES)):
        sizes = [SIZES[case['a']], SIZES[case['b']], SIZES[kc]]
        if case['origin']:      # the same multipliers as numpy integers
            sizes = [tuple(np.int64(x) for x in z) if isinstance(z, tuple) else np.int32(z) for z in sizes]
        system = make_system(u, origin)
        before = Snap(system)
        res = system.supersize(*sizes)
        if not Snap(system).same(before):
            fails.append(Fail(key='input-modified', msg='supersize changed the system it was called on', sizes=sizes))
        r = Snap(res)
        lo = np.array([lohi(s)[0] for s in sizes])
        hi = np.array([lohi(s)[1] for s in sizes])
        mult = hi - lo
        U = np.diag(mult)
        f = []
        same_crystal(before, r, np.eye(3), U, f)
        # documented placement: replication from m to n along each vector
        o_exp = before.origin + lo @ before.vects
        if np.abs(r.origin - o_exp).max() > 1e-12 * (1 + np.abs(o_exp).max() + np.abs(before.vects).max()):
            f.append(Fail(key='origin', msg='origin of the supercell is not origin + m.vects', observed=r.origin, expected=o_exp))
        for x in f:
            x['sizes'] = repr(sizes)
        fails += f
        chk.note('calls')
        if int(np.prod(mult)) > 1:
            chk.note('nontrivial')
        chk.note('result-atoms-mapped', r.natoms)
    return fails


@chk.clause('supersize-refusal')
def supersize_refusal(case):
    u = UCELLS[case['cell']]
    system = make_system(u)
    before = Snap(system)
    sizes = [2, (-1, 1), -2]
    sizes[case['axis']] = BAD_SIZES[case['bad']]
    chk.note('calls')
    try:
        res = system.supersize(*sizes)
    except (TypeError, ValueError):
        chk.note('refusals')
        if not Snap(system).same(before):
            return [Fail(key='input-modified', msg='a refused supersize changed the system')]
        return []
    return [Fail(key='not-refused', msg='supersize accepted multiplier %r and returned %d atoms'
                 % (BAD_SIZES[case['bad']], res.natoms), sizes=repr(sizes))]


# ---------------------------------------------------------------------------------------------------
# rotate

def matrix_of(m):
    return np.array([(m // 3 ** k) % 3 - 1 for k in range(9)], dtype=np.int64).reshape(3, 3)


def _rows56():
    v = [r for r in itertools.product(range(-2, 3), repeat=3) if 0 < r[0] ** 2 + r[1] ** 2 + r[2] ** 2 <= 5]
    v.sort(key=lambda r: (r[0] ** 2 + r[1] ** 2 + r[2] ** 2, r))
    return np.array(v, dtype=np.int64)


ROWS56 = _rows56()                     # 26 vectors over {-1,0,1}, then the 6 of type (2,0,0), then the 24 of type (2,1,0)


def judge_rotate(u, system, before, U, call, fails, tag=''):
    """call() -> (newsystem, T).  U: integer 3x3 the call asks for (already in 3-index form)."""
    adj, det = adjugate_int(U)
    chk.note('calls')
    try:
        res, T = call()
    except ValueError as e:
        if det == 0:
            chk.note('refusals-singular')
            return
        fails.append(Fail(key=tag + 'refused', msg='rotate refused a non-singular integer matrix: %s' % e, uvws=U))
        return
    if det == 0:
        fails.append(Fail(key=tag + 'singular-accepted', msg='rotate returned %d atoms for parallel/planar vectors' % res.natoms,
                          uvws=U))
        return
    if not Snap(system).same(before):
        fails.append(Fail(key=tag + 'input-modified', msg='rotate changed the system it was called on', uvws=U))
    r = Snap(res)
    f = []
    if proper_rotation(T, f, tag):
        # a left-handed set of vectors has its third vector reversed (normalize)
        Ue = np.array(U, dtype=np.int64)
        if np.linalg.det(Ue.astype(float) @ before.vects) < 0:
            Ue[2] *= -1
        same_crystal(before, r, np.asarray(T, float), Ue, f, tag)
        v = r.vects
        if not lammps_norm(v) or not res.box.is_lammps_norm():
            f.append(Fail(key=tag + 'not-lammps-compatible', msg='re-oriented cell is not LAMMPS compatible', observed=v))
        if not np.linalg.det(v) > 0:
            f.append(Fail(key=tag + 'left-handed', msg='re-oriented cell is left-handed'))
        s = inside_relative(r)
        if s.size and (s.min() < -TOL_IN or s.max() > 1 + TOL_IN):
            f.append(Fail(key=tag + 'atom-outside', msg='an atom of the re-oriented cell is outside it',
                          rel_min=float(s.min()), rel_max=float(s.max())))
        if r.pbc != (True, True, True):
            f.append(Fail(key=tag + 'pbc', msg='re-oriented cell is not fully periodic: %r' % (r.pbc,)))
    for x in f:
        x['uvws'] = np.asarray(U).tolist()
    fails += f
    chk.note('rotate-checked')
    chk.note('result-atoms-mapped', r.natoms)
    if abs(det) > 1 or np.abs(np.asarray(T) - np.eye(3)).max() > 1e-6:
        chk.note('nontrivial')


@chk.clause('rotate')
def rotate(case):
    u = NEAR_FACE if case['cell'] == -1 else UCELLS[case['cell']]
    U = matrix_of(case['m']) if 'm' in case else ROWS56[[case['r0'], case['r1'], case['r2']]]
    system = make_system(u)
    pres = case.get('pres', 0)
    if pres:
        # the same crystal presented differently: cell rotated in space (not LAMMPS-normal) and / or face atoms given
        # on the far faces.  rotate() must normalise and wrap whatever vectors it is given -- also
        # the identity set.
        v = np.array(system.box.vects)
        pos = np.array(system.atoms.pos)
        if pres in (1, 3, 5):
            R = rot([1, 2, 3], 37.0)
            v, pos = v @ R.T, pos @ R.T
        if pres in (2, 3):
            # atoms that lie on a low face are presented on the opposite (far) face: relative coordinate exactly 1
            # (atoms ON faces are inside the quantifier; atoms beyond the cell are not -- rotate() documents a cell)
            rel = u['rel'].copy()
            far = (rel == 0.0)
            far[2:] = False
            rel[far] = 1.0
            pos = rel @ v
        org = np.zeros(3)
        if pres in (4, 5):
            # the cell is given with a box origin that is not a lattice point (the crystal is where its atoms are)
            org = GENERIC_ORIGIN.copy()
            pos = pos + org
        system = am.System(atoms=am.Atoms(atype=np.array(system.atoms.atype), pos=pos, ip=np.array(system.atoms.ip), fv=np.array(system.atoms.fv)),
                           box=am.Box(vects=v, origin=org), symbols=system.symbols)
    before = Snap(system)
    fails = []
    form = case.get('form', 0)
    # form 3: whole numbers that come out of a float computation one ulp short in magnitude (1.9999999999999998), as
    # returned e.g. by the primitive <-> conventional index conversions; accepted as integers, so they must act as such
    arg = [U, U.tolist(), U.astype(float), np.nextafter(U.astype(float), 0.0)][form]
    judge_rotate(u, system, before, U, lambda: system.rotate(arg, return_transform=True), fails)
    return fails


@chk.clause('rotate-refusal')
def rotate_refusal(case):
    u = UCELLS[case['cell']]
    system = make_system(u)
    before = Snap(system)
    hexa = case['cell'] in HEX_CELLS
    bad = [('non-integer', [[1, 0.5, 0], [0, 1, 0], [0, 0, 1]], True),
           ('shape-2x3', [[1, 0, 0], [0, 1, 0]], True),
           ('shape-3x2', [[1, 0], [0, 1], [1, 1]], True),
           ('hex-sum-not-zero', [[1, 0, 0, 0], [0, 1, -1, 0], [0, 0, 0, 1]], True),
           ('hex-on-non-hex', [[2, -1, -1, 0], [-1, 2, -1, 0], [0, 0, 0, 1]], not hexa),
           ('parallel', [[1, 1, 0], [2, 2, 0], [0, 0, 1]], True),
           ('planar', [[1, 1, 0], [1, -1, 0], [2, 1, 0]], True),
           ('zero-row', [[0, 0, 0], [0, 1, 0], [0, 0, 1]], True)]
    name, uv, must_refuse = bad[case['bad']]
    if not must_refuse:
        return []
    chk.note('calls')
    try:
        res = system.rotate(uv)
    except ValueError:
        chk.note('refusals')
        if not Snap(system).same(before):
            return [Fail(key='input-modified', msg='a refused rotate changed the system')]
        return []
    return [Fail(key='not-refused-' + name, msg='rotate accepted %s vectors %r' % (name, uv))]


NBAD_ROT = 8

# Miller-Bravais rows [u v t w] with t = -(u+v)
HEXROWS = np.array([[a, b, -(a + b), c] for a, b, c in itertools.product([-1, 0, 1], repeat=3) if (a, b, c) != (0, 0, 0)],
                   dtype=np.int64)


def hex4to3(r4):
    """independent conversion: [u v t w] = u a1 + v a2 + t a3 + w c with a3 = -(a1+a2)  ->  (u-t) a1 + (v-t) a2 + w c"""
    r4 = np.asarray(r4)
    return np.stack([r4[:, 0] - r4[:, 2], r4[:, 1] - r4[:, 2], r4[:, 3]], axis=1).astype(np.int64)


@chk.clause('rotate-hex')
def rotate_hex(case):
    u = UCELLS[case['cell']]
    fails = []
    U4 = HEXROWS[[case['r0'], case['r1'], case['r2']]]
    U = hex4to3(U4)
    system = make_system(u)
    before = Snap(system)
    arg = U4 if case['r2'] % 2 else U4.tolist()
    judge_rotate(u, system, before, U, lambda: system.rotate(arg, return_transform=True), fails, tag='hex-')
    for x in fails:
        x['uvtws'] = U4.tolist()
    return fails


# ---------------------------------------------------------------------------------------------------
# centering: conventional <-> primitive

CENTER = {'p': [[0, 0, 0]],
          'a': [[0, 0, 0], [0, .5, .5]], 'b': [[0, 0, 0], [.5, 0, .5]], 'c': [[0, 0, 0], [.5, .5, 0]],
          'i': [[0, 0, 0], [.5, .5, .5]],
          'f': [[0, 0, 0], [.5, .5, 0], [.5, 0, .5], [0, .5, .5]],
          't1': [[0, 0, 0], [2 / 3, 1 / 3, 1 / 3], [1 / 3, 2 / 3, 2 / 3]],
          't2': [[0, 0, 0], [1 / 3, 2 / 3, 1 / 3], [2 / 3, 1 / 3, 2 / 3]]}
FAMILY = {'cubic': (4.05, 4.05, 4.05, 90, 90, 90), 'hexagonal': (3.2, 3.2, 5.1, 90, 90, 120),
          'tetragonal': (3.1, 3.1, 4.7, 90, 90, 90), 'rhombohedral': (4.1, 4.1, 4.1, 75, 75, 75),
          'orthorhombic': (3.1, 4.2, 5.3, 90, 90, 90), 'monoclinic': (3.3, 4.4, 5.5, 90, 103, 90),
          'triclinic': (3.7, 4.1, 5.9, 81, 97, 112)}
COMPAT = {'p': ['cubic', 'hexagonal', 'tetragonal', 'rhombohedral', 'orthorhombic', 'monoclinic', 'triclinic'],
          'i': ['orthorhombic', 'tetragonal', 'cubic'], 'f': ['orthorhombic', 'cubic'],
          'a': ['monoclinic', 'orthorhombic'], 'b': ['monoclinic', 'orthorhombic'], 'c': ['monoclinic', 'orthorhombic'],
          't1': ['hexagonal'], 't2': ['hexagonal']}
# bases (relative to the conventional cell, before centering): motif atom at the lattice point + generic atoms / atom on a face
BASES = [([[0, 0, 0]], [1]),
         ([[0, 0, 0], [0.13, 0.21, 0.37]], [1, 2]),
         ([[0, 0, 0], [0.13, 0.21, 0.37], [0, 0.25, 0.125]], [1, 2, 2])]


def _center_cases():
    out = []
    for setting in ['p', 'a', 'b', 'c', 'i', 'f', 't1', 't2']:
        for fam in COMPAT[setting]:
            for bi in range(len(BASES)):
                out.append((setting, fam, bi, setting))
                if setting in ('t1', 't2'):
                    out.append((setting, fam, bi, 't'))      # generic 't' must identify t1/t2 itself
    return out


CENTER_CASES = _center_cases()


def conventional(setting, fam, bi):
    rel0, typ0 = BASES[bi]
    cen = np.array(CENTER[setting], float)
    rel, typ, ip, fv = [], [], [], []
    for b, (p, t) in enumerate(zip(rel0, typ0)):
        for cvec in cen:
            rel.append((np.array(p, float) + cvec) % 1.0)
            typ.append(t)
            ip.append(100 + 7 * b + t)                      # per-atom values are those of the motif atom:
            fv.append([b + 0.5, -0.25 * b - 1.0, 1.0 / (b + 1.0)])   # the crystal really has the centred lattice
    u = dict(name='%s-%s-%d' % (fam, setting, bi), vects=chol_from_params(*FAMILY[fam]), origin=np.zeros(3),
             rel=np.array(rel), atype=np.array(typ, int), symbols=('Ga', 'As')[:max(typ0)], ip=np.array(ip, int),
             fv=np.array(fv, float))
    return u


def integer_matrix(M, what, fails, tag):
    Mi = np.rint(M)
    if np.abs(M - Mi).max() > 1e-7:
        fails.append(Fail(key=tag + 'lattice-not-sublattice', msg=what, observed=M))
        return None
    return Mi.astype(np.int64)


@chk.clause('centering')
def centering(case):
    setting, fam, bi, given = CENTER_CASES[case['k']]
    n = len(CENTER[setting])
    u = conventional(setting, fam, bi)
    # (origin 1: the same conventional cell given with a box origin that is not a lattice point)
    conv = make_system(u, origin=GENERIC_ORIGIN.copy() if case.get('origin') else None)
    c0 = Snap(conv)
    fails = []
    # --- conventional -> primitive
    try:
        prim, T1 = conv.dump('conventional_to_primitive', setting=given, return_transform=True)
    except (ValueError, AssertionError) as e:
        return [Fail(key='c2p-refused', msg='conventional_to_primitive refused a compatible %s %s cell: %s' % (fam, setting, e))]
    if not Snap(conv).same(c0):
        fails.append(Fail(key='c2p-input-modified', msg='conventional_to_primitive changed its input'))
    p1 = Snap(prim)
    if not proper_rotation(T1, fails, 'c2p-'):
        return fails
    T1 = np.asarray(T1, float)

    def prim_checks(p, tag):
        if p.natoms * n != c0.natoms:
            fails.append(Fail(key=tag + 'natoms', msg='primitive cell has %d atoms, conventional %d, centering multiplicity %d'
                              % (p.natoms, c0.natoms, n)))
        if not lammps_norm(p.vects) or not np.linalg.det(p.vects) > 0:
            fails.append(Fail(key=tag + 'not-lammps-compatible', msg='primitive cell not LAMMPS compatible / right-handed'))
        s = inside_relative(p)
        if s.min() < -TOL_IN or s.max() > 1 + TOL_IN:
            fails.append(Fail(key=tag + 'atom-outside', msg='atom outside the primitive cell',
                              rel_min=float(s.min()), rel_max=float(s.max())))

    def conv_is_supercell_of(p, c, T, tag):
        """crystal of conventional cell c == crystal of primitive cell p, with p = T . c (c = T^T . p)"""
        M = (c.vects @ T.T) @ np.linalg.inv(p.vects)     # conventional vectors in primitive-lattice coordinates
        Mi = integer_matrix(M, 'conventional cell vectors are not integer combinations of the primitive ones', fails, tag)
        if Mi is None:
            return
        if abs(adjugate_int(Mi)[1]) != n:
            fails.append(Fail(key=tag + 'multiplicity', msg='conventional/primitive volume ratio %d, centering multiplicity %d'
                              % (abs(adjugate_int(Mi)[1]), n)))
            return
        same_crystal(p, c, T.T, Mi, fails, tag)

    prim_checks(p1, 'c2p-')
    conv_is_supercell_of(p1, c0, T1, 'c2p-')
    # --- primitive -> conventional
    try:
        conv2, T2 = prim.dump('primitive_to_conventional', setting=setting, return_transform=True)
    except (ValueError, AssertionError) as e:
        fails.append(Fail(key='p2c-refused', msg='primitive_to_conventional refused: %s' % e))
        return fails
    if not Snap(prim).same(p1):
        fails.append(Fail(key='p2c-input-modified', msg='primitive_to_conventional changed its input'))
    c2 = Snap(conv2)
    if not proper_rotation(T2, fails, 'p2c-'):
        return fails
    T2 = np.asarray(T2, float)
    conv_is_supercell_of(p1, c2, T2.T, 'p2c-')
    # the two conversions undo one another: same Gram matrix, same crystal as the cell we started from
    size = np.linalg.norm(c0.vects, axis=1).max()
    if np.abs(c2.vects @ c2.vects.T - c0.vects @ c0.vects.T).max() > TOL_REL * size * size:
        fails.append(Fail(key='roundtrip-gram', msg='p2c(c2p(cell)) does not have the Gram matrix of the cell',
                          observed=c2.vects @ c2.vects.T, expected=c0.vects @ c0.vects.T))
    else:
        same_crystal(c0, c2, T2 @ T1, np.eye(3, dtype=np.int64), fails, 'roundtrip-')
        # the menu cells are LAMMPS compatible themselves, so the cell must come back as it was
        if np.abs(c2.vects - c0.vects).max() > TOL_REL * size:
            fails.append(Fail(key='roundtrip-vects', msg='p2c(c2p(cell)) has other cell vectors than the (LAMMPS compatible) cell',
                              observed=c2.vects, expected=c0.vects))
    s = inside_relative(c2)
    if s.min() < -TOL_IN or s.max() > 1 + TOL_IN:
        fails.append(Fail(key='p2c-atom-outside', msg='atom outside the conventional cell'))
    if not lammps_norm(c2.vects):
        fails.append(Fail(key='p2c-not-lammps-compatible', msg='conventional cell not LAMMPS compatible'))
    # --- and back to primitive: c2p(p2c(prim)) is the crystal and cell of prim
    try:
        # (the conversions keep the crystal in place and put the box origin at 0: for a cell given with a generic origin
        #  the rebuilt conventional cell has no atom at its corner, where the documented way is check_basis=False)
        kw3 = dict(check_basis=False) if case.get('origin') else {}
        prim2, T3 = conv2.dump('conventional_to_primitive', setting=setting, return_transform=True, **kw3)
    except (ValueError, AssertionError) as e:
        fails.append(Fail(key='c2p2-refused', msg='conventional_to_primitive refused the cell made by primitive_to_conventional: %s' % e))
        return fails
    p2 = Snap(prim2)
    if proper_rotation(T3, fails, 'c2p2-'):
        T3 = np.asarray(T3, float)
        prim_checks(p2, 'c2p2-')
        sizep = np.linalg.norm(p1.vects, axis=1).max()
        if np.abs(p2.vects - p1.vects).max() > TOL_REL * sizep:
            fails.append(Fail(key='roundtrip2-vects', msg='c2p(p2c(primitive)) has other cell vectors than the primitive cell',
                              observed=p2.vects, expected=p1.vects))
        else:
            same_crystal(p1, p2, T3 @ T2, np.eye(3, dtype=np.int64), fails, 'roundtrip2-')
    chk.note('centering-chains')
    chk.note('calls', 3)
    chk.note('nontrivial')
    chk.note('result-atoms-mapped', p1.natoms + c2.natoms + p2.natoms)
    return fails


@chk.clause('centering-refusal')
def centering_refusal(case):
    """a cell that does not have the centring must not be silently 'converted' (check_basis is on by default)"""
    setting, fam, bi, given = CENTER_CASES[case['k']]
    if setting == 'p' or given == 't':
        return []
    u = conventional(setting, fam, bi)
    # make the centring false: the atom at the first centring translation gets another type
    j = 1
    u['atype'] = u['atype'].copy()
    u['atype'][j] = 2
    u['symbols'] = ('Ga', 'As')
    conv = make_system(u)
    chk.note('calls')
    try:
        prim = conv.dump('conventional_to_primitive', setting=setting)
    except ValueError:
        chk.note('refusals')
        return []
    return [Fail(key='false-centring-accepted', msg='conventional_to_primitive(%s) converted a cell whose centring atoms have '
                 'different types into %d atoms' % (setting, prim.natoms))]


# ---------------------------------------------------------------------------------------------------

def rotate_cells():
    seed_cell = len(UCELLS) - 1
    if THOROUGH:
        return list(range(len(UCELLS)))
    return list(range(NQUICK_ROT)) + [seed_cell]


def gen():
    ncell = len(UCELLS)
    # (the most expensive cases first: large bounding supercells)
    for ci in HEX_CELLS:
        if not THOROUGH and ci != HEX_CELLS[0]:
            continue
        for r0 in range(len(HEXROWS)):
            for r1 in range(len(HEXROWS)):
                for r2 in range(len(HEXROWS)):
                    yield 'rotate-hex', {'cell': ci, 'r0': r0, 'r1': r1, 'r2': r2}
    for ci in range(ncell):
        for oi in (0, 1):
            for a in range(len(SIZES)):
                for b in range(len(SIZES)):
                    yield 'supersize', {'cell': ci, 'origin': oi, 'a': a, 'b': b}
        for axis in range(3):
            for bad in range(len(BAD_SIZES)):
                yield 'supersize-refusal', {'cell': ci, 'axis': axis, 'bad': bad}
        for bad in range(NBAD_ROT):
            yield 'rotate-refusal', {'cell': ci, 'bad': bad}
    for k in range(len(CENTER_CASES)):
        yield 'centering', {'k': k}
        yield 'centering', {'k': k, 'origin': 1}
        yield 'centering-refusal', {'k': k}
    for ci in rotate_cells():
        for m in range(3 ** 9):
            yield 'rotate', {'cell': ci, 'm': m}
    # the argument may be a list or a float array holding integers
    for form in (1, 2, 3):
        for m in range(3 ** 9):
            if THOROUGH or m % 4 == form:      # quick: a fixed quarter of the matrices per form
                yield 'rotate', {'cell': 1, 'm': m, 'form': form}
    # other presentations of the same crystal (rotated in space / face atoms on the far faces / both): the identity set and the
    # permutation-like sets always, a fixed quarter of all matrices per presentation in quick, all of them in thorough
    always = {m for m in range(3 ** 9) if np.abs(matrix_of(m)).sum() == 3 and adjugate_int(matrix_of(m))[1] != 0}
    for m in range(3 ** 9):
        if THOROUGH or m in always or m % 4 == 0:
            yield 'rotate', {'cell': -1, 'm': m}
    for pres in (1, 2, 3, 4, 5):
        for m in range(3 ** 9):
            if THOROUGH or m in always or m % 4 == pres % 4:
                yield 'rotate', {'cell': 1, 'm': m, 'pres': pres}
                if m in always:
                    yield 'rotate', {'cell': 3, 'm': m, 'pres': pres}
    if THOROUGH:
        # rows from the 32 shortest integer vectors (all cells) and from the 56 shortest (three cells), index bound |det| <= 8
        deep = [i for i, u in enumerate(UCELLS) if u['name'] in ('fcc', 'triclinic-3at-faces', 'hcp')]
        n = len(ROWS56)
        for r0 in range(n):
            for r1 in range(n):
                for r2 in range(n):
                    top = max(r0, r1, r2)
                    if top < 26:
                        continue        # already covered by the {-1,0,1} matrices
                    det = adjugate_int(ROWS56[[r0, r1, r2]])[1]
                    if abs(det) > 8:
                        continue        # index bound (singular ones stay in: they must be refused)
                    for ci in (range(ncell) if top < 32 else deep):
                        yield 'rotate', {'cell': ci, 'r0': r0, 'r1': r1, 'r2': r2}


if __name__ == '__main__':
    chk.run_cases(gen(), batch=64)
    cov = {'evaluations': chk.notes.get('calls', 0),
           'distinct_nontrivial': chk.notes.get('nontrivial', 0),
           'unit_cells': len(UCELLS), 'rotate_cells': len(rotate_cells()),
           'centering_cases': len(CENTER_CASES)}
    sys.exit(chk.finish(cov))
