"""C12 - Volterra dislocation fields: Stroh, IsotropicVolterraDislocation, solve_volterra_dislocation.

Bounded-exhaustive enumeration: materials x Burgers vectors x orientations
(explicit transform / axes / Miller line+plane in a box) x (m, n) axis choices,
every solution evaluated on the complete polar grid r x theta x z (72 points,
as one (N,3) array, as single points, as N=1 and N=3 arrays).

Oracles (none of them calls the code under test for its expectation):
  * attributes: .transform / .burgers / .C / .m / .n / .xi / characterangle / K_coeff / preln
    against an independent index-loop rotation of C and an independent Miller->Cartesian map
  * jump of the displacement across the -m half plane == Burgers vector, continuity
    across the +m, +n and -n half planes (epsilon = 1e-9)
  * strain == symmetric central-difference gradient of displacement (h = 1e-5 r)
  * stress == C : strain with the independently rotated C;  div(stress) == 0 (h = 1e-5 r)
  * exact homogeneity: strain(2p) = strain(p)/2, r*field(r,theta) independent of r,
    u(2p)-u(p) constant, no dependence on the coordinate along the line
  * traction on the slip plane ahead of the line:  sigma(x m).n = K b / (2 pi x)
  * K real, symmetric, positive definite and equal to the integral-formalism tensor
    (1/pi) int_0^pi [ (mm) - (mn)(nn)^-1(nm) ] d omega (no eigen-decomposition)
  * ring quadrature: zero net force on a circuit, strain energy per ln(R) == preln
  * covariance: transform=T == the pre-rotated problem; rotating C, b, m, n and the points
    together rotates u, strain, stress, K
  * isotropic class == Hirth-Lothe closed form; Stroh on cubic A=1+-delta -> closed form, error <= c*delta
"""
import sys

import numpy as np

from mc.common import Check, Explorer, Fail, SEED, THOROUGH, assert_overlay, digest

am = assert_overlay()
from atomman.defect import (Stroh, IsotropicVolterraDislocation,          # noqa: E402
                            solve_volterra_dislocation, dislocation_system_transform)

chk = Check('C12', 'exploration',
            'full product materials (8 anisotropic classes, cubic A=1+-{1e-1,1e-2,1e-3}, 2 isotropic) x Burgers '
            'vectors (screw, edge, 60-degree mixed, 2 generic with n-component; crystal-vector Burgers for the '
            'Miller systems) x orientations (no transform, 6 explicit transforms incl. non-unit rows through transform= and through the axes= '
            'alias, one VERIF_SEED-selected rotation, 10 Miller line/plane systems in a cubic, a hexagonal and an orthorhombic box '
            'incl. 4-index) x 8 (m,n) choices (6 Cartesian assignments as str/array/mixed + 2 generic pairs); '
            'one case = one solved dislocation evaluated on the complete grid r{0.7,1.9,5.3} x 12 theta x z{0,0.8} '
            '(+ finite-difference stencils, 4 half-plane crossings x 6, a 360-point ring); non-trivial = solution '
            'accepted by the solver (exactly degenerate orientations, e.g. hexagonal line || c, are refused by Stroh '
            'and counted separately); clauses covar (3 re-solved rotated problems per case), auto '
            '(solve_volterra_dislocation dispatch), mnforms (4 spellings of each Cartesian axis pair) and limit '
            '(anisotropic -> isotropic) enumerate their own complete products; scale: every case with the Burgers vector multiplied by 1e-10, 1e-5, 1e7 '
            '(linearity); live-stroh / live-iso: explicit-state BFS (depth 3 quick / 4 thorough) over histories of solve(problem j) and reads of every '
            'observable on ONE live solution object, states distinct by (problem last solved, byte-exact internal state), oracle = fresh object')
chk.assumptions = [
    'finite differences: h = 1e-5*r, agreement 1e-7 absolute on O(1) fields (|b|<=2.3, max C = 2.1); truncation h^2 u\'\'\'/6 ~ 1e-11, rounding eps*u/h ~ 1e-11',
    'algebraic identities 1e-10 relative; quantities that pass through the class\'s own 1e-8 relative zeroing (K_tensor, burgers, C.transform) 3e-8 relative',
    'jump / continuity evaluated at +-1e-9 from the half plane: allowed 2e-8*|b| (= 2*eps*|grad u| with |grad u| <= 10|b|/r)',
    'grid angles keep >= 7 degrees from the cut; Stroh refusals are accepted only when the independent sextic has a root gap < 1e-3',
    'isotropic limit: |Stroh - closed form| <= 2*|A-1|*max|field| (first-order perturbation; measured ratio <= 0.75)',
    'displacements are compared up to the additive constant only where a closed form is the oracle',
]

# --------------------------------------------------------------------------
# independent tensor helpers
PAIRS = [(0, 0), (1, 1), (2, 2), (1, 2), (0, 2), (0, 1)]


def voigt_to_full(C6):
    C4 = np.zeros((3, 3, 3, 3))
    for a, (i, j) in enumerate(PAIRS):
        for b, (k, l) in enumerate(PAIRS):
            for (p, q) in ((i, j), (j, i)):
                for (r, s) in ((k, l), (l, k)):
                    C4[p, q, r, s] = C6[a, b]
    return C4


def full_to_voigt(C4):
    C6 = np.zeros((6, 6))
    for a, (i, j) in enumerate(PAIRS):
        for b, (k, l) in enumerate(PAIRS):
            C6[a, b] = C4[i, j, k, l]
    return C6


def rotate_full(C4, T):
    """C'_ijkl = T_ia T_jb T_kc T_ld C_abcd  (rows of T = new axes in old coordinates)"""
    return np.einsum('ia,jb,kc,ld,abcd->ijkl', T, T, T, T, C4)


def rot(axis, deg):
    axis = np.asarray(axis, float) / np.linalg.norm(axis)
    t = np.radians(deg)
    K = np.array([[0, -axis[2], axis[1]], [axis[2], 0, -axis[0]], [-axis[1], axis[0], 0]])
    return np.eye(3) + np.sin(t) * K + (1 - np.cos(t)) * K @ K


def unit_rows(T):
    T = np.asarray(T, float)
    return T / np.linalg.norm(T, axis=1)[:, None]


# --------------------------------------------------------------------------
# materials (Voigt, O(1) units)
def _sym(C):
    return C + C.T - np.diag(np.diag(C))


def cubic(c11, c12, c44):
    C = np.zeros((6, 6))
    C[:3, :3] = c12
    C[[0, 1, 2], [0, 1, 2]] = c11
    C[[3, 4, 5], [3, 4, 5]] = c44
    return C


def _upper(entries):
    C = np.zeros((6, 6))
    for (i, j), v in entries.items():
        C[i - 1, j - 1] = v
    return _sym(C)


ORTHO = {(1, 1): 2.1, (2, 2): 1.6, (3, 3): 1.8, (1, 2): 0.7, (1, 3): 0.6, (2, 3): 0.8, (4, 4): 0.5, (5, 5): 0.65, (6, 6): 0.4}
MATS = [
    ('cubic-A0.5', cubic(2.0, 1.0, 0.25)),
    ('cubic-A2.6', cubic(1.7, 1.2, 0.65)),
    ('hexagonal', _upper({(1, 1): 1.6, (2, 2): 1.6, (3, 3): 1.8, (1, 2): 0.9, (1, 3): 0.7, (2, 3): 0.7,
                          (4, 4): 0.45, (5, 5): 0.45, (6, 6): 0.35})),
    ('tetragonal-7', _upper({(1, 1): 1.9, (2, 2): 1.9, (3, 3): 1.5, (1, 2): 0.8, (1, 3): 0.6, (2, 3): 0.6,
                             (4, 4): 0.5, (5, 5): 0.5, (6, 6): 0.7, (1, 6): 0.12, (2, 6): -0.12})),
    ('orthorhombic', _upper(ORTHO)),
    ('monoclinic', _upper({**ORTHO, (1, 5): 0.1, (2, 5): -0.08, (3, 5): 0.06, (4, 6): 0.05})),
    ('triclinic', _upper({(1, 1): 2.0, (2, 2): 1.7, (3, 3): 1.9, (4, 4): 0.55, (5, 5): 0.6, (6, 6): 0.45,
                          (1, 2): 0.75, (1, 3): 0.65, (2, 3): 0.7, (1, 4): 0.05, (1, 5): -0.07, (1, 6): 0.09,
                          (2, 4): -0.06, (2, 5): 0.04, (2, 6): 0.08, (3, 4): 0.07, (3, 5): 0.05, (3, 6): -0.04,
                          (4, 5): 0.03, (4, 6): -0.05, (5, 6): 0.06})),
    ('rhombohedral', _upper({(1, 1): 1.8, (2, 2): 1.8, (3, 3): 1.5, (1, 2): 0.7, (1, 3): 0.6, (2, 3): 0.6,
                             (4, 4): 0.5, (5, 5): 0.5, (6, 6): 0.55, (1, 4): 0.12, (2, 4): -0.12, (5, 6): 0.12})),
]
NANISO = len(MATS)
ISO_BASE = (1.7, 0.9, 0.4)          # c11, c12, (c11-c12)/2 : lambda = 0.9, mu = 0.4
DELTAS = [1e-1, -1e-1, 1e-2, -1e-2, 1e-3, -1e-3]
for d in DELTAS:
    MATS.append(('cubic-A=1%+.0e' % d, cubic(1.7, 0.9, 0.4 * (1 + d))))
NSTROH = len(MATS)
MATS.append(('isotropic-nu0.35', cubic(1.7, 0.9, 0.4)))
MATS.append(('isotropic-nu0.14', cubic(1.9, 0.3, 0.8)))
if THOROUGH:
    # a second member of three classes, appended after the isotropic ones (indices of the quick tier unchanged)
    MATS.append(('cubic-A3.9', cubic(1.6, 1.2, 0.78)))
    MATS.append(('hexagonal-2', _upper({(1, 1): 1.2, (2, 2): 1.2, (3, 3): 2.0, (1, 2): 0.4, (1, 3): 0.9, (2, 3): 0.9,
                                        (4, 4): 0.3, (5, 5): 0.3, (6, 6): 0.4})))
    MATS.append(('triclinic-2', _upper({
        (1, 1): 1.5, (2, 2): 2.1, (3, 3): 1.3, (4, 4): 0.7, (5, 5): 0.4, (6, 6): 0.6,
        (1, 2): 0.5, (1, 3): 0.6, (2, 3): 0.4, (1, 4): -0.08, (1, 5): 0.06, (1, 6): -0.05,
        (2, 4): 0.09, (2, 5): -0.03, (2, 6): 0.07, (3, 4): -0.05, (3, 5): 0.08, (3, 6): 0.03,
        (4, 5): -0.04, (4, 6): 0.06, (5, 6): -0.03})))
ISO_IDS = [NSTROH, NSTROH + 1]
STROH_IDS = [i for i in range(len(MATS)) if i not in ISO_IDS]
# nearly but not exactly isotropic media: whatever the solver ACCEPTS there must still satisfy the statement (the limit
# clause of the statement: 'approaches the closed-form isotropic solution as the anisotropy vanishes')
NEAR_DELTAS = [1e-5, -1e-6, 1e-7, -1e-8, 1e-9, -1e-10, 1e-11, -1e-12, 1e-13]
NEAR_IDS = []
for d in NEAR_DELTAS:
    NEAR_IDS.append(len(MATS))
    MATS.append(('cubic-A=1%+.0e' % d, cubic(1.7, 0.9, 0.4 * (1 + d))))
STROH_IDS = [i for i in STROH_IDS if i not in NEAR_IDS]
for _n, _C in MATS:
    assert np.linalg.eigvalsh(_C).min() > 0.05, _n
CMAX = max(np.abs(C).max() for _, C in MATS)


def iso_mu_nu(C6):
    mu = C6[3, 3]
    lam = C6[0, 1]
    return mu, lam / (2 * (lam + mu))


# --------------------------------------------------------------------------
# Burgers vectors in (edge along m, climb along n, screw along xi) components
BURG = [('screw', (0.0, 0.0, 1.0)),
        ('edge', (0.9, 0.0, 0.0)),
        ('mixed60', (0.8 * np.sin(np.pi / 3), 0.0, 0.8 * np.cos(np.pi / 3))),
        ('mixed-neg', (-0.6, 0.0, 0.45)),
        ('generic-n', (0.3, 0.5, 0.8)),          # n-component: Stroh only
        ('generic-n2', (-0.6, 0.35, -0.45))]
BURG_INPLANE = [0, 1, 2, 3]

# --------------------------------------------------------------------------
# (m, n) choices
_G1 = rot([1, 1, 0.3], 50.0)
_G2 = rot([0.2, -1, 0.7], 110.0)
AX = {'x': np.array([1.0, 0, 0]), 'y': np.array([0, 1.0, 0]), 'z': np.array([0, 0, 1.0])}
MN = [('x', 'y'), ('y', 'z'), ('z', 'x'),
      (np.array([0.0, 1.0, 0.0]), np.array([1.0, 0.0, 0.0])),
      ('x', [0.0, 0.0, 1.0]),
      ((0.0, 0.0, 1.0), 'y'),
      (_G1[:, 0].copy(), _G1[:, 1].copy()),
      (_G2[:, 2].tolist(), _G2[:, 0].tolist())]
if THOROUGH:
    _G3 = rot([-1, 0.4, 2], 201.0)
    MN += [('y', 'x'), ('z', 'y'), (_G3[:, 1].copy(), _G3[:, 2].copy())]


def mn_vectors(k):
    m, n = MN[k]
    m = AX[m] if isinstance(m, str) else np.asarray(m, float)
    n = AX[n] if isinstance(n, str) else np.asarray(n, float)
    return m, n


# --------------------------------------------------------------------------
# orientations
SEED_ROT = [([3, 1, 2], 29.0), ([1, -2, 2], 77.0), ([-1, 1, 3], 143.0), ([2, 2, -1], 211.0),
            ([0.3, 1, -0.2], 61.0), ([1, 0.1, 0.2], 97.0), ([-3, 2, 1], 171.0), ([1, 4, -2], 305.0)]
HEXV = np.array([[3.0, 0, 0], [-1.5, 1.5 * np.sqrt(3.0), 0], [0, 0, 4.9]])
CUBV = 3.2 * np.eye(3)
ORTV = np.diag([3.0, 4.1, 5.3])
# ('T', how, matrix)   how in none/transform/axes
ORIENT = [('T', 'none', np.eye(3)),
          ('T', 'transform', np.array([[0.0, 1, 0], [0, 0, 1], [1, 0, 0]])),
          ('T', 'transform', np.array([[1.0, -1, 0], [1, 1, 1], [-1, -1, 2]])),
          ('T', 'transform', rot([1, 2, 3], 37.0)),
          ('T', 'axes', rot([-2, 1, 0.5], 123.0)),
          ('T', 'axes', np.array([[1.0, 0, -1], [1, 1, 1], [1, -2, 1]])),      # the legacy keyword with non-unit rows
          ('T', 'transform', np.array([[1.0, 1, 0], [-1, 1, 0], [0, 0, 2]])),
          ('T', 'transform', rot(*SEED_ROT[SEED % 8]))]
NT = len(ORIENT)
# ('M', box vects, xi_uvw, slip_hkl, [Burgers as crystal vectors])
ORIENT += [
    ('M', CUBV, [1, -1, 0], [1, 1, 1], [[0.5, -0.5, 0]]),                       # fcc screw
    ('M', CUBV, [1, 1, -2], [1, 1, 1], [[0.5, -0.5, 0], [0, 0.5, 0.5]]),       # fcc edge; Burgers out of the plane
    ('M', CUBV, [0, 1, -1], [1, 1, 1], [[0.5, -0.5, 0]]),                       # fcc 60 degree
    ('M', CUBV, [1, 1, 1], [1, -1, 0], [[0.5, 0.5, 0.5]]),                      # bcc screw
    ('M', CUBV, [1, 1, -2], [1, -1, 0], [[0.5, 0.5, 0.5], [1, 0, 0]]),         # bcc edge; <100> with n-component
    ('M', CUBV, [1, 2, -3], [1, 1, 1], [[0.5, -0.5, 0]]),                       # generic line in (111)
    ('M', HEXV, [1, 0, 0], [0, 0, 1], [[1, 0, 0], [0, 1, 0]]),                  # hcp basal <a> screw / 60 degree
    ('M', HEXV, [2, -1, -1, 0], [0, 0, 0, 1], [[1. / 3, 1. / 3, -2. / 3, 0]]),  # 4-index input
    ('M', HEXV, [0, 1, 0], [1, 0, 1], [[0, 1, 0], [1, 0, -1]]),                 # pyramidal
    ('M', ORTV, [1, 0, 0], [0, 1, 1], [[1, 0, 0], [0, 1, -1]]),                 # orthorhombic (011): [hkl] is not parallel to the (hkl) normal
]
if THOROUGH:
    ORIENT += [('T', 'transform', rot(*sr)) for k, sr in enumerate(SEED_ROT) if k != SEED % 8]
    ORIENT += [('M', HEXV, [1, 2, 0], [0, 0, 1], [[1, 0, 0]]),                  # basal edge
               ('M', HEXV, [1, -2, 1, 3], [1, 0, -1, 0], [[2. / 3, -1. / 3, -1. / 3, 0], [0, 0, 0, 1]]),   # prismatic, inclined line
               ('M', CUBV, [-1, 0, 1], [1, -2, 1], [[0.5, 0.5, 0.5]])]          # bcc {112}


def nburg(oi, iso=False):
    o = ORIENT[oi]
    if o[0] == 'T':
        return len(BURG_INPLANE) if iso else len(BURG)
    return len(o[4])


def v4to3(v):
    v = np.asarray(v, float)
    return np.array([v[0] - v[2], v[1] - v[2], v[3]]) if len(v) == 4 else v


def p4to3(v):
    v = np.asarray(v, float)
    return np.array([v[0], v[1], v[3]]) if len(v) == 4 else v


def setup(case, iso=False):
    """-> kwargs for the solver, expected transform, expected lab-frame Burgers vector, C6, m, n"""
    C6 = MATS[case['mat']][1]
    m, n = mn_vectors(case['mn'])
    xi = np.cross(m, n)
    o = ORIENT[case['ori']]
    kw = {'m': MN[case['mn']][0], 'n': MN[case['mn']][1]}
    if o[0] == 'T':
        Texp = unit_rows(o[2])
        comp = BURG[BURG_INPLANE[case['b']] if iso else case['b']][1]
        b_lab = comp[0] * m + comp[1] * n + comp[2] * xi
        b_in = Texp.T @ b_lab
        if o[1] != 'none':
            kw[o[1]] = o[2]
        b_cart = b_in
        if case.get('box'):
            # orientation by a rotation AND a cell: the Burgers vector is a crystal vector of that cell (documented: box
            # is 'the unit cell's box that crystal vectors are taken with respect to'); same Cartesian vector as before
            V = [ORTV, HEXV][case['box'] - 1]
            kw['box'] = am.Box(vects=V)
            b_in = b_cart @ np.linalg.inv(V)
    else:
        vects = o[1]
        xi_c = v4to3(o[2]) @ vects
        xi_c /= np.linalg.norm(xi_c)
        n_c = p4to3(o[3]) @ np.linalg.inv(vects).T
        n_c /= np.linalg.norm(n_c)
        assert abs(xi_c @ n_c) < 1e-12
        m_c = np.cross(n_c, xi_c)
        Texp = np.column_stack([m, n, xi]) @ np.array([m_c, n_c, xi_c])
        b_in = o[4][case['b']]
        b_cart = v4to3(b_in) @ vects
        b_lab = Texp @ b_cart
        kw.update({'ξ_uvw': o[2], 'slip_hkl': o[3], 'box': am.Box(vects=vects)})
    return dict(kw=kw, Texp=Texp, b_lab=b_lab, b_in=b_in, b_cart=b_cart, C6=C6, m=m, n=n, xi=xi,
                C4lab=rotate_full(voigt_to_full(C6), Texp))


def sextic_gap(C4, m, n):
    """smallest distance between two roots (upper half plane) of det[(mm) + p((mn)+(nm)) + p^2 (nn)] = 0,
    polynomial recovered from 8 determinant evaluations on the unit circle (no eigen-decomposition of N)"""
    Q = np.einsum('i,ijkl,l', m, C4, m)
    R = np.einsum('i,ijkl,l', m, C4, n)
    T = np.einsum('i,ijkl,l', n, C4, n)
    z = np.exp(2j * np.pi * np.arange(8) / 8)
    d = np.array([np.linalg.det(Q + p * (R + R.T) + p * p * T) for p in z])
    coef = np.fft.fft(d) / 8          # coef[k] multiplies p^k
    r = np.roots(coef[6::-1])
    up = r[r.imag > 0]
    if len(up) != 3:
        return 0.0
    return float(min(abs(up[i] - up[j]) for i in range(3) for j in range(i)))


def K_integral(C4, m, n, N=96):
    """(1/pi) int_0^pi [(m'm') - (m'n')(n'n')^-1(n'm')] d omega, trapezoid (periodic analytic integrand)"""
    w = np.arange(N) * np.pi / N
    mw = np.cos(w)[:, None] * m + np.sin(w)[:, None] * n
    nw = -np.sin(w)[:, None] * m + np.cos(w)[:, None] * n
    mm = np.einsum('wi,ijkl,wl->wjk', mw, C4, mw)
    mn = np.einsum('wi,ijkl,wl->wjk', mw, C4, nw)
    nn = np.einsum('wi,ijkl,wl->wjk', nw, C4, nw)
    return (mm - mn @ np.linalg.inv(nn) @ np.transpose(mn, (0, 2, 1))).mean(axis=0)


# --------------------------------------------------------------------------
# field points
RS = [0.7, 1.9, 5.3]
THS = [0.0, 30.0, 60.0, 90.0, 120.0, 150.0, 173.0, 187.0, 225.0, 270.0, 300.0, 330.0]
ZS = [0.0, 0.8]
if THOROUGH:
    RS = [0.31, 0.7, 1.9, 5.3, 40.0]
    THS = [0.0, 15.0, 30.0, 45.0, 60.0, 75.0, 90.0, 105.0, 120.0, 135.0, 150.0, 165.0, 173.0,
           187.0, 195.0, 210.0, 225.0, 240.0, 255.0, 270.0, 285.0, 300.0, 330.0, 353.0]
    ZS = [0.0, 0.8, -3.1]
GRID = np.array([(r, t, z) for z in ZS for r in RS for t in THS])       # z slowest: first half has z = 0
NP_ = len(GRID)
NPZ0 = len(RS) * len(THS)
EPS = 1e-9
NRING = 360


def lab_points(e, rtz):
    t = np.radians(rtz[:, 1])
    return (rtz[:, 0] * np.cos(t))[:, None] * e['m'] + (rtz[:, 0] * np.sin(t))[:, None] * e['n'] + rtz[:, 2][:, None] * e['xi']


def solve(kind, e):
    C = am.ElasticConstants(Cij=e['C6'].copy())
    if kind == 'stroh':
        return Stroh(C, e['b_in'], **e['kw'])
    if kind == 'iso':
        return IsotropicVolterraDislocation(C, e['b_in'], **e['kw'])
    return solve_volterra_dislocation(C, e['b_in'], **e['kw'])


def near_threshold(C4):
    """entries of an ideal rotated C that the class's own 1e-8 / 1e-9 relative zeroing could touch"""
    rel = np.abs(C4) / np.abs(C4).max()
    return bool(np.any((rel > 1e-12) & (rel < 1e-6)))


def is_real_float(a):
    return isinstance(a, np.ndarray) and a.dtype.kind == 'f' and bool(np.all(np.isfinite(a)))


def worst(a):
    return float(np.max(np.abs(a))) if np.size(a) else 0.0


# --------------------------------------------------------------------------
# Hirth & Lothe closed form (components in the m, n, xi frame)
def closed_form(mu, nu, be, bs, x, y):
    r2 = x * x + y * y
    N = len(x)
    sig = np.zeros((N, 3, 3))
    D = mu * be / (2 * np.pi * (1 - nu))
    sig[:, 0, 0] = -D * y * (3 * x * x + y * y) / r2 ** 2
    sig[:, 1, 1] = D * y * (x * x - y * y) / r2 ** 2
    sig[:, 0, 1] = sig[:, 1, 0] = D * x * (x * x - y * y) / r2 ** 2
    sig[:, 2, 2] = nu * (sig[:, 0, 0] + sig[:, 1, 1])
    S = mu * bs / (2 * np.pi)
    sig[:, 0, 2] = sig[:, 2, 0] = -S * y / r2
    sig[:, 1, 2] = sig[:, 2, 1] = S * x / r2
    tr = np.trace(sig, axis1=1, axis2=2)
    eps = (sig - (nu / (1 + nu)) * tr[:, None, None] * np.eye(3)) / (2 * mu)
    th = np.arctan2(y, x)
    u = np.zeros((N, 3))
    u[:, 0] = be / (2 * np.pi) * (th + x * y / (2 * (1 - nu) * r2))
    u[:, 1] = -be / (2 * np.pi) * ((1 - 2 * nu) / (4 * (1 - nu)) * np.log(r2) + (x * x - y * y) / (4 * (1 - nu) * r2))
    u[:, 2] = bs / (2 * np.pi) * th
    return u, eps, sig


def closed_form_lab(e, mu, nu, P):
    F = np.column_stack([e['m'], e['n'], e['xi']])       # columns: frame vectors in lab coordinates
    x, y = P @ e['m'], P @ e['n']
    u, eps, sig = closed_form(mu, nu, e['b_lab'] @ e['m'], e['b_lab'] @ e['xi'], x, y)
    return u @ F.T, np.einsum('ia,jb,nab->nij', F, F, eps), np.einsum('ia,jb,nab->nij', F, F, sig)


# --------------------------------------------------------------------------
def judge(sol, e, tag=''):
    """every clause of the statement for one solution"""
    fails = []

    def bad(key, msg, **kw):
        fails.append(Fail(key=tag + key, msg=msg, **kw))

    m, n, xi, b = e['m'], e['n'], e['xi'], e['b_lab']
    bs = np.linalg.norm(b)
    C4 = e['C4lab']
    cs = np.abs(C4).max()
    # the class zeroes entries of the rotated C below 1e-8 relative (documented `tol`): where the ideal rotated C has
    # such entries the solved medium differs by 1e-8 relative and the comparisons with the ideal C are widened to 1e-6
    wide = near_threshold(C4)
    if wide:
        chk.note('cases-with-C-entries-near-zeroing-threshold')
    alg = 1e-6 if wide else 1e-10
    ktol = 1e-6 if wide else 3e-8

    # ---- attributes
    if worst(sol.transform - e['Texp']) > 1e-12:
        bad('attr-transform', '.transform is not the rotation to the dislocation frame', observed=sol.transform, expected=e['Texp'])
    if worst(sol.burgers - b) > 3e-8 * bs:
        bad('attr-burgers', '.burgers is not transform . Cartesian(burgers)', observed=sol.burgers, expected=b)
    if worst(sol.C.Cij - full_to_voigt(C4)) > 3e-8 * cs:
        bad('attr-C', '.C is not the stiffness rotated by transform', err=worst(sol.C.Cij - full_to_voigt(C4)))
    if worst(sol.m - m) > 1e-15 or worst(sol.n - n) > 1e-15 or worst(sol.ξ - xi) > 1e-15:
        bad('attr-mn', '.m/.n/.ξ differ from the given axes')
    cosang = np.clip(b @ xi / bs, -1, 1)
    ang = np.degrees(np.arccos(cosang))
    if abs(sol.characterangle() - ang) > 1e-5 or abs(sol.characterangle(unit='radian') - np.radians(ang)) > 2e-7:
        bad('attr-characterangle', 'characterangle is not the angle between Burgers vector and line', observed=sol.characterangle(), expected=ang)

    # ---- K tensor
    K = sol.K_tensor
    Kref = K_integral(C4, m, n)
    ks = np.abs(Kref).max()
    if not (isinstance(K, np.ndarray) and K.shape == (3, 3) and K.dtype.kind == 'f'):
        bad('K-not-real', 'K_tensor is not a real 3x3 array', dtype=str(getattr(K, 'dtype', type(K))))
        return fails
    if worst(K - K.T) > 3e-8 * ks:
        bad('K-not-symmetric', 'K_tensor is not symmetric', K=K)
    ev = np.linalg.eigvalsh((K + K.T) / 2)
    if ev.min() <= 1e-6 * ks:
        bad('K-not-positive-definite', 'K_tensor is not positive definite', eig=ev)
    if worst(K - Kref) > ktol * ks:
        bad('K-vs-integral', 'K_tensor differs from the integral-formalism energy tensor', K=K, expected=Kref)
    bKb = b @ Kref @ b
    if abs(sol.K_coeff - bKb / bs ** 2) > 10 * ktol * ks or abs(sol.preln - bKb / (4 * np.pi)) > 10 * ktol * ks * bs ** 2:
        bad('K-coeff-preln', 'K_coeff / preln are not b.K.b/b^2 and b.K.b/(4 pi)', K_coeff=sol.K_coeff, preln=sol.preln,
            expected=[bKb / bs ** 2, bKb / (4 * np.pi)])

    # ---- fields on the grid
    P = lab_points(e, GRID)
    r = GRID[:, 0]
    u, eps, sig = sol.displacement(P), sol.strain(P), sol.stress(P)
    for name, a, shp in (('displacement', u, (NP_, 3)), ('strain', eps, (NP_, 3, 3)), ('stress', sig, (NP_, 3, 3))):
        if not is_real_float(a) or a.shape != shp:
            bad('field-type', '%s of an (N,3) array is not a finite real array of shape %s' % (name, shp),
                shape=np.shape(a), dtype=str(getattr(a, 'dtype', type(a))))
            return fails
    chk.note('points', NP_)
    us, es, ss = bs, bs, cs * bs      # scales of u, strain*r, stress*r
    if worst(eps - np.transpose(eps, (0, 2, 1))) > 1e-12 * es or worst(sig - np.transpose(sig, (0, 2, 1))) > 1e-12 * ss:
        bad('not-symmetric', 'strain or stress tensor not symmetric')

    # single points, N=1, N=3, list input
    for k in (0, NP_ // 3 + 1, NP_ - 1):
        for name, fn, arr, sc in (('displacement', sol.displacement, u, us), ('strain', sol.strain, eps, es), ('stress', sol.stress, sig, ss)):
            one = fn(P[k])
            lst = fn(P[k].tolist())
            n1 = fn(P[k:k + 1])
            if np.shape(one) != arr.shape[1:] or np.shape(lst) != arr.shape[1:] or np.shape(n1) not in (arr.shape[1:], (1,) + arr.shape[1:]):
                bad('single-shape', '%s of one point has shape %s / %s / %s' % (name, np.shape(one), np.shape(lst), np.shape(n1)))
            elif max(worst(one - arr[k]), worst(lst - arr[k]), worst(np.reshape(n1, arr.shape[1:]) - arr[k])) > 1e-12 * sc:
                bad('single-vs-array', '%s of a single point differs from the row of the array result' % name,
                    err=worst(one - arr[k]))
    for name, fn, arr, sc in (('displacement', sol.displacement, u, us), ('strain', sol.strain, eps, es), ('stress', sol.stress, sig, ss)):
        n3 = fn(P[4:7])
        if np.shape(n3) != (3,) + arr.shape[1:] or worst(n3 - arr[4:7]) > 1e-12 * sc:
            bad('N3-array', '%s of a (3,3) position array is not the 3 rows' % name, shape=np.shape(n3))

    # no dependence on the coordinate along the line
    for a, sc, name in ((u, us, 'displacement'), (eps, es, 'strain'), (sig, ss, 'stress')):
        for zi in range(1, len(ZS)):
            if worst(a[zi * NPZ0:(zi + 1) * NPZ0] - a[:NPZ0]) > 1e-12 * sc:
                bad('depends-on-z', '%s changes along the dislocation line' % name)

    # stress = C : strain
    hooke = np.einsum('ijkl,nkl->nij', C4, eps)
    err = worst((sig - hooke) * r[:, None, None])
    if err > alg * ss:
        bad('stress-vs-C-strain', 'stress differs from C:strain (C rotated independently)', err=err)

    # strain = symmetric gradient of displacement; div stress = 0   (central differences, h = 1e-5 r)
    h = 1e-5 * r
    st = P[:, None, None, :] + (np.array([-1.0, 1.0])[None, None, :, None] * h[:, None, None, None]) * np.eye(3)[None, :, None, :]
    ust = np.asarray(sol.displacement(st.reshape(-1, 3))).reshape(NP_, 3, 2, 3)
    grad = np.transpose((ust[:, :, 1, :] - ust[:, :, 0, :]) / (2 * h[:, None, None]), (0, 2, 1))     # grad[n,i,j] = du_i/dx_j
    err = worst(eps - 0.5 * (grad + np.transpose(grad, (0, 2, 1))))
    if err > 1e-7 * max(1.0, bs):
        bad('strain-vs-grad-u', 'strain is not the symmetric gradient of displacement', err=err)
    sst = np.asarray(sol.stress(st.reshape(-1, 3))).reshape(NP_, 3, 2, 3, 3)
    dsig = (sst[:, :, 1] - sst[:, :, 0]) / (2 * h[:, None, None, None])       # dsig[n,j,i,k] = d sigma_ik / dx_j
    div = np.einsum('njij->ni', dsig)
    err = worst(div)
    if err > 1e-7 * max(1.0, ss):
        bad('div-stress', 'stress is not divergence free', err=err)
    chk.note('points', 2 * 6 * NP_)

    # homogeneity
    u2, eps2, sig2 = sol.displacement(2 * P), sol.strain(2 * P), sol.stress(2 * P)
    if worst((2 * eps2 - eps) * r[:, None, None]) > 1e-12 * es or worst((2 * sig2 - sig) * r[:, None, None]) > 1e-12 * ss:
        bad('falloff-2p', 'strain/stress at 2p is not half of the value at p')
    du = u2 - u
    if worst(du - du[0]) > 1e-10 * us:
        bad('u-not-log', 'u(2p)-u(p) is not a constant vector')
    nth = len(THS)
    re = (eps * r[:, None, None]).reshape(len(ZS), len(RS), nth, 3, 3)
    rs_ = (sig * r[:, None, None]).reshape(len(ZS), len(RS), nth, 3, 3)
    if worst(re - re[:, :1]) > 1e-10 * es or worst(rs_ - rs_[:, :1]) > 1e-10 * ss:
        bad('falloff-1/r', 'r*strain or r*stress depends on r')
    chk.note('points', 3 * NP_)

    # jump across the cut, continuity elsewhere
    rz = np.array([(rr, z) for z in ZS for rr in RS])
    for name, dirv, offv, expect in (('-m', -m, n, b), ('+m', m, n, 0 * b), ('+n', n, m, 0 * b), ('-n', -n, m, 0 * b)):
        base = rz[:, :1] * dirv + rz[:, 1:] * xi
        up, dn = np.asarray(sol.displacement(base + EPS * offv)), np.asarray(sol.displacement(base - EPS * offv))
        jump = up - dn
        err = worst(jump - expect)
        if name != '-m':
            # exactly on the half plane (x == 0 or y == 0 for Cartesian m, n): the value is the common limit
            err = max(err, worst(np.asarray(sol.displacement(base)) - up))
        if err > 2e-8 * bs:
            if name == '-m':
                bad('burgers-jump', 'displacement jump across the cut half plane (-m axis) is not the Burgers vector',
                    observed=jump[0], expected=b)
            else:
                bad('discontinuous' + name, 'displacement is discontinuous across the %s half plane' % name, observed=jump[0])
    chk.note('points', 11 * len(rz))

    # traction ahead of the line on the slip plane
    ahead = rz[:, :1] * m + rz[:, 1:] * xi
    trac = np.einsum('nij,j->ni', np.asarray(sol.stress(ahead)), n) * (2 * np.pi * rz[:, :1])
    if worst(trac - K @ b) > 3e-8 * ss:
        bad('traction-vs-K', 'sigma(x m).n differs from K_tensor.b/(2 pi x)', observed=trac[0], expected=K @ b)
    if worst(trac - Kref @ b) > ktol * ss:
        bad('traction-vs-Kintegral', 'sigma(x m).n differs from K.b/(2 pi x) with the integral-formalism K', observed=trac[0], expected=Kref @ b)

    # ring: no net force, energy per ln(R)
    t = 2 * np.pi * np.arange(NRING) / NRING
    for rr in (1.3,):
        ring = rr * (np.cos(t)[:, None] * m + np.sin(t)[:, None] * n)
        sr, er = np.asarray(sol.stress(ring)), np.asarray(sol.strain(ring))
        force = np.einsum('nij,nj->i', sr, ring / rr) * (2 * np.pi * rr / NRING)
        if worst(force) > 1e-10 * ss:
            bad('net-force', 'net force on a circuit around the line is not zero (line-force admixture)', observed=force)
        energy = 0.5 * np.einsum('nij,nij->', sr, er) * (2 * np.pi * rr * rr / NRING)
        if abs(energy - bKb / (4 * np.pi)) > (1e-6 if wide else 1e-9) * ss * bs or abs(energy - sol.preln) > 1e-7 * ss * bs:
            bad('energy-vs-preln', 'strain energy per unit ln(R) differs from preln = b.K.b/(4 pi)', observed=energy,
                expected=bKb / (4 * np.pi), preln=sol.preln)
    chk.note('points', NRING)
    return fails


def refused_ok(e):
    return sextic_gap(e['C4lab'], e['m'], e['n']) < 1e-3


# --------------------------------------------------------------------------
@chk.clause('fields')
def fields(case):
    iso = case['solver'] == 'iso'
    e = setup(case, iso)
    try:
        sol = solve(case['solver'], e)
    except ValueError as ex:
        if not iso and refused_ok(e):
            chk.note('refused-degenerate')
            return []
        return [Fail(key='refused', msg='solver refused a non-degenerate problem: %s' % ex)]
    chk.note('solved')
    fails = judge(sol, e)
    if iso:
        mu, nu = iso_mu_nu(e['C6'])
        # the polar grid plus points EXACTLY above / below the line (m-coordinate exactly 0 for Cartesian m, n) and
        # exactly on the +m half axis: special-cased branches of the angle computation
        PX0 = np.array([y * e['n'] + z * e['xi'] for y in (0.7, -0.7, 1.9, -1.9) for z in (0.0, 0.8)]
                       + [x * e['m'] + z * e['xi'] for x in (0.7, 1.9) for z in (0.0, 0.8)])
        P = np.vstack([lab_points(e, GRID), PX0])
        uc, ec, sc = closed_form_lab(e, mu, nu, P)
        u, eps, sig = sol.displacement(P), sol.strain(P), sol.stress(P)
        bs = np.linalg.norm(e['b_lab'])
        if worst(eps - ec) > 1e-12 * bs / min(RS) or worst(sig - sc) > 1e-12 * bs * mu * 4 / min(RS):
            fails.append(Fail(key='iso-closed-form', msg='isotropic strain/stress differ from the Hirth-Lothe closed form',
                              err_strain=worst(eps - ec), err_stress=worst(sig - sc)))
        if worst((u - u[0]) - (uc - uc[0])) > 1e-12 * bs * 10:
            fails.append(Fail(key='iso-closed-form-u', msg='isotropic displacement differs from the closed form by more than a constant',
                              err=worst((u - u[0]) - (uc - uc[0]))))
    return fails


ROTS = [rot([2, -1, 3], 67.0), np.array([[0.0, 0, 1], [1, 0, 0], [0, 1, 0]])]


def compare(tag, sa, sb, e, R, P, fails, wide=False):
    """fields of sb at R p must be the rotated fields of sa at p"""
    ftol, ktol = (1e-6, 1e-6) if wide else (1e-9, 3e-8)
    bs = np.linalg.norm(e['b_lab'])
    cs = np.abs(e['C4lab']).max()
    Pb = P @ R.T
    rmin = min(RS)
    for name, fa, fb, rank, sc in (('displacement', sa.displacement, sb.displacement, 1, bs * 3),
                                   ('strain', sa.strain, sb.strain, 2, bs / rmin), ('stress', sa.stress, sb.stress, 2, bs * cs / rmin)):
        a, b_ = np.asarray(fa(P)), np.asarray(fb(Pb))
        a = a @ R.T if rank == 1 else np.einsum('ia,jb,nab->nij', R, R, a)
        if a.shape != b_.shape or worst(a - b_) > ftol * sc:
            fails.append(Fail(key=tag + '-' + name, msg='%s not covariant (%s)' % (name, tag), err=worst(a - b_) if a.shape == b_.shape else None))
    Ka, Kb = sa.K_tensor, sb.K_tensor
    if worst(R @ Ka @ R.T - Kb) > ktol * np.abs(Ka).max():
        fails.append(Fail(key=tag + '-K', msg='K_tensor not covariant (%s)' % tag, observed=Kb, expected=R @ Ka @ R.T))


@chk.clause('covar')
def covar(case):
    iso = case['solver'] == 'iso'
    e = setup(case, iso)
    cls = IsotropicVolterraDislocation if iso else Stroh
    try:
        s0 = solve(case['solver'], e)
    except ValueError:
        if not iso and refused_ok(e):
            chk.note('refused-degenerate')
            return []
        raise
    fails = []
    P = lab_points(e, GRID)
    # (a) the pre-rotated problem: C and b rotated by the checker, no transform
    C6lab = full_to_voigt(e['C4lab'])
    sa = cls(am.ElasticConstants(Cij=C6lab), e['b_lab'], m=e['kw']['m'], n=e['kw']['n'])
    wide0 = near_threshold(e['C4lab'])
    compare('transform-vs-prerotated', s0, sa, e, np.eye(3), P, fails, wide0)
    # (b) the whole problem rotated by R
    for k, R in enumerate(ROTS):
        sb = cls(am.ElasticConstants(Cij=e['C6'].copy()), e['b_cart'], transform=R @ e['Texp'], m=R @ e['m'], n=R @ e['n'])
        wide = wide0 or near_threshold(rotate_full(voigt_to_full(e['C6']), R @ e['Texp']))
        if wide:
            chk.note('covar-comparisons-widened-to-1e-6')
        compare('rotate-all-%d' % k, s0, sb, e, R, P, fails, wide)
    chk.note('solved', 4)
    chk.note('points', 4 * 3 * NP_)
    return fails


@chk.clause('auto')
def auto(case):
    """solve_volterra_dislocation: Stroh where it is accepted, the isotropic class for isotropic C"""
    want_iso = case['mat'] in ISO_IDS
    e = setup(case, want_iso)
    try:
        sol = solve('auto', e)
    except ValueError as ex:
        if not want_iso and refused_ok(e):
            chk.note('refused-degenerate')
            return []
        return [Fail(key='refused', msg='solve_volterra_dislocation refused a valid problem: %s' % ex)]
    want = IsotropicVolterraDislocation if want_iso else Stroh
    if type(sol) is not want:
        return [Fail(key='dispatch', msg='solve_volterra_dislocation returned %s for %s' % (type(sol).__name__, MATS[case['mat']][0]))]
    ref = solve('iso' if want_iso else 'stroh', e)
    fails = []
    compare('auto-vs-class', ref, sol, e, np.eye(3), lab_points(e, GRID), fails)      # same medium twice: no widening
    chk.note('solved', 2)
    chk.note('points', 2 * 3 * NP_)
    return fails


CART6 = [('x', 'y'), ('y', 'z'), ('z', 'x'), ('y', 'x'), ('x', 'z'), ('z', 'y')]


@chk.clause('mnforms')
def mnforms(case):
    """the four spellings (str/str, array/array, str/array, array/str) of a Cartesian (m,n) give one solution"""
    C6 = MATS[case['mat']][1]
    iso = case['mat'] in ISO_IDS
    cls = IsotropicVolterraDislocation if iso else Stroh
    ms, ns = CART6[case['pair']]
    T = unit_rows(ORIENT[case['ori']][2])
    comp = BURG[case['b']][1]
    m, n = AX[ms], AX[ns]
    b_lab = comp[0] * m + comp[1] * n + comp[2] * np.cross(m, n)
    e = dict(m=m, n=n, xi=np.cross(m, n), b_lab=b_lab, C4lab=rotate_full(voigt_to_full(C6), T))
    P = lab_points(e, GRID)
    sols = []
    try:
        for fm, fn in ((ms, ns), (m.copy(), n.copy()), (ms, n.tolist()), (tuple(m), ns)):
            sols.append(cls(am.ElasticConstants(Cij=C6.copy()), T.T @ b_lab, transform=T, m=fm, n=fn, cart_axes=True))
    except ValueError:
        if not iso and refused_ok(e):
            chk.note('refused-degenerate')
            return []
        raise
    fails = []
    for k in range(1, 4):
        compare('form%d' % k, sols[0], sols[k], e, np.eye(3), P, fails)
    chk.note('solved', 4)
    chk.note('points', 4 * 3 * NP_)
    return fails


@chk.clause('limit')
def limit(case):
    """Stroh on cubic A = 1+delta against the closed-form isotropic solution of the A = 1 medium"""
    e = setup(case, True)
    d = abs(DELTAS[case['mat'] - NANISO])
    sol = solve('stroh', e)
    mu, nu = iso_mu_nu(cubic(*ISO_BASE))
    P = lab_points(e, GRID)
    uc, ec, sc = closed_form_lab(e, mu, nu, P)
    r = GRID[:, 0][:, None, None]
    fails = []
    for name, a, c in (('strain', sol.strain(P), ec), ('stress', sol.stress(P), sc)):
        ratio = worst((a - c) * r) / (d * worst(c * r))
        if ratio > 2.0:
            fails.append(Fail(key='limit-' + name, msg='Stroh %s does not approach the isotropic closed form: error/(|A-1| max) = %.3g' % (name, ratio),
                              delta=d))
    u = sol.displacement(P)
    ratio = worst((u - u[0]) - (uc - uc[0])) / (d * worst(uc - uc[0]))
    if ratio > 2.0:
        fails.append(Fail(key='limit-displacement', msg='Stroh displacement does not approach the closed form: ratio %.3g' % ratio, delta=d))
    # the isotropic class on the A=1 medium is the same closed form (fallback target of solve_volterra_dislocation)
    chk.note('solved')
    chk.note('points', 3 * NP_)
    return fails


@chk.clause('neardeg')
def neardeg(case):
    """cubic A = 1+delta with |delta| down to 1e-13, through Stroh and through solve_volterra_dislocation: a refusal is
    accepted (documented: Stroh raises for degenerate roots and the dispatcher then needs exactly isotropic constants),
    an accepted problem is judged against the closed form of the A = 1 medium with relative error 2 max(|delta|, 1e-6)
    and has to carry the Burgers vector across the cut"""
    e = setup(case, True)
    d = max(abs(NEAR_DELTAS[NEAR_IDS.index(case['mat'])]), 1e-6)
    try:
        sol = solve(case['solver'], e)
    except ValueError:
        chk.note('neardeg-refused-' + case['solver'])
        return []
    chk.note('neardeg-accepted-' + type(sol).__name__)
    chk.note('solved')
    mu, nu = iso_mu_nu(cubic(*ISO_BASE))
    P = lab_points(e, GRID)
    uc, ec, sc = closed_form_lab(e, mu, nu, P)
    r = GRID[:, 0][:, None, None]
    fails = []
    for name, a, c in (('strain', sol.strain(P), ec), ('stress', sol.stress(P), sc)):
        ratio = worst((a - c) * r) / (d * worst(c * r))
        if not ratio <= 2.0:
            fails.append(Fail(key='neardeg-' + name, msg='%s of the accepted nearly isotropic problem differs from the isotropic closed form: '
                              'error/(max(|A-1|,1e-6) max) = %.3g' % (name, ratio), delta=d))
    u = sol.displacement(P)
    ratio = worst((u - u[0]) - (uc - uc[0])) / (d * worst(uc - uc[0]))
    if not ratio <= 2.0:
        fails.append(Fail(key='neardeg-displacement', msg='displacement of the accepted nearly isotropic problem differs from the closed form: ratio %.3g' % ratio, delta=d))
    # jump across the cut half-plane (-m side): u(just above) - u(just below) = b
    bs = np.linalg.norm(e['b_lab'])
    base = -np.array(RS)[:, None] * e['m']
    jump = np.asarray(sol.displacement(base + EPS * e['n'])) - np.asarray(sol.displacement(base - EPS * e['n']))
    if not worst(jump - e['b_lab']) <= 1e-6 * bs:
        fails.append(Fail(key='neardeg-jump', msg='displacement jump across the cut half plane of the accepted nearly isotropic problem is not '
                          'the Burgers vector', observed=jump[0], expected=e['b_lab']))
    # energy coefficient tensor: diag(mu/(1-nu), mu/(1-nu), mu) in the (m, n, xi) frame
    K = np.asarray(sol.K_tensor)
    B = np.array([e['m'], e['n'], e['xi']])
    Kexp = B.T @ np.diag([mu / (1 - nu), mu / (1 - nu), mu]) @ B
    if not worst(K - Kexp) <= 2 * d * mu / (1 - nu):
        fails.append(Fail(key='neardeg-K', msg='K_tensor of the accepted nearly isotropic problem differs from the isotropic one by %.3g' % worst(K - Kexp),
                          observed=K, expected=Kexp))
    chk.note('points', 3 * NP_)
    return fails


# --------------------------------------------------------------------------
# linearity in the Burgers vector: the statement quantifies over ALL Burgers vectors, so a vector given in metres
# (1e-10) or in a huge unit must give the same solution scaled.  u, strain, stress are linear in b, preln quadratic,
# K_tensor independent.

SCALES = [1e-10, 1e-5, 1e7]


@chk.clause('scale')
def scale(case):
    iso = case['solver'] == 'iso'
    e = setup(case, iso)
    try:
        s1 = solve(case['solver'], e)
    except ValueError:
        return []
    P = lab_points(e, GRID[:NPZ0:5])
    u1, e1, g1 = s1.displacement(P), s1.strain(P), s1.stress(P)
    fails = []
    for lam in SCALES:
        e2 = dict(e)
        e2['b_in'] = np.asarray(e['b_in'], dtype=float) * lam
        s2 = solve(case['solver'], e2)
        chk.note('scaled-solutions')
        if worst(s2.burgers - lam * s1.burgers) > 1e-12 * lam * np.abs(s1.burgers).max():
            fails.append(Fail(key='scale-burgers', msg='.burgers of the problem with b*%g is not %g * .burgers' % (lam, lam),
                              observed=s2.burgers, expected=lam * s1.burgers))
            continue
        for name, a, b in (('displacement', s2.displacement(P), u1), ('strain', s2.strain(P), e1), ('stress', s2.stress(P), g1)):
            if worst(a - lam * b) > 1e-11 * lam * max(worst(b), 1e-300):
                fails.append(Fail(key='scale-' + name, msg='%s is not linear in the Burgers vector (b scaled by %g)' % (name, lam),
                                  err=worst(a - lam * b) / lam))
        if worst(s2.K_tensor - s1.K_tensor) > 1e-12 * worst(s1.K_tensor):
            fails.append(Fail(key='scale-K', msg='K_tensor depends on the length of the Burgers vector (b scaled by %g)' % lam))
        if abs(s2.preln - lam * lam * s1.preln) > 1e-11 * lam * lam * abs(s1.preln):
            fails.append(Fail(key='scale-preln', msg='preln is not quadratic in the Burgers vector (b scaled by %g)' % lam))
        if fails:
            break
    return fails


# --------------------------------------------------------------------------
# explicit-state search over ONE live solution object: solve() may be called again on an existing object
# (documented public method).  State = (problem last solved, byte-exact internal state of the real object); ops =
# solve(problem j) for a menu of problems and reads of every observable; oracle = a fresh object built for the
# problem last solved (the fresh-object values themselves are judged by the `fields` clause).

LIVE = [{'mat': 0, 'ori': 0, 'b': 2, 'mn': 0}, {'mat': 3, 'ori': 2, 'b': 1, 'mn': 1}, {'mat': 0, 'ori': 2, 'b': 0, 'mn': 4}]
LIVE_ISO = [{'mat': ISO_IDS[0], 'ori': 0, 'b': 2, 'mn': 0}, {'mat': ISO_IDS[1], 'ori': 2, 'b': 1, 'mn': 1}, {'mat': ISO_IDS[0], 'ori': 2, 'b': 0, 'mn': 4}]
LIVE_READS = ['K_tensor', 'K_coeff', 'preln', 'burgers', 'transform', 'C', 'displacement', 'strain', 'stress', 'characterangle']
_LIVE_P = None


def _live_menu(kind):
    return LIVE_ISO if kind == 'iso' else LIVE


def _read(sol, what, e):
    P = lab_points(e, GRID[:NPZ0:7])
    if what in ('displacement', 'strain', 'stress'):
        return np.asarray(getattr(sol, what)(P))
    if what == 'characterangle':
        return np.asarray(sol.characterangle())
    if what == 'C':
        return np.asarray(sol.C.Cij)
    return np.asarray(getattr(sol, what))


def _dump(o, depth=0):
    if isinstance(o, np.ndarray):
        return [str(o.dtype), list(o.shape), o.tobytes().hex()]
    if hasattr(o, '__dict__') and depth < 3:
        return {k: _dump(v, depth + 1) for k, v in sorted(vars(o).items())}
    return repr(o)


def make_live(kind):
    menu = _live_menu(kind)
    cache = {}

    def env(j):
        if j not in cache:
            cache[j] = setup(dict(menu[j], solver=kind), kind == 'iso')
        return cache[j]

    def build(history):
        sol = solve(kind, env(0))
        cur = 0
        fails = []
        for step, op in enumerate(history):
            if op['op'] == 'solve':
                e = env(op['j'])
                sol.solve(am.ElasticConstants(Cij=e['C6'].copy()), e['b_in'], **e['kw'])
                cur = op['j']
            else:
                got = _read(sol, op['what'], env(cur))
                exp = _read(solve(kind, env(cur)), op['what'], env(cur))
                if got.shape != exp.shape or worst(got - exp) > 1e-12 * max(worst(exp), 1e-300):
                    fails.append(Fail(key='%s-live-%s' % (kind, op['what']),
                                      msg='%s read from a re-solved object differs from a fresh object for the same problem; history %s'
                                      % (op['what'], [h['op'] + str(h.get('j', h.get('what'))) for h in history[:step + 1]])))
        return {'sol': sol, 'cur': cur, 'fails': fails}

    def ops(state):
        return [{'op': 'solve', 'j': j} for j in range(len(menu))] + [{'op': 'read', 'what': w} for w in LIVE_READS]

    def check(history, state):
        if state['fails']:
            return state['fails']
        import copy
        sol = copy.deepcopy(state['sol'])
        e = env(state['cur'])
        fresh = solve(kind, e)
        for w in LIVE_READS + LIVE_READS[::-1]:
            got, exp = _read(sol, w, e), _read(fresh, w, e)
            if got.shape != exp.shape or worst(got - exp) > 1e-12 * max(worst(exp), 1e-300):
                return [Fail(key='%s-live-state-%s' % (kind, w), msg='in the state reached by %s, %s differs from a fresh object for problem %d'
                             % ([h['op'] + str(h.get('j', h.get('what'))) for h in history], w, state['cur']))]
        return []

    def canon(state):
        return digest([state['cur'], _dump(state['sol'])])

    return build, ops, check, canon

def gen():
    nori = len(ORIENT)
    for mi in STROH_IDS + ISO_IDS:
        iso = mi in ISO_IDS
        solver = 'iso' if iso else 'stroh'
        for oi in range(nori):
            for bi in range(nburg(oi, iso)):
                if iso and ORIENT[oi][0] == 'M' and _miller_b_out_of_plane(oi, bi):
                    continue          # isotropic solver: Burgers vector in the slip plane (quantifier)
                for ki in range(len(MN)):
                    case = {'solver': solver, 'mat': mi, 'ori': oi, 'b': bi, 'mn': ki}
                    yield 'fields', case
                    if ORIENT[oi][0] == 'T' and ki in (0, 4):
                        for bx in (1, 2):
                            yield 'fields', dict(case, box=bx)
                    yield 'covar', case
                    if ki in (0, 3, 7) or THOROUGH:
                        yield 'scale', case
                    if ki in (0, 6):
                        yield 'auto', {'mat': mi, 'ori': oi, 'b': bi, 'mn': ki}
    for mi in STROH_IDS + ISO_IDS:
        for oi in range(NT):
            for bi in BURG_INPLANE:
                for pi in range(len(CART6)):
                    yield 'mnforms', {'mat': mi, 'ori': oi, 'b': bi, 'pair': pi}
    for mi in range(NANISO, NSTROH):
        for oi in range(nori):
            for bi in range(nburg(oi, True)):
                if ORIENT[oi][0] == 'M' and _miller_b_out_of_plane(oi, bi):
                    continue
                for ki in range(len(MN)):
                    yield 'limit', {'mat': mi, 'ori': oi, 'b': bi, 'mn': ki}


def gen_neardeg():
    for mi in NEAR_IDS:
        for oi in range(len(ORIENT)):
            for bi in range(nburg(oi, True)):
                if ORIENT[oi][0] == 'M' and _miller_b_out_of_plane(oi, bi):
                    continue
                for ki in ((0, 1, 4) if not THOROUGH else range(len(MN))):
                    for solver in ('stroh', 'auto'):
                        yield 'neardeg', {'solver': solver, 'mat': mi, 'ori': oi, 'b': bi, 'mn': ki}


def _miller_b_out_of_plane(oi, bi):
    o = ORIENT[oi]
    n_c = p4to3(o[3]) @ np.linalg.inv(o[1]).T
    return abs(n_c @ (v4to3(o[4][bi]) @ o[1])) > 1e-9


@chk.clause('miller-transform')
def miller_transform(case):
    """dislocation_system_transform == independent Miller construction"""
    e = setup(case)
    kw = e['kw']
    T = dislocation_system_transform(kw['ξ_uvw'], kw['slip_hkl'], m=e['m'], n=e['n'], box=kw['box'])
    fails = []
    if worst(T - e['Texp']) > 1e-12:
        fails.append(Fail(key='value', msg='dislocation_system_transform differs from [m n xi].[m_c; n_c; xi_c]', observed=T, expected=e['Texp']))
    if worst(T @ T.T - np.eye(3)) > 1e-12 or abs(np.linalg.det(T) - 1) > 1e-12:
        fails.append(Fail(key='not-rotation', msg='dislocation_system_transform is not a proper rotation'))
    return fails


def gen_all():
    yield from gen()
    yield from gen_neardeg()
    for oi in range(len(ORIENT)):
        if ORIENT[oi][0] == 'M':
            for ki in range(len(MN)):
                yield 'miller-transform', {'mat': 0, 'ori': oi, 'b': 0, 'mn': ki}


if __name__ == '__main__':
    live_cov = {}
    for kind in ('stroh', 'iso'):
        b_, o_, c_, k_ = make_live(kind)
        live_cov[kind] = Explorer(chk, 'live-' + kind, b_, o_, c_, k_, max_depth=4 if THOROUGH else 3).run()
    chk.run_cases(gen_all(), batch=4)
    cov = {'live_states': sum(v['states'] for v in live_cov.values()),
           'live_transitions': sum(v['transitions'] for v in live_cov.values()),
           'live_max_depth_completed': min(v['max_depth_completed'] for v in live_cov.values()),
           'evaluations': chk.notes.get('points', 0),
           'distinct_nontrivial': chk.notes.get('solved', 0),
           'cases': sum(chk.counts.values()),
           'refused_degenerate': chk.notes.get('refused-degenerate', 0)}
    sys.exit(chk.finish(cov))
