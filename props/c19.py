"""C19 - atomman.lammps.Log reads a LAMMPS log back run by run, column by column, value by value.

Three parts, all complete enumerations:

 crash    independent log generator (props/c19_loggen.py: banner x blocks x thermo keyword sets x step-range
          relation x timing breakdown x filler) x EVERY crash point of the last block (after the memory banner, after
          the column header, after every row, inside a row at every character, after the 'Loop time' line, after every
          later line, complete, complete without final newline), each text given as str, as file path and as
          binary stream; oracle = the printed tokens: a completely printed token comes back as a number equal to it,
          a cell the crash left unprinted as NaN, a non-numeric fragment of a number ("5.6e-") as NaN or as itself.
          (Quick tier: mid-row cuts of the last row only, runs of blanks represented by their first and last
          position; thorough: every character of every row.)
 inputs   every way of handing a complete log over (str, bytes-free path str, pathlib.Path, BytesIO, open 'rb'
          file) gives the same records.
 history  explicit-state BFS over Log() / Log(x) / read(x) / read(x, append=True) / read(x, append=False) on a menu
          of logs (complete, continuing, crashed) against a list-of-tables model.

In every state: one record per block in order, printed column names, printed values row for row, version string and
date, flatten('first'|'last'|'all').
"""
import atexit
import datetime
import io
import math
import os
import pathlib
import shutil
import sys
import tempfile

from mc.common import Check, Explorer, Fail, SEED, THOROUGH, assert_overlay
from props import c19_loggen as G

am = assert_overlay()
import pandas as pd  # noqa: E402
Log = am.lammps.Log

chk = Check('C19', 'model_checking',
            'crash-point enumeration: full product of log shapes (2 memory banners x 1-3 run/minimize blocks x 4 thermo '
            'keyword modes with int and float columns x {boundary-sharing, disjoint, overlapping-tail} step ranges x '
            'timing breakdown {table, none(timer off), pre-2015 lines} x {plain, rich} command echo) x every '
            'line-boundary cut of the last block + character cuts inside its rows (thorough: every character of every '
            'row; quick: last row, every character inside a token and the first and last blank of every gap), read as '
            'str / path / stream (quick: mid-row, loop and post cuts rotate through the three kinds, flatten is compared '
            'once per text); plus BFS over histories of Log()/Log(x)/read(x)/read(x,append=True|False) on a menu of logs with '
            'dedup on the model state (sequence of logs read since the last reset). A crash case is one (shape, cut '
            'class); evaluations = log texts read; non-trivial = texts whose last table has at least one row')
chk.assumptions = [
    'value tolerance 1e-13 relative for float tokens (pandas default C float parser: <= ~6 roundings of 1.1e-16), '
    'exact for integer tokens',
    'a cell whose printed token is a non-numeric fragment of a number cut by the crash (e.g. "-", "5.6e-") may be '
    'returned as that string or as NaN; cells the crash left unprinted must be NaN; every completely printed token '
    '(also in the column that holds a fragment) must come back as a number, not as a string',
    'columns printed only by runs that crashed before their first thermo line may or may not appear in a flattened table',
    'after the cut right behind the memory banner (no header printed) the crashed run may be absent or have an empty '
    'thermo; all earlier runs must be present',
    'flatten first/last is compared only when every run starts and ends no earlier than the previous one and both print '
    'the same steps inside an overlap (backward reset_timestep and interleaved thermo grids are outside the quantifier); '
    'row order of flatten first/last is not constrained, of flatten all it is',
    'after appending a log of another LAMMPS version the reported version must be that of one of the logs read since '
    'the last reset (first-wins is not demanded)']

SALT = SEED % 8
NROWS = 3 if not THOROUGH else 4
SHAPES = G.shape_space()
CLASSES = ['after-banner', 'after-header', 'row', 'midrow', 'loop', 'post', 'complete']

_TMP = {}


def tmpdir():
    """per-process scratch directory (removed at exit of the creating process; forked workers get their own)"""
    pid = os.getpid()
    if _TMP.get('pid') != pid:
        d = tempfile.mkdtemp(prefix='c19_%d_' % pid)
        _TMP['pid'], _TMP['dir'], _TMP['n'] = pid, d, 0
        if hasattr(os, 'register_at_fork') and not _TMP.get('hooked'):
            _TMP['hooked'] = True
    return _TMP['dir']


def _cleanup_all():
    # workers leave through os._exit; remove every c19_* directory we own by prefix of this run
    base = tempfile.gettempdir()
    for n in os.listdir(base):
        if n.startswith('c19_'):
            try:
                pid = int(n.split('_')[1])
            except ValueError:
                continue
            if pid == os.getpid() or not os.path.exists('/proc/%d' % pid):
                shutil.rmtree(os.path.join(base, n), ignore_errors=True)


atexit.register(_cleanup_all)


def write_tmp(text):
    d = tmpdir()
    _TMP['n'] += 1
    p = os.path.join(d, 'log%d.lammps' % (_TMP['n'] % 64))
    with open(p, 'wb') as f:
        f.write(text.encode())
    return p


def give(text, kind):
    """-> (argument for Log/read, closer)"""
    if kind == 'text':
        return text, None
    if kind == 'path':
        return write_tmp(text), None
    if kind == 'Path':
        return pathlib.Path(write_tmp(text)), None
    if kind == 'stream':
        return io.BytesIO(text.encode()), None
    if kind == 'file':
        f = open(write_tmp(text), 'rb')
        return f, f.close
    raise KeyError(kind)


# ----------------------------------------------------------------------------- oracle

def is_int_token(t):
    return t.lstrip('+-').isdigit()


def isnan(x):
    try:
        return bool(pd.isna(x))
    except (TypeError, ValueError):
        return False


def cell_ok(cell, tok):
    """does the cell of the returned table carry the printed token?"""
    if tok is None:                      # nothing was printed for this cell
        return isnan(cell)
    try:
        ref = float(tok)
    except ValueError:                   # fragment of a number cut by the crash
        return (isinstance(cell, str) and cell == tok) or isnan(cell)
    if isinstance(cell, (str, bytes, bool)):   # a completely printed number must come back as a number
        return False
    try:
        val = float(cell)
    except (TypeError, ValueError):
        return False
    if math.isnan(val):
        return False
    if is_int_token(tok) or ref == 0.0:
        return val == ref
    return abs(val - ref) <= 1e-13 * abs(ref)


def pad(row, n):
    return list(row) + [None] * (n - len(row))


def compare_table(df, table, tag):
    """thermo DataFrame against {'cols', 'rows'}"""
    if not isinstance(df, pd.DataFrame):
        return [Fail(key='thermo-type:' + tag, msg='thermo is %s, not a DataFrame' % type(df).__name__)]
    cols = table['cols']
    if list(df.columns) != cols:
        return [Fail(key='columns:' + tag, msg='column names differ from the printed header',
                     observed=list(map(str, df.columns)), expected=cols)]
    if len(df) != len(table['rows']):
        return [Fail(key='nrows:' + tag, msg='%d rows read, %d printed' % (len(df), len(table['rows'])))]
    data = [df[c].tolist() for c in cols]
    for r, row in enumerate(table['rows']):
        row = pad(row, len(cols))
        for c, tok in enumerate(row):
            if not cell_ok(data[c][r], tok):
                return [Fail(key='values:' + tag, msg='row %d column %s: read %r, printed %r' % (r, cols[c], data[c][r], tok))]
    return []


def _no_table(sim):
    t = sim.thermo
    return t is None or (len(t) == 0 and len(t.columns) == 0)


def compare_records(log, tables, tag):
    """tables: model tables in order; a None entry stands for a run that crashed right behind its memory banner
    (nothing of its table printed): its record may be absent or carry no table"""
    sims = list(log.simulations)
    i = 0
    for tb in tables:
        if tb is None:
            if i < len(sims) and _no_table(sims[i]):
                i += 1
            continue
        if i >= len(sims):
            return [Fail(key='nrecords:' + tag, msg='%d simulation records for %d printed run/minimize blocks' % (
                len(sims), len([t for t in tables if t is not None])))]
        f = compare_table(sims[i].thermo, tb, tag)
        if f:
            f[0]['msg'] = 'record %d: ' % i + f[0]['msg']
            return f
        i += 1
    if i != len(sims):
        return [Fail(key='nrecords:' + tag, msg='%d simulation records for %d printed run/minimize blocks' % (
            len(sims), len([t for t in tables if t is not None])))]
    return []


def compare_version(log, versions, tag):
    """versions: list of (string, (y,m,d)) acceptable"""
    if not versions:
        if log.lammps_version is not None or log.lammps_date is not None:
            return [Fail(key='version:' + tag, msg='version %r reported although nothing was read' % (log.lammps_version,))]
        return []
    for v, d in versions:
        if log.lammps_version == v:
            if log.lammps_date != datetime.date(*d):
                return [Fail(key='date:' + tag, msg='date %r for version %r' % (log.lammps_date, v))]
            return []
    return [Fail(key='version:' + tag, msg='lammps_version %r, printed %r' % (log.lammps_version, [v for v, _ in versions]))]


def steps_of(table):
    """integer steps of a model table, None when a printed step is not a complete integer"""
    out = []
    for row in table['rows']:
        if not row or not is_int_token(row[0]):
            return None
        out.append(int(row[0]))
    return out


def flatten_scope(tables):
    """the flatten clauses apply: steps strictly increase inside a run, a later run starts and ends no earlier than
    the previous non-empty one, and inside an overlap both print the same steps"""
    prev = None
    for tb in tables:
        if tb['cols'][0] != 'Step':
            return False
        st = steps_of(tb)
        if st is None:
            return False
        if not st:
            continue
        if any(b <= a for a, b in zip(st, st[1:])):
            return False
        if prev is not None:
            if st[0] < prev[0] or st[-1] < prev[-1]:
                return False
            if set(s for s in st if s <= prev[-1]) != set(s for s in prev if s >= st[0]):
                return False
            prev = sorted(set(prev) | set(st))
        else:
            prev = st
    return True


def model_flatten(tables, style):
    cols = []
    for tb in tables:
        for c in tb['cols']:
            if c not in cols:
                cols.append(c)
    rows = []   # (step, dict col -> token)
    for tb in tables:
        for row in tb['rows']:
            rows.append((int(row[0]), dict(zip(tb['cols'], pad(row, len(tb['cols']))))))
    if style == 'all':
        return cols, rows
    chosen = {}
    order = []
    for s, r in rows:
        if s not in chosen:
            order.append(s)
            chosen[s] = r
        elif style == 'last':
            chosen[s] = r
    return cols, [(s, chosen[s]) for s in order]


def compare_flatten(log, tables, tag, first=None, last=None):
    """flatten(style) for the three styles against the model"""
    fails = []
    tables = [t for t in tables if t is not None][first:last]
    if not tables:
        return fails
    if not flatten_scope(tables):
        chk.note('flatten-out-of-scope')
        return fails
    chk.note('flatten-compared')
    for style in ('first', 'last', 'all'):
        key = 'flatten-%s' % style
        try:
            if first is None and last is None:
                res = log.flatten(style) if style != 'last' or len(tables) % 2 else log.flatten()
            else:
                res = log.flatten(style, first, last)
                key += '-range'
            df = res.thermo
        except Exception as e:
            fails.append(Fail(key='%s-raises-%s:%s' % (key, type(e).__name__, tag), msg='flatten(%r) raised %s: %s' % (style, type(e).__name__, e)))
            continue
        cols, rows = model_flatten(tables, style)
        # columns printed only by runs that crashed before their first thermo line carry no value: optional
        optional = [c for c in cols if not any(c in tb['cols'] for tb in tables if tb['rows'])]
        cols = [c for c in cols if c not in optional]
        if (not isinstance(df, pd.DataFrame) or len(set(df.columns)) != len(df.columns)
                or sorted(c for c in map(str, df.columns) if c not in optional) != sorted(cols)):
            fails.append(Fail(key='%s-columns:%s' % (key, tag), msg='flattened columns %r, expected %r (optional %r)' % (
                list(getattr(df, 'columns', [])), cols, optional)))
            continue
        if not rows:                     # no run printed a thermo line: nothing to merge
            if len(df):
                fails.append(Fail(key='%s-steps:%s' % (key, tag), msg='flatten(%r) has %d rows, no thermo line was printed' % (style, len(df))))
            continue
        data = {c: df[c].tolist() for c in cols}
        got_steps = data['Step']
        if style == 'all':
            order = list(range(len(got_steps)))
            exp = rows
        else:
            try:
                order = sorted(range(len(got_steps)), key=lambda i: float(got_steps[i]))
            except (TypeError, ValueError):
                order = list(range(len(got_steps)))
            exp = sorted(rows, key=lambda sr: sr[0])
        ok = len(order) == len(exp) and all(cell_ok(got_steps[i], str(s)) for i, (s, _) in zip(order, exp))
        if not ok:
            fails.append(Fail(key='%s-steps:%s' % (key, tag), msg='flatten(%r) has steps %r, expected %r (each once, style %s)' % (
                style, [got_steps[i] for i in order], [s for s, _ in exp], style)))
            continue
        for i, (s, r) in zip(order, exp):
            bad = [c for c in cols if not cell_ok(data[c][i], r.get(c))]
            if bad:
                fails.append(Fail(key='%s-values:%s' % (key, tag), msg='flatten(%r) step %d column %s: %r, printed %r' % (
                    style, s, bad[0], data[bad[0]][i], r.get(bad[0]))))
                break
    return fails


def judge(log, model_tables, versions, tag, flatten=True):
    f = compare_records(log, model_tables, tag)
    f += compare_version(log, versions, tag)
    if not f and flatten:
        f += compare_flatten(log, model_tables, tag)
    return f


# ----------------------------------------------------------------------------- crash-point enumeration

def expected_tables(model, cls, nrows_kept, ptoks):
    """tables of a log cut in its last block"""
    tabs = [dict(cols=t['cols'], rows=[list(r) for r in t['rows']]) for t in model['tables']]
    last = tabs[-1]
    if cls == 'after-banner':
        return tabs[:-1] + [None]
    last['rows'] = last['rows'][:nrows_kept]
    if cls == 'midrow' and ptoks:
        last['rows'].append(list(ptoks))
    return tabs


@chk.clause('crash')
def crash(case):
    shape = SHAPES[case['shape']]
    cls = case['cls']
    lines, model = G.build(shape, nrows=NROWS, salt=SALT)
    fails, seen, nvar = [], set(), 0
    versions = [(model['version'], model['date'])]
    cuts = [c for c in G.cut_points(lines, midrows='all' if THOROUGH else 'last') if c[0] == cls]
    if cls == 'midrow' and not THOROUGH:
        # quick tier: every cut inside a token, and of each run of blanks only its first and its last position
        # (the cuts in between print the same tokens followed by blanks)
        def keep(cut):
            frag, full = cut[2], lines[cut[1]][0]
            return not (frag[-1] == ' ' and frag[-2:-1] == ' ' and full[len(frag):len(frag) + 1] == ' ')
        cuts = [c for c in cuts if keep(c)]
    variants = []
    for c, upto, tail, nk, ptoks in cuts:
        variants.append((c, G.text_of(lines, upto, tail), nk, ptoks))
        if c in ('row', 'complete'):     # the same cut with the final newline not yet flushed
            variants.append((c, G.text_of(lines, upto, tail)[:-1], nk, ptoks))
    for vi, (c, text, nk, ptoks) in enumerate(variants):
        exp = expected_tables(model, c, nk, ptoks)
        tag = 'trunc=' + c
        chk.note('log-texts')
        if exp and exp[-1] and exp[-1]['rows']:
            chk.note('log-texts-last-table-nonempty')
        if c == 'midrow' and ptoks:
            try:
                float(ptoks[-1])
            except ValueError:
                chk.note('midrow-nonnumeric-fragment')
        nvar += 1
        if THOROUGH or c in ('after-banner', 'after-header', 'row', 'complete'):
            kinds = ('text', 'path', 'stream')
        else:   # quick tier: loop/post/midrow cuts are read through one input kind each, rotating with the cut
            kinds = (('text', 'path', 'stream')[nvar % 3],)
        for ik, kind in enumerate(kinds):
            arg, closer = give(text, kind)
            try:
                try:
                    log = Log(arg)
                except Exception as e:
                    f = [Fail(key='read-raises-%s:%s' % (type(e).__name__, tag),
                              msg='Log(%s) raised %s: %s' % (kind, type(e).__name__, str(e)[:200]), shape=shape)]
                else:
                    # flatten works on the records, which were just compared with the printed tables: in the quick
                    # tier it is exercised through the first input kind of each text only, and for the cuts behind
                    # the 'Loop time' line (all of which leave the same tables as the 'loop' cut) for the first one
                    f = judge(log, exp, versions, tag, flatten=THOROUGH or (ik == 0 and (c != 'post' or vi == 0)))
                    if c == 'complete' and len(exp) >= 2 and not f and (THOROUGH or ik == 0):
                        f += compare_flatten(log, exp, tag, 1, None)
                        f += compare_flatten(log, exp, tag, 0, -1)
            finally:
                if closer:
                    closer()
            chk.note('reads')
            for x in f:
                if x['key'] not in seen:
                    seen.add(x['key'])
                    x['input'] = kind
                    x['text_tail'] = text[-160:]
                    fails.append(x)
    return fails


@chk.clause('inputs')
def inputs(case):
    shape = SHAPES[case['shape']]
    lines, model = G.build(shape, nrows=NROWS, salt=SALT)
    text = G.text_of(lines)
    versions = [(model['version'], model['date'])]
    fails = []
    for kind in ('text', 'path', 'Path', 'stream', 'file'):
        arg, closer = give(text, kind)
        try:
            # constructor and read() on an empty object are the same thing
            for how in ('ctor', 'read'):
                if kind in ('stream', 'file') and how == 'read':
                    arg.seek(0)
                try:
                    if how == 'ctor':
                        log = Log(arg)
                    else:
                        log = Log()
                        log.read(arg)
                except Exception as e:
                    fails.append(Fail(key='read-raises-%s:input=%s' % (type(e).__name__, kind),
                                      msg='%s with %s raised %s: %s' % (how, kind, type(e).__name__, str(e)[:200])))
                    break
                fails += judge(log, model['tables'], versions, 'input=' + kind, flatten=THOROUGH or how == 'ctor')
                chk.note('reads')
        finally:
            if closer:
                closer()
    # no log at all: zero-run log (banner and commands only)
    head = ''.join(t + '\n' for t, tag, b in lines if b == -1 and tag == 'pre')
    try:
        log = Log(head)
        fails += judge(log, [], versions, 'zero-runs')
    except Exception as e:
        fails.append(Fail(key='read-raises-%s:zero-runs' % type(e).__name__, msg='log without runs: %s' % e))
    out, seen = [], set()
    for f in fails:
        if f['key'] not in seen:
            seen.add(f['key'])
            out.append(f)
    return out


def gen():
    for si in range(len(SHAPES)):
        for cls in CLASSES:
            yield 'crash', {'shape': si, 'cls': cls}
        yield 'inputs', {'shape': si}


# ----------------------------------------------------------------------------- histories

def _hist_logs():
    """menu of logs for the history search: (name, text, model tables, version)"""
    out = []

    def mk(name, shape, start, salt, cut=None):
        lines, model = G.build(shape, nrows=3, salt=salt, start=start)
        tabs = model['tables']
        text = G.text_of(lines)
        if cut:
            for c, upto, tail, nk, ptoks in G.cut_points(lines):
                if (c, nk) == cut[:2] and (len(cut) < 3 or (ptoks is not None and len(ptoks) == cut[2])):
                    text = G.text_of(lines, upto, tail)
                    tabs = expected_tables(model, c, nk, ptoks)
                    break
            else:
                raise RuntimeError('no such cut %r' % (cut,))
        out.append(dict(name=name, text=text, tables=tabs, version=(model['version'], model['date'])))
        return lines, model

    A = dict(banner='new', nblocks=2, keymode=0, relation='boundary', timing='new', filler='plain')
    _, mA = mk('A', A, 0, SALT)
    endA = int(mA['tables'][-1]['rows'][-1][0])
    # B continues A at its last step (restart), other values, other version
    B = dict(banner='new', nblocks=1, keymode=0, relation='none', timing='none', filler='rich')
    mk('B', B, endA, SALT + 1)
    # C: old-format log continuing A whose second run crashed right after the header was printed
    C = dict(banner='old', nblocks=2, keymode=0, relation='overlap', timing='new', filler='plain')
    mk('C-cut-after-header', C, endA, SALT + 2, cut=('after-header', 0))
    # D: crashed right after the memory banner of its only run
    D = dict(banner='new', nblocks=1, keymode=0, relation='none', timing='new', filler='plain')
    mk('D-cut-after-banner', D, endA, SALT + 3, cut=('after-banner', 0))
    # G: crashed right after the column header of its only run (a record without rows, possibly the first one)
    mk('G-cut-after-header', dict(D, banner='old', timing='old'), endA - 20, SALT + 6, cut=('after-header', 0))
    # H: a complete pre-2015 log (old banner AND old 'Pair  time (%) = ...' timing lines): whatever the reader learns
    #    about the format of one log must not be carried over to the next log read by the same object
    mk('H-old-timing-complete', dict(banner='old', nblocks=1, keymode=0, relation='none', timing='old', filler='plain'),
       endA - 40, SALT + 7)
    if THOROUGH:
        # E: cut in the middle of the second row, after three tokens
        mk('E-cut-midrow', A, endA, SALT + 4, cut=('midrow', 1, 3))
        # F: another thermo keyword set
        F = dict(banner='new', nblocks=2, keymode=1, relation='disjoint', timing='new', filler='rich')
        mk('F-other-columns', F, endA + 100, SALT + 5)
    return out


HLOGS = _hist_logs()
KINDS = ['text', 'path', 'stream']


def all_ops():
    ops = [{'op': 'Log()'}]
    for li in range(len(HLOGS)):
        for kind in KINDS:
            ops.append({'op': 'Log(x)', 'log': li, 'kind': kind})
            ops.append({'op': 'read(x)', 'log': li, 'kind': kind})
            ops.append({'op': 'read(x,append=True)', 'log': li, 'kind': kind})
            ops.append({'op': 'read(x,append=False)', 'log': li, 'kind': kind})
    return ops


OPS = all_ops()


class St:
    pass


def build(hist):
    st = St()
    log = Log()
    seq = []            # model: logs read since the last reset
    for op in hist:
        k = op['op']
        if k == 'Log()':
            log, seq = Log(), []
            continue
        arg, closer = give(HLOGS[op['log']]['text'], op['kind'])
        if k == 'Log(x)':
            log, seq = Log(arg), [op['log']]
        elif k == 'read(x)':
            log.read(arg)
            seq = seq + [op['log']]
        elif k == 'read(x,append=True)':
            log.read(arg, append=True)
            seq = seq + [op['log']]
        elif k == 'read(x,append=False)':
            log.read(arg, append=False)
            seq = [op['log']]
        if closer:
            closer()
    st.log, st.seq = log, seq
    return st


def canon(st):
    return tuple(st.seq)


def hcheck(hist, st):
    tables = []
    for li in st.seq:
        tables += HLOGS[li]['tables']
    versions = [HLOGS[li]['version'] for li in st.seq]
    if st.seq and hist and hist[-1]['op'] in ('Log(x)', 'read(x,append=False)'):
        versions = versions[:1]
    tag = 'history'
    f = compare_records(st.log, tables, tag)
    f += compare_version(st.log, versions, tag)
    if not f and any(t is not None for t in tables):
        f += compare_flatten(st.log, tables, tag)
    if not isinstance(st.log.simulations, list):
        f.append(Fail(key='simulations-type', msg='simulations is not a list'))
    return f


def ops(st):
    return OPS


if __name__ == '__main__':
    chk.run_cases(gen(), batch=4)
    depth = 3 if not THOROUGH else 4
    ex = Explorer(chk, 'history', build, ops, hcheck, canon, max_depth=depth)
    cov = ex.run()
    if THOROUGH:
        ex2 = Explorer(chk, 'history', build, ops, hcheck, canon, max_depth=2, expand_all=True)
        cov2 = ex2.run()
        cov['transitions'] += cov2['transitions']
        cov['traces_validated_against_impl'] += cov2['traces_validated_against_impl']
        cov['depth2_all_histories'] = cov2['transitions']
    cov['evaluations'] = chk.notes.get('log-texts', 0) + cov['transitions']
    cov['distinct_nontrivial'] = chk.notes.get('log-texts-last-table-nonempty', 0)
    cov['shapes'] = len(SHAPES)
    cov['history_logs'] = len(HLOGS)
    cov['operation_instances'] = len(OPS)
    sys.exit(chk.finish(cov))
