"""C06 - per-atom data of Atoms / System stays rectangular, row-aligned and
unaliased under any edit sequence.

Explicit-state search.  A state is one live atomman.System (Atoms + Box +
symbols/masses/pbc) reached by replaying an operation history on fresh real
objects; next to it a plain-python reference model is replayed: one record
(dict) per atom carrying a hidden id, an ordered map property -> (dtype, trailing
shape), and the *stored* symbols / masses / pbc tuples (System pads symbols and
masses lazily inside its getters, so the stored length is real, history
dependent state).  BFS over the operation alphabet with dedup on the model
state; every transition compares the real object with the model, tries the
documented refusals, reads every property through every copying accessor and
mutates what was returned, and re-checks all operands of earlier operations
that are documented to return new objects.

Bounds.  quick: every history of length <= 2 over OPS; each of them extended by
every enabled operation of OPS minus VARIANTS_NOT_LAST (second instances of an
argument combination); the states of depth 3 get the accessor battery with one
index of each kind (IDX_LEAN), without the getters that are literal duplicates of or
plain delegations to another one, and without the deepcopy(System) probe.  thorough: every history of length <= 3 over
OPS + EXTRA_THOROUGH with the full battery, and length <= 4 over the core
alphabet.  A replay always uses the full battery.
"""
import copy
import functools
import os
import sys
import warnings
from collections import OrderedDict
from fractions import Fraction

import numpy as np

from mc.common import Check, Explorer, Fail, SEED, THOROUGH, assert_overlay

am = assert_overlay()
Atoms, System, Box = am.Atoms, am.System, am.Box

chk = Check('C06', 'model_checking',
            'BFS over histories of Atoms/System edit operations (whole-key writes by attribute / view / prop with '
            'scalar, length-1 and full values; indexed writes by int, negative int, slice, list and boolean mask; '
            'prop_atype by list and by single type, new and existing keys; extend by count / by Atoms with another '
            'property set, atoms_extend with scale/symbols; atoms[index] / atoms_ix[index] get (continuing on the '
            'returned object) and set; symbols=, masses=, pbc=, lazy symbols/masses reads) on one live System; '
            'states are distinct by the reference-model state (per-atom records with hidden ids, property '
            'dtypes/shapes in order, stored symbols/masses, pbc); every transition is checked against the '
            'record-per-atom model, the refusal list, all copying accessors (values + np.shares_memory + mutation of the '
            'returned object) and all retired operands.  Quick tier: depth <= 2 complete over the alphabet, the third '
            'operation ranges over its representative part (every kind / key / value form / route / index kind kept, '
            'second instances of a combination dropped) and depth-3 states are read back with one index of each kind; '
            'thorough tier: depth 3 complete with the full battery plus depth 4 over a core alphabet (coverage.bound)')
chk.assumptions = ['all written values are dyadic rationals and the box is dyadic, so relative->Cartesian arithmetic is '
                   'exact and storage is compared exactly; scaled reads (Cartesian->relative) are compared to an exact '
                   'Fraction oracle to 1e-12',
                   'values are written in the kind (int/float) of the target property (casting on overwrite is documented '
                   'and not part of the property); indexed writes of invalid atype values, scalar writes to vector '
                   'properties, atoms_prop(value=Atoms, scale=True) (rewrites its argument) are outside the alphabet',
                   'a child obtained with a slice / int index may alias its parent (numpy view semantics); parents are '
                   're-checked only after list / boolean-mask extraction, extend, atoms_extend and deepcopy',
                   'a state that violates the property is reported (at most 12 failures per state) and not extended: '
                   'histories through it would repeat the violation; on a tree where the property holds nothing is pruned',
                   'the operand of atoms[index] = Atoms carries the same properties in another key order (the code '
                   'checks sorted key lists, so assignment is by name)']

# --------------------------------------------------------------------------
# fixed box (dyadic entries: rel->cart is exact in binary floating point)
VECTS = [[2.0, 0.0, 0.0], [1.0, 4.0, 0.0], [0.5, -1.0, 8.0]]
ORIGIN = [1.0, -2.0, 0.5]
_Vf = [[Fraction(x) for x in r] for r in VECTS]


def _inv3(m):
    a, b, c = m[0]
    d, e, f = m[1]
    g, h, i = m[2]
    det = a * (e * i - f * h) - b * (d * i - f * g) + c * (d * h - e * g)
    return [[(e * i - f * h) / det, (c * h - b * i) / det, (b * f - c * e) / det],
            [(f * g - d * i) / det, (a * i - c * g) / det, (c * d - a * f) / det],
            [(d * h - e * g) / det, (b * g - a * h) / det, (a * e - b * d) / det]]


_Vinv = _inv3(_Vf)


@functools.lru_cache(maxsize=None)
def rel_to_cart(rel):
    """model arithmetic: cart = rel . vects + origin  (exact for the dyadic menus)"""
    return tuple(float(sum(Fraction(rel[r]) * _Vf[r][c] for r in range(3)) + Fraction(ORIGIN[c])) for c in range(3))


@functools.lru_cache(maxsize=None)
def cart_to_rel(cart):
    d = [Fraction(cart[c]) - Fraction(ORIGIN[c]) for c in range(3)]
    return tuple(float(sum(d[r] * _Vinv[r][c] for r in range(3))) for c in range(3))


# --------------------------------------------------------------------------
# reference model

class Refusal(Exception):
    """the model predicts a documented refusal"""

    def __init__(self, exc_type, why):
        Exception.__init__(self, why)
        self.exc_type = exc_type


def zero(dtype, trail):
    z = 0 if 'i' in dtype else 0.0
    return z if trail == () else tuple(z for _ in range(trail[0]))


def cast(val, dtype, trail):
    f = int if 'i' in dtype else float
    if trail == ():
        return f(val)
    assert len(val) == trail[0]
    return tuple(f(x) for x in val)


def rows(base, dtype, trail, m):
    """m distinct per-atom values (dyadic), deterministic in (base, row)."""
    out = []
    for j in range(m):
        if trail == ():
            out.append(base + j if 'i' in dtype else base + j + 0.5)
        else:
            out.append(tuple(base + j + 0.125 * (c + 1) for c in range(trail[0])))
    return out


def raw(v):
    """python value -> what is handed to atomman (tuples become lists)"""
    if isinstance(v, tuple):
        return [raw(x) for x in v]
    if isinstance(v, list):
        return [raw(x) for x in v]
    return v


class Model:
    def __init__(self):
        self.props = OrderedDict()   # key -> (dtype str, trailing shape)
        self.recs = []               # one dict per atom: '_id' and key -> python value
        self.sym = ()                # stored symbols (System pads lazily)
        self.mas = ()
        self.pbc = (True, True, True)

    def copy(self):
        m = Model()
        m.props = OrderedDict(self.props)
        m.recs = [dict(r) for r in self.recs]
        m.sym, m.mas, m.pbc = self.sym, self.mas, self.pbc
        return m

    @property
    def n(self):
        return len(self.recs)

    @property
    def ant(self):
        """Atoms.natypes"""
        return max(r['atype'] for r in self.recs)

    def fresh_ids(self, m):
        top = max([r['_id'] for r in self.recs] + [-1])
        return [top + 1 + j for j in range(m)]

    # ---- lazily padded type lists (mirrors of the documented padding rules)
    def read_symbols(self):
        if len(self.sym) < self.ant:
            self.sym = self.sym + (None,) * (self.ant - len(self.sym))
        return self.sym

    def natypes(self):
        return max(len(self.read_symbols()), self.ant)

    def read_masses(self):
        nt = self.natypes()
        if len(self.mas) < nt:
            self.mas = self.mas + (None,) * (nt - len(self.mas))
        return self.mas

    def set_symbols(self, lst):
        lst = list(lst)
        if len(lst) < self.ant:
            lst = lst + [None] * (self.ant - len(lst))
        self.sym = tuple(lst)

    def set_masses(self, lst):
        lst = [None if x is None else float(x) for x in lst]
        nt = self.natypes()
        if len(lst) < nt:
            lst = lst + [None] * (nt - len(lst))
        elif len(lst) > nt:
            raise Refusal(ValueError, 'more masses than atom types')
        self.mas = tuple(lst)

    def make_system(self, symbols, masses=()):
        """what System(atoms, box, pbc, symbols[, masses]) stores"""
        self.set_symbols(symbols)
        self.set_masses(masses)

    # ---- per-atom data
    def write_all(self, key, vals, dtype=None, trail=None):
        if key not in self.props:
            self.props[key] = (dtype, trail)
        dtype, trail = self.props[key]
        assert len(vals) == self.n
        for r, v in zip(self.recs, vals):
            r[key] = cast(v, dtype, trail)

    def write_rows(self, key, rownums, vals):
        dtype, trail = self.props[key]
        assert len(vals) == len(rownums)
        for i, v in zip(rownums, vals):
            self.recs[i][key] = cast(v, dtype, trail)

    def canon(self):
        keys = list(self.props)
        return (tuple((k,) + self.props[k] for k in keys),
                tuple((r['_id'],) + tuple(r[k] for k in keys) for r in self.recs),
                self.sym, self.mas, self.pbc)


INIT_REL = [(0.25, 0.5, 0.75), (0.5, 0.25, 0.125), (0.75, 0.75, 0.5)]


def initial_model():
    m = Model()
    m.props = OrderedDict([('atype', ('<i8', ())), ('pos', ('<f8', (3,))), ('a', ('<f8', ())),
                           ('v', ('<f8', (3,))), ('k', ('<i8', ())), ('uid', ('<i8', ()))])
    at = [1, 2, 1]
    for j in range(3):
        m.recs.append({'_id': j, 'atype': at[j], 'pos': rel_to_cart(INIT_REL[j]), 'a': 0.5 + j,
                       'v': (1.25 + 3 * j, 2.25 + 3 * j, 3.25 + 3 * j), 'k': 10 * (j + 1), 'uid': 101 + j})
    m.make_system(['Al'])
    return m


def atoms_from_model(m):
    """a fresh real Atoms holding exactly the model's per-atom data (harness-made operands)."""
    kw = OrderedDict()
    for key, (dtype, trail) in m.props.items():
        kw[key] = np.array([raw(r[key]) for r in m.recs], dtype=dtype)
    return Atoms(**kw)


def operand_model(kind, base_ids):
    """models of the Atoms operands of extend / atoms_extend"""
    m = Model()
    if kind == 'B2':      # other property set: lacks v, k, uid; adds q of trailing shape (2,)
        m.props = OrderedDict([('atype', ('<i8', ())), ('pos', ('<f8', (3,))), ('a', ('<f8', ())), ('q', ('<f8', (2,)))])
        m.recs = [{'_id': base_ids[0], 'atype': 3, 'pos': (0.5, 0.5, 0.5), 'a': 8.5, 'q': (1.5, 2.5)},
                  {'_id': base_ids[1], 'atype': 1, 'pos': (0.25, 0.75, 0.125), 'a': 9.5, 'q': (3.5, 4.5)}]
    elif kind == 'B1':    # a single atom with only the mandatory properties
        m.props = OrderedDict([('atype', ('<i8', ())), ('pos', ('<f8', (3,)))])
        m.recs = [{'_id': base_ids[0], 'atype': 2, 'pos': (0.5, 0.25, 0.75)}]
    elif kind == 'B3':    # a single atom with an integer property the host does not have
        m.props = OrderedDict([('atype', ('<i8', ())), ('pos', ('<f8', (3,))), ('j', ('<i8', ()))])
        m.recs = [{'_id': base_ids[0], 'atype': 1, 'pos': (0.25, 0.25, 0.25), 'j': 7}]
    else:
        raise KeyError(kind)
    return m


OPERAND_N = {'B2': 2, 'B1': 1, 'B3': 1}


# --------------------------------------------------------------------------
# index menu (resolved against the current number of atoms)

def resolve(name, n):
    """-> (index handed to atomman, row numbers selected in order, kind) or None when not applicable"""
    if name == 'i0':
        return 0, [0], 'int'
    if name == 'i1':
        return (1, [1], 'int') if n >= 2 else None
    if name == 'im1':
        return -1, [n - 1], 'int'
    if name == 'im2':
        return (-2, [n - 2], 'int') if n >= 2 else None
    if name == 'sl':
        return slice(0, 2), list(range(min(2, n))), 'slice'
    if name == 'sl1':
        return (slice(1, None), list(range(1, n)), 'slice') if n >= 2 else None
    if name == 'rev':
        return slice(None, None, -1), list(range(n - 1, -1, -1)), 'slice'
    if name == 'step2':
        return slice(0, None, 2), list(range(0, n, 2)), 'slice'
    if name == 'li':
        return ([n - 1, 0], [n - 1, 0], 'fancy') if n >= 2 else None
    if name == 'bm':
        mask = [j % 2 == 0 for j in range(n)]
        return mask, [j for j in range(n) if mask[j]], 'fancy'
    if name == 'bmT':      # all-True mask: still advanced indexing, the result must not alias the parent
        return [True] * n, list(range(n)), 'fancy'
    raise KeyError(name)


IDX = ['i0', 'im1', 'im2', 'sl', 'li', 'bm']

# --------------------------------------------------------------------------
# operation alphabet

NEWKEYS = {'n': ('<f8', ()), 'w': ('<f8', (2,))}


def _set(key, form, via, base):
    return {'op': 'set', 'name': 'set-%s-%s-%s' % (key, form, via), 'key': key, 'form': form, 'via': via, 'base': base}


def _iset(key, idx, form, base, scale=False, via='prop'):
    return {'op': 'iset', 'name': 'iset-%s-%s-%s%s%s' % (key, idx, form, '-scaled' if scale else '', ('-' + via) if via.startswith('a_id') else ''),
            'key': key, 'idx': idx, 'form': form, 'base': base, 'scale': scale, 'via': via}


def static_ops():
    o = []
    # whole-key writes: attribute / view[...] / prop(key, value=) x scalar / length-1 / full
    o += [_set('a', 'scalar', 'attr', 7), _set('a', 'len1', 'view', 8), _set('a', 'full', 'prop', 20), _set('a', 'full', 'attr', 30),
          _set('v', 'len1', 'attr', 8), _set('v', 'full', 'view', 20), _set('v', 'len1', 'prop', 9),
          _set('k', 'scalar', 'view', 7), _set('k', 'full', 'attr', 20),
          _set('atype', 'scalar', 'attr', 2), _set('atype', 'full', 'view', 0), _set('atype', 'len1', 'prop', 3),
          _set('pos', 'full', 'attr', 20), _set('pos', 'len1', 'view', 8),
          _set('n', 'scalar', 'attr', 2.5), _set('n', 'full', 'prop', 40), _set('n', 'len1', 'view', 4),
          _set('w', 'len1', 'attr', 5), _set('w', 'full', 'view', 40),
          _set('a', 'selfview', 'attr', 0), _set('v', 'selfview', 'view', 0), _set('k', 'selfview', 'view', 0)]
    # indexed writes
    for i, idx in enumerate(IDX):
        o.append(_iset('a', idx, 'rows', 60 + 2 * i))
    for idx in ('i0', 'im2', 'li', 'bm'):
        o.append(_iset('v', idx, 'rows', 70))
    # one atom addressed by the documented a_id= keyword instead of index= (atom 0: a falsy id; the last atom; -2)
    o += [_iset('a', 'i0', 'rows', 90, via='a_id'), _iset('v', 'im1', 'rows', 91, via='a_id'), _iset('k', 'im2', 'rows', 92, via='a_id'),
          _iset('pos', 'i0', 'rows', 2, via='a_id_atoms_prop')]
    o += [_iset('k', 'im1', 'rows', 80), _iset('k', 'sl', 'scalar', 81),
          _iset('atype', 'i0', 'rows', 3), _iset('atype', 'li', 'scalar', 2),
          _iset('pos', 'im1', 'rows', 0, scale=True, via='atoms_prop'), _iset('pos', 'li', 'rows', 1, scale=True, via='atoms_prop'),
          _iset('pos', 'all', 'rows', 2, scale=True, via='atoms_prop'), _iset('a', 'bm', 'scalar', 90, via='atoms_prop')]
    # per-type assignment
    for key in ('a', 'v', 'n', 'w'):
        o.append({'op': 'patype_list', 'name': 'patype-list-' + key, 'key': key, 'base': 100})
    o += [{'op': 'patype_one', 'name': 'patype-one-a', 'key': 'a', 't': 1, 'base': 110},
          {'op': 'patype_one', 'name': 'patype-one-k', 'key': 'k', 't': 2, 'base': 111},
          {'op': 'patype_one', 'name': 'patype-one-v', 'key': 'v', 't': 1, 'base': 112},
          {'op': 'patype_one', 'name': 'patype-one-n', 'key': 'n', 't': 2, 'base': 113},
          {'op': 'patype_one', 'name': 'patype-one-w', 'key': 'w', 't': 1, 'base': 114}]
    # extension
    o += [{'op': 'extend', 'name': 'extend-int', 'via': 'atoms', 'what': 2},
          {'op': 'extend', 'name': 'atoms_extend-int', 'via': 'system', 'what': 2, 'scale': False, 'symbols': None},
          {'op': 'extend', 'name': 'extend-B2', 'via': 'atoms', 'what': 'B2'},
          {'op': 'extend', 'name': 'extend-B3', 'via': 'atoms', 'what': 'B3'},
          {'op': 'extend', 'name': 'atoms_extend-B2', 'via': 'system', 'what': 'B2', 'scale': False, 'symbols': None},
          {'op': 'extend', 'name': 'atoms_extend-B1-scaled', 'via': 'system', 'what': 'B1', 'scale': True, 'symbols': None},
          {'op': 'extend', 'name': 'atoms_extend-B2-scaled-symbols', 'via': 'system', 'what': 'B2', 'scale': True,
           'symbols': ['Al', 'Ni', 'Cu']}]
    # sub-system extraction (the history continues on the returned object)
    for idx in ('im1', 'sl', 'bm', 'bmT'):
        o.append({'op': 'getitem', 'name': 'getitem-' + idx, 'via': 'atoms', 'idx': idx})
    for idx in IDX:
        o.append({'op': 'getitem', 'name': 'atoms_ix-get-' + idx, 'via': 'ix', 'idx': idx})
    # row assignment
    for idx in ('i0', 'im1', 'sl', 'li'):
        o.append({'op': 'setitem', 'name': 'setitem-' + idx, 'via': 'atoms', 'idx': idx})
    for idx in ('im2', 'bm'):
        o.append({'op': 'setitem', 'name': 'atoms_ix-set-' + idx, 'via': 'ix', 'idx': idx})
    o.append({'op': 'setitem', 'name': 'atoms_ix-set-system-li', 'via': 'ixsys', 'idx': 'li'})
    # system level lists
    o += [{'op': 'symbols', 'name': 'symbols-str', 'value': 'Cu'},
          {'op': 'symbols', 'name': 'symbols-3', 'value': ['Al', 'Ni', 'Cu']},
          {'op': 'masses', 'name': 'masses-float', 'value': 26.5},
          {'op': 'masses', 'name': 'masses-3', 'value': [26.5, None, 63.5]},
          {'op': 'masses', 'name': 'masses-natypes', 'value': 'natypes'},
          {'op': 'pbc', 'name': 'pbc', 'value': [True, False, True]},
          {'op': 'read_symbols', 'name': 'read-symbols'},
          {'op': 'read_masses', 'name': 'read-masses'}]
    return o


# VERIF_SEED appends one pre-vetted extra slice of operations (each explored completely)
SEED_SLICES = [
    [{'op': 'getitem', 'name': 'atoms_ix-get-sl1', 'via': 'ix', 'idx': 'sl1'}, _iset('a', 'i1', 'rows', 95)],
    [{'op': 'extend', 'name': 'extend-int1', 'via': 'atoms', 'what': 1}, _set('k', 'len1', 'prop', 9)],
    [{'op': 'getitem', 'name': 'getitem-rev', 'via': 'atoms', 'idx': 'rev'}, _iset('v', 'sl', 'rows', 96)],
    [{'op': 'getitem', 'name': 'atoms_ix-get-step2', 'via': 'ix', 'idx': 'step2'}, _iset('k', 'bm', 'rows', 97)],
    [{'op': 'setitem', 'name': 'setitem-sl1', 'via': 'atoms', 'idx': 'sl1'}, _set('pos', 'full', 'prop', 21)],
    [{'op': 'extend', 'name': 'atoms_extend-int3', 'via': 'system', 'what': 3, 'scale': False, 'symbols': ['Fe']},
     _iset('a', 'rev', 'rows', 98)],
    [{'op': 'setitem', 'name': 'atoms_ix-set-step2', 'via': 'ix', 'idx': 'step2'}, _set('atype', 'full', 'prop', 1)],
    [{'op': 'getitem', 'name': 'getitem-i1', 'via': 'atoms', 'idx': 'i1'}, _iset('pos', 'sl', 'rows', 3, scale=True, via='atoms_prop')],
]

EXTRA_THOROUGH = [
    _set('a', 'scalar', 'view', 7), _set('a', 'len1', 'attr', 8), _set('v', 'full', 'prop', 20), _set('k', 'len1', 'view', 9),
    _set('n', 'full', 'attr', 40), _set('w', 'full', 'prop', 40),
    {'op': 'getitem', 'name': 'getitem-i0', 'via': 'atoms', 'idx': 'i0'},
    {'op': 'getitem', 'name': 'getitem-li', 'via': 'atoms', 'idx': 'li'},
    {'op': 'getitem', 'name': 'getitem-im2', 'via': 'atoms', 'idx': 'im2'},
    {'op': 'setitem', 'name': 'setitem-bm', 'via': 'atoms', 'idx': 'bm'},
    {'op': 'setitem', 'name': 'atoms_ix-set-i0', 'via': 'ix', 'idx': 'i0'},
    {'op': 'extend', 'name': 'atoms_extend-B1', 'via': 'system', 'what': 'B1', 'scale': False, 'symbols': ['Al', 'Ni']},
    {'op': 'extend', 'name': 'atoms_extend-B2-safecopy', 'via': 'system', 'what': 'B2', 'scale': False, 'symbols': None,
     'safecopy': True},
    {'op': 'deepcopy', 'name': 'deepcopy'},
]

OPS = static_ops() + SEED_SLICES[SEED % len(SEED_SLICES)]
# sub-alphabet for the deeper thorough search: one representative of every kind of edit
CORE_NAMES = {'set-a-scalar-attr', 'set-v-len1-attr', 'set-atype-full-view', 'set-n-full-prop', 'set-w-len1-attr',
              'iset-a-im1-rows', 'iset-a-li-rows', 'iset-v-bm-rows', 'iset-atype-i0-rows', 'iset-pos-li-rows-scaled',
              'patype-list-n', 'patype-one-w', 'patype-one-k',
              'extend-int', 'atoms_extend-B2', 'atoms_extend-B1-scaled',
              'getitem-sl', 'atoms_ix-get-li', 'atoms_ix-get-bm', 'atoms_ix-get-im1',
              'setitem-sl', 'atoms_ix-set-bm', 'symbols-str', 'masses-natypes', 'read-masses'}


# Quick tier only: argument variants that are NOT used as the third (last) operation of a depth-3 history.  They
# stay in the alphabet for the first two positions (depth <= 2 is complete over OPS).  What is left for the last
# position keeps every kind of operation, every key (dtype / trailing shape / new-vs-existing), every value form
# (scalar, length-1, full), every route (attr, view, prop, atoms_prop) and every kind of index (int, -1, slice,
# list, mask); what is dropped is a second instance of a (kind, form, route, index-kind) combination already there, a
# route that only forwards to a kept one, and the lazy reads / pbc= that check() performs or that touch no per-atom data.
VARIANTS_NOT_LAST = {
    'set-a-len1-view', 'set-a-full-attr', 'set-v-len1-prop', 'set-k-full-attr', 'set-atype-len1-prop',
    'set-pos-len1-view', 'set-n-len1-view',
    'iset-a-i0-rows', 'iset-a-im2-rows', 'iset-v-i0-rows', 'iset-v-li-rows', 'iset-v-bm-rows', 'iset-k-im1-rows',
    'iset-pos-im1-rows-scaled',
    'iset-a-bm-scalar',                   # unscaled atoms_prop(..., value=) only forwards to Atoms.prop
    'patype-list-a', 'patype-one-a',
    'extend-int', 'extend-B2',            # atoms_extend-int / atoms_extend-B2 run the same Atoms.extend inside
    'getitem-bmT', 'atoms_ix-get-i0', 'atoms_ix-get-im1', 'atoms_ix-get-bm',
    'setitem-i0', 'setitem-li',
    'symbols-str', 'masses-float', 'pbc',
    'read-symbols', 'read-masses',       # as a last operation these are what check() itself does first in every state
}
assert VARIANTS_NOT_LAST <= {op['name'] for op in OPS}
TRIM_LAST = 0        # history length from which ops() trims (0 = never); set in __main__ for the quick tier
# accessor battery: indices read back in every state.  A state of depth 3 of the quick tier is read with one index
# of each kind (int -1 -- the special case of Atoms.__intslice --, slice, list); boolean mask and the other ints are
# read in every state of depth <= 2 (and everywhere in the thorough tier and in replays).
IDX_LEAN = ['im1', 'sl', 'li']
LEAN_FROM = 0        # history length from which check() uses IDX_LEAN (0 = never)
MAX_FAILS_PER_STATE = 12   # the first failures of a state say what is wrong; the rest are consequences


def trail_of(m, key):
    return m.props[key][1] if key in m.props else NEWKEYS[key][1]


def enabled(op, m):
    """is the operation applicable (inside the quantifier) in this model state?"""
    k = op['op']
    n = m.n
    if k == 'set':
        if op['form'] == 'scalar' and trail_of(m, op['key']) != ():
            return False
        if op['form'] == 'selfview':
            return op['key'] in m.props and n >= 2
        return True
    if k == 'iset':
        if op['key'] not in m.props:
            return False
        return op['idx'] == 'all' or resolve(op['idx'], n) is not None
    if k == 'patype_list':
        return True
    if k == 'patype_one':
        return op['t'] <= m.ant
    if k in ('getitem', 'setitem'):
        return resolve(op['idx'], n) is not None
    return True


class St:
    pass


def new_box():
    return Box(vects=VECTS, origin=ORIGIN)


def expect_refusal(fn, exc_type):
    """run fn; True if it raised exc_type (documented refusal), False if it returned."""
    try:
        fn()
    except exc_type:
        return True
    return False


def apply(st, op):
    """one operation on the real System and on the model.  Raises on an undocumented exception."""
    S, M = st.sys, st.model
    A = S.atoms
    k = op['op']
    n = M.n
    if k == 'set':
        key, form, base = op['key'], op['form'], op['base']
        new = key not in M.props
        dtype, trail = M.props[key] if not new else NEWKEYS[key]
        if key == 'atype':
            if form == 'scalar':
                vals, value = [base] * n, base
            elif form == 'len1':
                vals, value = [base] * n, [base]
            else:
                pat = (2, 1, 3) if base == 0 else (1, 3, 2)
                vals = [pat[j % 3] for j in range(n)]
                value = list(vals)
        elif form == 'selfview':
            # the value is a reordered VIEW of the property's own storage (atoms.a = atoms.a[::-1]): an assignment
            # like any other, the rows must end up reversed
            vals = [M.recs[n - 1 - j][key] for j in range(n)]
            value = A.view[key][::-1]
            assert np.shares_memory(value, A.view[key])
        elif form == 'scalar':
            vals, value = [base] * n, base
        elif form == 'len1':
            r = rows(base, dtype, trail, 1)[0]
            vals, value = [r] * n, [raw(r)]
        else:
            vals = rows(base, dtype, trail, n)
            value = raw(vals)
        if op['via'] == 'attr':
            setattr(A, key, value)
        elif op['via'] == 'view':
            A.view[key] = value
        else:
            arr = np.array(value, dtype=dtype)
            A.prop(key, value=arr)         # documented: "set copy of value to property"
            arr += 1000                     # the caller's array must not be the storage
        M.write_all(key, vals, dtype, trail)
    elif k == 'iset':
        key = op['key']
        dtype, trail = M.props[key]
        if op['idx'] == 'all':
            index, rownums, kind = None, list(range(n)), 'all'
        else:
            index, rownums, kind = resolve(op['idx'], n)
        m = len(rownums)
        if op['scale']:
            REL = [(0.25, 0.5, 0.125), (0.75, 0.25, 0.5), (0.5, 0.125, 0.875), (0.125, 0.375, 0.25)]
            rel = [tuple(x + op['base'] for x in REL[j % 4]) for j in range(m)]
            vals = [rel_to_cart(r) for r in rel]
            value = raw(rel[0]) if kind == 'int' else raw(rel)
        elif op['form'] == 'scalar':
            vals = [op['base']] * m
            value = op['base']
        else:
            vals = rows(op['base'], dtype, trail, m)
            value = raw(vals[0]) if kind == 'int' else raw(vals)
        if op['via'] == 'atoms_prop':
            if index is None:
                S.atoms_prop(key, value=value, scale=op['scale'])
            else:
                S.atoms_prop(key, index=index, value=value, scale=op['scale'])
        elif op['via'] == 'a_id':
            assert kind == 'int'
            A.prop(key, a_id=index, value=value)
        elif op['via'] == 'a_id_atoms_prop':
            assert kind == 'int'
            S.atoms_prop(key, a_id=index, value=value)
        else:
            A.prop(key, index, value)
        M.write_rows(key, rownums, vals)
    elif k == 'patype_list':
        key = op['key']
        dtype, trail = M.props[key] if key in M.props else NEWKEYS[key]
        table = rows(op['base'], dtype, trail, M.ant)
        A.prop_atype(key, raw(table))
        M.write_all(key, [table[r['atype'] - 1] for r in M.recs], dtype, trail)
    elif k == 'patype_one':
        key, t = op['key'], op['t']
        dtype, trail = M.props[key] if key in M.props else NEWKEYS[key]
        val = rows(op['base'], dtype, trail, 1)[0]
        A.prop_atype(key, raw(val), atype=t)
        if key not in M.props:
            M.write_all(key, [zero(dtype, trail)] * n, dtype, trail)
        M.write_rows(key, [j for j, r in enumerate(M.recs) if r['atype'] == t],
                     [val] * sum(1 for r in M.recs if r['atype'] == t))
    elif k == 'extend':
        what = op['what']
        if isinstance(what, int):
            Bm, Breal, nb = None, what, what
        else:
            Bm = operand_model(what, M.fresh_ids(OPERAND_N[what] + 0))
            Breal = atoms_from_model(Bm)
            nb = Bm.n
        parent_real, parent_model = S, M
        if op['via'] == 'atoms':
            E = A.extend(Breal)
            S2 = System(atoms=E, box=S.box, pbc=S.pbc)
            newsym, M2 = [], M.copy()
        else:
            kw = {}
            if op.get('safecopy'):
                kw['safecopy'] = True
            S2 = S.atoms_extend(Breal, scale=op['scale'], symbols=op['symbols'], **kw)
            newsym = op['symbols'] if op['symbols'] is not None else M.read_symbols()   # the read pads the host
            M2 = M.copy()
        # model of the extension
        ids = M2.fresh_ids(nb)
        if Bm is not None:
            for key, (dtype, trail) in Bm.props.items():
                if key not in M2.props:
                    M2.props[key] = (dtype, trail)
                    for r in M2.recs:
                        r[key] = zero(dtype, trail)
        for j in range(nb):
            rec = {'_id': ids[j]}
            for key, (dtype, trail) in M2.props.items():
                if Bm is not None and key in Bm.props:
                    v = Bm.recs[j][key]
                    if key == 'pos' and op.get('scale'):
                        v = rel_to_cart(v)
                    rec[key] = cast(v, dtype, trail)
                elif key == 'atype':
                    rec[key] = 1
                else:
                    rec[key] = zero(dtype, trail)
            M2.recs.append(rec)
        M2.mas = ()
        M2.make_system(newsym)
        st.retired.append(('parent of ' + op['name'], parent_real, parent_model))
        if Bm is not None:
            st.retired.append(('operand of ' + op['name'], Breal, Bm))
        st.sys, st.model = S2, M2
    elif k == 'getitem':
        index, rownums, kind = resolve(op['idx'], n)
        if op['via'] == 'atoms':
            C = A[index]
            S2 = System(atoms=C, box=S.box, pbc=S.pbc)
            newsym = []
        else:
            S2 = S.atoms_ix[index]
            newsym = M.read_symbols()      # atoms_ix reads host.symbols (pads the host)
        M2 = M.copy()
        M2.recs = [dict(M.recs[i]) for i in rownums]
        M2.mas = ()
        M2.make_system(newsym)
        if kind == 'fancy':
            st.retired.append(('parent of ' + op['name'], S, M))
        st.sys, st.model = S2, M2
    elif k == 'setitem':
        index, rownums, kind = resolve(op['idx'], n)
        m = len(rownums)
        Bm = Model()
        # the operand carries the same properties in another order (assignment is by name, not by position)
        user = [key for key in M.props if key not in ('atype', 'pos')]
        Bm.props = OrderedDict((key, M.props[key]) for key in ['atype', 'pos'] + user[::-1])
        ids = M.fresh_ids(m)
        for j in range(m):
            rec = {'_id': ids[j]}
            for key, (dtype, trail) in M.props.items():
                rec[key] = (2, 1)[j % 2] if key == 'atype' else rows(50, dtype, trail, m)[j]
            Bm.recs.append(rec)
        Breal = atoms_from_model(Bm)
        if op['via'] == 'atoms':
            A[index] = Breal
        elif op['via'] == 'ix':
            S.atoms_ix[index] = Breal
        else:
            S.atoms_ix[index] = System(atoms=Breal, box=S.box)
        for i, rec in zip(rownums, Bm.recs):
            M.recs[i] = dict(rec)
        st.retired.append(('operand of ' + op['name'], Breal, Bm))
    elif k == 'symbols':
        S.symbols = op['value']
        M.set_symbols([op['value']] if isinstance(op['value'], str) else op['value'])
    elif k == 'masses':
        value = op['value']
        if value == 'natypes':
            value = [10.5 + j for j in range(M.copy().natypes())]
        lst = [value] if isinstance(value, float) else list(value)
        try:
            M.set_masses(lst)
        except Refusal as r:
            def f():
                S.masses = value
            if not expect_refusal(f, r.exc_type):
                raise AssertionError('masses longer than natypes were accepted')
        else:
            S.masses = value
    elif k == 'pbc':
        S.pbc = op['value']
        M.pbc = tuple(bool(x) for x in op['value'])
    elif k == 'read_symbols':
        S.symbols
        M.read_symbols()
    elif k == 'read_masses':
        S.masses
        M.read_masses()
    elif k == 'deepcopy':
        S2 = copy.deepcopy(S)
        st.retired.append(('parent of deepcopy', S, M))
        st.sys, st.model = S2, M.copy()
    else:
        raise KeyError(k)


def build(hist):
    warnings.simplefilter('ignore')
    st = St()
    st.model = initial_model()
    st.retired = []
    st.dead = None
    st.depth = len(hist)
    st.hist = list(hist)
    try:
        st.sys = System(atoms=atoms_from_model(st.model), box=new_box(), symbols=['Al'])
    except Exception as e:          # the initial objects cannot even be made
        st.sys = None
        st.dead = ('initial', '%s: %s' % (type(e).__name__, e), -1)
        return st
    for i, op in enumerate(hist):
        try:
            apply(st, op)
        except Exception as e:      # not a documented refusal: the operation itself failed
            st.dead = (op['name'], '%s: %s' % (type(e).__name__, e), i)
            break
    return st


def canon(st):
    if st.dead:
        return ('dead', st.dead[0], st.dead[2], st.model.canon())
    return st.model.canon()


def ops(st):
    if st.dead:
        return []
    if check(st.hist, st):
        # a state that violates the property was reported when it was reached; histories through it would only
        # repeat the same violation under other keys (and, for a broken accessor, by the million)
        return []
    lst = [op for op in ACTIVE_OPS if enabled(op, st.model)]
    if TRIM_LAST and st.depth >= TRIM_LAST:
        # quick tier: the last operation of a longest history comes from the representative sub-alphabet
        lst = [op for op in lst if op['name'] not in VARIANTS_NOT_LAST]
    return lst


# --------------------------------------------------------------------------
# comparison of a real object with a model

def tolist(v):
    return list(v) if isinstance(v, tuple) else v


def cmp_atoms(A, M, where, out, tag):
    """rectangular, mirrored, row-aligned, equal to the records, atype >= 1"""
    def bad(key, msg, **kw):
        out.append(Fail(key='%s%s@%s' % (where, key, tag), msg=msg, **kw))
    n = M.n
    if A.natoms != n or len(A) != n:
        bad('natoms', 'natoms=%r, model has %d atoms' % (A.natoms, n))
        return False
    keys = list(A.view.keys())
    if keys != list(M.props) or A.prop() != keys:
        bad('keys', 'property keys/order differ', observed=keys, expected=list(M.props))
        return False
    ok = True
    for key, (dtype, trail) in M.props.items():
        arr = A.view[key]
        if not isinstance(arr, np.ndarray) or arr.shape != (n,) + trail:
            bad('shape-' + key, 'property %s is not (natoms,)+shape: %r, expected %r' % (key, getattr(arr, 'shape', None), (n,) + trail))
            ok = False
            continue
        if arr.dtype.str != dtype:
            bad('dtype-' + key, 'property %s has dtype %s, expected %s' % (key, arr.dtype.str, dtype))
            ok = False
        if getattr(A, key, None) is not arr:
            bad('mirror-' + key, 'attribute atoms.%s is not atoms.view[%r]' % (key, key))
            ok = False
        exp = [tolist(r[key]) for r in M.recs]
        if arr.tolist() != exp:
            bad('values-' + key, 'values of %s differ from the record-per-atom model' % key, observed=arr.tolist(), expected=exp)
            ok = False
    if ok:
        at = A.view['atype']
        if at.min() < 1:
            bad('atype-min', 'atype < 1 stored')
            ok = False
        elif A.natypes != M.ant or A.atypes != tuple(range(1, M.ant + 1)):
            bad('atoms-natypes', 'Atoms.natypes=%r, expected %d' % (A.natypes, M.ant))
            ok = False
    return ok


def cmp_system(S, M, where, out, tag):
    """M is not modified (padding of the reads is applied to a copy)."""
    def bad(key, msg, **kw):
        out.append(Fail(key='%s%s@%s' % (where, key, tag), msg=msg, **kw))
    if not cmp_atoms(S.atoms, M, where, out, tag):
        return False
    P = M.copy()
    nt = P.natypes()
    ok = True
    if S.natoms != M.n or S.natypes != nt or S.atypes != tuple(range(1, nt + 1)):
        bad('natypes', 'System.natypes=%r, expected %d' % (S.natypes, nt))
        ok = False
    sym, mas = S.symbols, S.masses
    if not isinstance(sym, tuple) or sym != P.read_symbols():
        bad('symbols', 'symbols differ from the model', observed=list(sym), expected=list(P.read_symbols()))
        ok = False
    if not isinstance(mas, tuple) or mas != P.read_masses():
        bad('masses', 'masses differ from the model', observed=list(mas), expected=list(P.read_masses()))
        ok = False
    if len(sym) < S.natypes or len(mas) < S.natypes or len(sym) < S.atoms.natypes:
        bad('short-type-lists', 'len(symbols)=%d len(masses)=%d natypes=%d' % (len(sym), len(mas), S.natypes))
        ok = False
    if tuple(np.asarray(S.pbc).tolist()) != M.pbc:
        bad('pbc', 'pbc differs', observed=np.asarray(S.pbc).tolist(), expected=list(M.pbc))
        ok = False
    return ok


def close(x, y):
    x, y = np.asarray(x, float), np.asarray(y, float)
    return x.shape == y.shape and bool(np.all(np.abs(x - y) <= 1e-12 * (1 + np.abs(y))))


def scribble(arr):
    """overwrite a returned array in place"""
    if isinstance(arr, np.ndarray) and arr.size:
        arr[...] = 77


def check(hist, st):
    """invariant + model comparison + accessor battery of one state; an exception escaping from a read, a refused
    write or a copy is a failure of that state (it must not abort the search)"""
    try:
        return _check(hist, st)[:MAX_FAILS_PER_STATE]
    except Exception as e:
        import traceback
        return [Fail(key='exception:%s@%s' % (type(e).__name__, hist[-1]['name'] if hist else 'initial'),
                     msg='unexpected %s while checking the state: %s' % (type(e).__name__, e),
                     traceback=traceback.format_exc(limit=6))]


def _check(hist, st):
    tag = hist[-1]['name'] if hist else 'initial'
    if st.dead:
        return [Fail(key='raised@%s' % st.dead[0], msg='operation %s inside the quantifier raised %s' % (st.dead[0], st.dead[1]))]
    out = []
    S, M = st.sys, st.model
    A = S.atoms

    def bad(key, msg, **kw):
        out.append(Fail(key='%s@%s' % (key, tag), msg=msg, **kw))

    # ---- 1. the state itself
    if S.atoms is not A or not cmp_system(S, M, '', out, tag):
        return out
    # ---- 2. operands of earlier operations that return new objects are unchanged
    for label, obj, Mo in st.retired:
        if isinstance(obj, System):
            cmp_system(obj, Mo, 'operand-changed:', out, tag)
        else:
            cmp_atoms(obj, Mo, 'operand-changed:', out, tag)
        for key in Mo.props:
            oa = obj.atoms.view[key] if isinstance(obj, System) else obj.view[key]
            if key in A.view and np.shares_memory(oa, A.view[key]):
                bad('operand-aliased', '%s shares memory of %s with the current object' % (label, key))
    if out:
        return out
    n, nt = M.n, M.copy().natypes()
    lean = bool(LEAN_FROM) and len(hist) >= LEAN_FROM
    idx_check = IDX_LEAN if lean else IDX_CHECK
    # ---- 3. documented refusals: must raise, must not change anything
    B_other = Atoms(atype=[1], pos=[[0.0, 0.0, 0.0]])

    def r_len():
        A.view['a'] = [1.0] * (n + 1)

    def r_len_attr():
        A.v = [[1.0, 2.0, 3.0]] * (n + 2)

    def r_len_new():
        A.view['zz'] = [1.0] * (n + 1)

    def r_at0():
        A.atype = 0

    def r_at0_full():
        A.view['atype'] = [1] * (n - 1) + [0]

    def r_at0_prop():
        A.prop('atype', value=[0])

    def r_mass():
        S.masses = [1.0] * (nt + 1)

    def r_setitem():
        A[0] = B_other

    def r_ix_type():
        S.atoms_ix[0] = 5

    def r_pat_short():
        A.prop_atype('a', [1.0] * (M.ant - 1))

    def r_pat_type():
        A.prop_atype('a', 1.0, atype=M.ant + 1)

    def r_ext_type():
        A.extend(1.5)

    def r_ext_scale():
        S.atoms_extend(2, scale=True)

    def r_pbc():
        S.pbc = (True, False)

    def r_aid():
        A.prop('a', index=0, a_id=0)

    for name, fn, exc in (('wrong-length', r_len, ValueError), ('wrong-length-attr', r_len_attr, ValueError),
                          ('wrong-length-new', r_len_new, ValueError),
                          ('atype0-scalar', r_at0, ValueError), ('atype0-full', r_at0_full, ValueError),
                          ('atype0-prop', r_at0_prop, ValueError), ('too-many-masses', r_mass, ValueError),
                          ('setitem-other-properties', r_setitem, ValueError), ('atoms_ix-set-int', r_ix_type, ValueError),
                          ('prop_atype-short-list', r_pat_short, ValueError), ('prop_atype-missing-type', r_pat_type, ValueError),
                          ('extend-float', r_ext_type, TypeError), ('atoms_extend-int-scaled', r_ext_scale, ValueError),
                          ('pbc-shape', r_pbc, AssertionError), ('a_id-and-index', r_aid, ValueError)):
        try:
            fn()
            bad('not-refused:' + name, 'documented refusal %s did not raise' % name)
        except exc:
            pass
    chk.note('refusals-tried', 15)
    if not cmp_system(S, M, 'after-refusal:', out, tag) or out:
        return out
    # ---- 4. copying accessors: values, no shared memory, scribbling on the result changes nothing
    nacc = 0
    for key, (dtype, trail) in M.props.items():
        store = A.view[key]
        exp = [tolist(r[key]) for r in M.recs]
        for getter, gname in ((lambda: A.prop(key), 'prop'), (lambda: S.atoms_prop(key), 'atoms_prop'),
                              (lambda: A.prop(key=key, index=None), 'prop-kw')):
            if lean and gname == 'prop-kw':      # same call as 'prop', spelled with keywords
                continue
            got = getter()
            nacc += 1
            if not isinstance(got, np.ndarray) or got.dtype != store.dtype or got.tolist() != exp:
                bad('get-value:' + gname, '%s(%r) differs from the model' % (gname, key))
            elif np.shares_memory(got, store):
                bad('get-alias:' + gname, '%s(%r) shares memory with storage' % (gname, key))
            scribble(got)
        for idx in idx_check:
            r = resolve(idx, n)
            if r is None:
                continue
            index, rownums, kind = r
            e = exp[rownums[0]] if kind == 'int' else [exp[i] for i in rownums]
            for getter, gname in ((lambda: A.prop(key, index), 'prop-index'), (lambda: S.atoms_prop(key, index=index), 'atoms_prop-index')):
                if lean and gname == 'atoms_prop-index':     # plain delegation to Atoms.prop(key, index)
                    continue
                got = getter()
                nacc += 1
                g = got.tolist() if isinstance(got, (np.ndarray, np.generic)) else got
                if g != e:
                    bad('get-value:' + gname, '%s(%r, %s) differs from the model' % (gname, key, idx), observed=g, expected=e)
                elif isinstance(got, np.ndarray) and np.shares_memory(got, store):
                    bad('get-alias:' + gname, '%s(%r, %s) shares memory with storage' % (gname, key, idx))
                scribble(got)
    # scaled reads
    exp_rel = [cart_to_rel(r['pos']) for r in M.recs]
    got = S.atoms_prop('pos', scale=True)
    nacc += 1
    if not close(got, exp_rel):
        bad('get-value:atoms_prop-scaled', 'atoms_prop(pos, scale=True) differs from (pos-origin).vects^-1', observed=got, expected=exp_rel)
    elif np.shares_memory(got, A.view['pos']):
        bad('get-alias:atoms_prop-scaled', 'scaled read shares memory with storage')
    scribble(got)
    for idx in idx_check:
        r = resolve(idx, n)
        if r is None:
            continue
        index, rownums, kind = r
        got = S.atoms_prop('pos', index=index, scale=True)
        nacc += 1
        e = exp_rel[rownums[0]] if kind == 'int' else [exp_rel[i] for i in rownums]
        if not close(got, e):
            bad('get-value:atoms_prop-index-scaled', 'atoms_prop(pos, %s, scale=True) differs' % idx, observed=got, expected=e)
        elif np.shares_memory(got, A.view['pos']):
            bad('get-alias:atoms_prop-index-scaled', 'scaled indexed read shares memory with storage')
        scribble(got)
        # copies of sub-sets of atoms
        for getter, gname, scaled in ((lambda: A.prop(index=index), 'prop(index)', False),
                                      (lambda: S.atoms_prop(index=index), 'atoms_prop(index)', False),
                                      (lambda: S.atoms_prop(index=index, scale=True), 'atoms_prop(index,scaled)', True)):
            if lean and gname == 'atoms_prop(index)':      # plain delegation to Atoms.prop(index=index)
                continue
            C = getter()
            nacc += 1
            Mc = Model()
            Mc.props = OrderedDict(M.props)
            Mc.recs = [dict(M.recs[i]) for i in rownums]
            if scaled:
                if not close(C.view['pos'], [exp_rel[i] for i in rownums]):
                    bad('get-value:' + gname, 'scaled pos of the copied atoms differ')
                C.view['pos'] = [raw(M.recs[i]['pos']) for i in rownums]
            sub = []
            if not isinstance(C, Atoms) or not cmp_atoms(C, Mc, 'get-value:%s:' % gname, sub, tag):
                out.extend(sub or [Fail(key='get-type:%s@%s' % (gname, tag), msg='not an Atoms')])
                continue
            if any(np.shares_memory(C.view[key], A.view[key]) for key in M.props):
                bad('get-alias:' + gname, '%s with index %s shares memory with its parent' % (gname, idx))
            for key in M.props:
                if key != 'atype':
                    C.view[key][...] = 77
    for gname in ('whole', 'whole-scaled'):
        C = S.atoms_prop(scale=(gname == 'whole-scaled'))
        nacc += 1
        if gname == 'whole':
            if C != list(M.props):
                bad('get-value:atoms_prop()', 'atoms_prop() is not the list of keys')
            continue
        if not isinstance(C, Atoms) or C.natoms != n or not close(C.view['pos'], exp_rel) or \
                any(np.shares_memory(C.view[key], A.view[key]) for key in M.props):
            bad('get-alias:atoms_prop(scaled)', 'atoms_prop(scale=True) is not an independent scaled copy')
        else:
            for key in M.props:
                if key != 'atype':
                    C.view[key][...] = 77
    for name, exp in (('vects', VECTS), ('origin', ORIGIN)):
        got = getattr(S.box, name)
        nacc += 1
        if got.tolist() != exp:
            bad('box-' + name, 'box.%s changed' % name)
        scribble(got)
        if getattr(S.box, name).tolist() != exp:
            bad('get-alias:box.' + name, 'box.%s hands out its storage' % name)
    chk.note('accessor-reads', nacc)
    # tables
    for scale in (None, False, True):
        if lean and scale is False:                # same table as Atoms.df()
            continue
        df = A.df() if scale is None else S.atoms_df(scale=scale)
        cols, data = [], []
        for key, (dtype, trail) in M.props.items():
            if trail == ():
                cols.append(key)
                data.append([r[key] for r in M.recs])
            else:
                for c in range(trail[0]):
                    cols.append('%s[%d]' % (key, c))
                    if scale and key == 'pos':
                        data.append([exp_rel[i][c] for i in range(n)])
                    else:
                        data.append([r[key][c] for r in M.recs])
        if list(df.columns) != cols or len(df) != n:
            bad('df-shape', 'table has columns %r and %d rows' % (list(df.columns), len(df)), expected=cols)
        else:
            tab = df.to_numpy(dtype=float)          # (natoms, ncolumns)
            exp_tab = np.array(data, dtype=float).T
            if not close(tab, exp_tab):
                c = [cols[j] for j in range(len(cols)) if not close(tab[:, j], exp_tab[:, j])]
                bad('df-values', 'column(s) %s of the table differ from the model' % c)
    # deep copy: equal, independent (every state of depth <= 2; thorough: every state)
    D = None if lean else copy.deepcopy(S)
    if D is None:
        pass
    elif D.atoms is A or not cmp_system(D, M, 'deepcopy:', out, tag):
        bad('deepcopy', 'deepcopy(System) is not an equal independent object')
    else:
        for key in M.props:
            if np.shares_memory(D.atoms.view[key], A.view[key]):
                bad('deepcopy-alias', 'deepcopy shares %s' % key)
            if key != 'atype':
                D.atoms.view[key][...] = 77
        D.atoms_ix[0] = D.atoms_ix[-1]
        D.symbols = ['X'] * (nt + 1)
        D.pbc = (False, False, False)
    # ---- 5. nothing of the above may have touched the state or the retired operands
    cmp_system(S, M, 'after-reads:', out, tag)
    for label, obj, Mo in st.retired:
        if isinstance(obj, System):
            cmp_system(obj, Mo, 'operand-changed-after-reads:', out, tag)
        else:
            cmp_atoms(obj, Mo, 'operand-changed-after-reads:', out, tag)
    return out


IDX_CHECK = IDX
ACTIVE_OPS = OPS


def run_bfs(oplist, depth, expand_all=False, cap=None):
    global ACTIVE_OPS
    ACTIVE_OPS = oplist
    ex = Explorer(chk, 'history', build, ops, check, canon, max_depth=depth, expand_all=expand_all, state_cap=cap)
    return ex.run()


if __name__ == '__main__':
    # development knob (mutant screening on a loaded machine): C06_DEPTH=2 stops the quick search after the complete
    # depth-2 level; such a run is reported as capped, never as exhaustive
    dev_depth = int(os.environ.get('C06_DEPTH', '3'))
    if not THOROUGH:
        if not os.environ.get('VERIF_REPLAY'):       # a replay always gets the full battery
            TRIM_LAST, LEAN_FROM = 2, 3
        if dev_depth < 3:
            chk.capped.append('C06_DEPTH=%d: development run, search stopped after depth %d' % (dev_depth, dev_depth))
        cov = run_bfs(OPS, min(3, dev_depth))
        cov['bound'] = ('all histories of depth <= 2 over %d operation instances, each extended by every enabled one of the '
                        '%d representative instances as third operation (dedup on the model state); states of depth 3 '
                        'are read back with one index of each kind' % (len(OPS), len(OPS) - len(VARIANTS_NOT_LAST)))
    else:
        full = OPS + EXTRA_THOROUGH
        cov = run_bfs(full, 3)
        core = [op for op in full if op['name'] in CORE_NAMES]
        cov2 = run_bfs(core, 4)
        cov['bound'] = ('all histories of depth <= 3 over %d operation instances and of depth <= 4 over a %d-instance '
                        'core alphabet (dedup on the model state)' % (len(full), len(core)))
        cov['core_states'] = cov2['states']
        cov['core_transitions'] = cov2['transitions']
        cov['core_max_depth_completed'] = cov2['max_depth_completed']
        cov['transitions'] += cov2['transitions']
        cov['traces_validated_against_impl'] += cov2['traces_validated_against_impl']
    cov['distinct_nontrivial'] = cov['states']
    cov['operation_instances'] = len(ACTIVE_OPS) if not THOROUGH else len(OPS + EXTRA_THOROUGH)
    sys.exit(chk.finish(cov))
