"""C15 - point defects: vacancy / interstitial / substitutional / dumbbell / point.

Explicit-state search.  A state is one real atomman.System reached from one of a
few root systems by a history of successive defect insertions, carried together
with a reference model: a plain list of per-atom records (original index in the
root, position, type, properties, old_id).  The model performs the insertion
with list operations only (pop / append), finds the site addressed by a
position with its own brute-force minimum-image search, and knows which calls
have to be refused.  BFS with de-duplication on the model state; every
transition is compared

  (A) with the input of that step through the model's index mapping, bit for bit
      (survivors keep position / type / every property / relative order, the
      input object equals its snapshot, the result shares no storage with it),
  (B) with the model state (count, cell, defect atoms last with the requested
      values, old_id == index in the ROOT system for every survivor -> the map
      composes over the history, state by position == state by index).
"""
import itertools
import json
import sys

import numpy as np

from mc.common import Check, Explorer, Fail, SEED, THOROUGH, assert_overlay

am = assert_overlay()
from atomman.defect import point, vacancy, interstitial, substitutional, dumbbell  # noqa: E402

chk = Check('C15', 'model_checking',
            'BFS over histories root-system x <=2 (quick) / <=3 (thorough; third step from a reduced alphabet) successive '
            'defect insertions; per state the alphabet is every defect type x {every index in [-n-1, n], Cartesian and '
            'box-relative position of every atom, each of the 26 neighbouring lattice images, offsets 0.5*atol and 2*atol '
            'in 2 directions, custom atol} x keyword menus (atype, per-atom property values, old_id, db_vect Cartesian / '
            'relative / tiny), free / occupied / image interstitial sites, direct call and through point(), and the '
            'refused keyword combinations; a state is distinct by its model state (records in order with original-index '
            'chain); every transition is compared step-locally (bitwise) and against the list-of-records model')
chk.assumptions = [
    'new positions (relative->Cartesian, +-db_vect) compared to 1e-12*(max|vects|+max|origin|); survivors bitwise',
    'search tolerance: np.isclose(dist, 0, atol) i.e. dist <= atol; every menu position is >= 1e-3*atol (1e-6 A, 1e9 x '
    'rounding) away from the tolerance sphere of every atom (asserted by the harness; a closer position is a harness error)',
    'positions are passed as float arrays / float lists (System.dvect treats integer arrays as indices - documented)',
    'old_id of a NEW atom (interstitial, second dumbbell atom) is not specified unless requested with old_id=; the '
    'model adopts the observed value, requires that it differs from the original index of every surviving atom (otherwise old_id would not identify survivors) and that it is carried unchanged afterwards',
    'a vacancy in a one-atom system is not enumerated (atomman cannot represent a System without atoms)',
    'refusal = ValueError / AssertionError / TypeError / IndexError raised before anything is returned',
    'cells are mildly triclinic so that the model\'s image search over shifts in [-3,3]^3 is exhaustive',
    'a position that meets an atom only through a shift of >= 2 cells (possible after an interstitial was requested '
    'outside the cell) is outside the quantifier: atomman documents nearest-image search over shifts -1,0,+1 (C02)',
]

REFUSALS = (ValueError, AssertionError, TypeError, IndexError)
ATOL0 = 0.01          # documented default search tolerance (angstrom, default working units)
ATOL1 = 0.001         # custom tolerance of the alphabet


# --------------------------------------------------------------------------
# root systems

def chol(a, b, c, al, be, ga):
    ca, cb, cg = np.cos(np.radians([al, be, ga]))
    G = np.array([[a * a, a * b * cg, a * c * cb], [a * b * cg, b * b, b * c * ca], [a * c * cb, b * c * ca, c * c]])
    return np.linalg.cholesky(G)


def _roots():
    R = []
    # R0: triclinic cell, generic origin, 3 atoms / 2 types, float + int property
    v = np.array([[4.1, 0, 0], [0.6, 4.5, 0], [-0.4, 0.7, 5.0]])
    R.append(dict(name='triclinic', vects=v, origin=np.array([1.3, -2.7, 0.45]), pbc=(True, True, True),
                  rel=np.array([[0.12, 0.21, 0.33], [0.61, 0.55, 0.42], [0.35, 0.83, 0.87]]), atype=[1, 2, 1],
                  props=dict(charge=np.array([0.5, -1.25, 2.0]), tag=np.array([7, 8, 9])), symbols=('Al', 'Cu'),
                  free=[[0.5, 0.5, 0.5], [1.27, -0.31, 0.66]]))
    # R1: cubic 2x1x1 cell, atoms on the cell corner / face, z not periodic, vector property
    v = np.diag([6.0, 3.0, 3.0])
    R.append(dict(name='cubic2x1x1', vects=v, origin=np.zeros(3), pbc=(True, True, False),
                  rel=np.array([[0.0, 0.0, 0.0], [0.5, 0.0, 0.0]]), atype=[1, 1],
                  props=dict(spin=np.array([[0.0, 0.0, 1.0], [0.0, 0.0, -1.0]])), symbols=('Fe',),
                  free=[[0.25, 0.5, 0.5], [-0.75, 1.5, 0.5]]))
    # R2: two atoms 0.004 apart (ambiguous under the default tolerance, distinct under atol=0.001)
    v = np.diag([5.0, 6.0, 7.0])
    o = np.array([-2.0, 0.5, 1.0])
    a = np.array([0.2, 0.3, 0.4]) @ v + o
    b = a + 0.004 * np.array([0.6, 0.0, 0.8])
    c = np.array([0.7, 0.6, 0.5]) @ v + o
    R.append(dict(name='close-pair', vects=v, origin=o, pbc=(True, True, True),
                  cart=np.array([a, b, c]), atype=[1, 1, 2],
                  props=dict(charge=np.array([1.0, 2.0, 3.0])), symbols=('Ni', 'Al'),
                  free=[[0.45, 0.15, 0.8], [0.45, 1.15, -0.2]]))
    # R3: seed-dependent generic cell, negative origin, old_id already present (composition from step 1)
    s = SEED % 8
    v = chol(3.9 + 0.23 * s, 4.4 - 0.11 * s, 5.3 + 0.17 * s, 84 + 1.3 * s, 96 - 0.9 * s, 101 + 0.7 * s)
    R.append(dict(name='seed%d-with-old_id' % s, vects=v, origin=np.array([-5.0 - 0.3 * s, -6.0 + 0.2 * s, -7.0]),
                  pbc=(True, True, True),
                  rel=np.array([[0.08 + 0.01 * s, 0.17, 0.29], [0.55, 0.61 - 0.01 * s, 0.38], [0.41, 0.78, 0.91 - 0.01 * s]]),
                  atype=[2, 1, 1], props=dict(tag=np.array([3, 4, 5]), old_id=np.array([10, 11, 12])),
                  symbols=('Cu', 'Zr'), free=[[0.5, 0.25, 0.6], [-0.5, 0.25, 1.6]]))
    for r in R:
        if 'cart' not in r:
            r['cart'] = r['rel'] @ r['vects'] + r['origin']
        sh = [range(-3, 4) if p else [0] for p in r['pbc']]
        r['shifts'] = np.array(list(itertools.product(*sh)), float) @ r['vects']
        sh = [range(-1, 2) if p else [0] for p in r['pbc']]
        r['shifts1'] = np.array(list(itertools.product(*sh)), float) @ r['vects']
        r['scale'] = np.abs(r['vects']).max() + np.abs(r['origin']).max()
    return R


ROOTS = _roots()
IMAGES26 = [list(i) for i in itertools.product([-1, 0, 1], repeat=3) if any(i)]
FACES6 = [[1, 0, 0], [-1, 0, 0], [0, 1, 0], [0, -1, 0], [0, 0, 1], [0, 0, -1]]
OFFDIR = [np.array([1.0, 0.0, 0.0]), np.array([-2.0, 1.0, 2.0]) / 3.0]
PROPVAL = dict(charge=-3.5, tag=42, spin=[0.5, -0.5, 0.25])
DBV = [('cart', [0.31, -0.12, 0.2]), ('rel', [0.04, 0.07, -0.05]), ('cart', [0.002, 0.0, 0.0])]

# keyword menus: kw 0 = none, 1 = every extra property of the system (+ atype for db), 2 = old_id=77
PARAMS = {
    'v': [dict()],
    's': [dict(atype=None, kw=0), dict(atype=2, kw=0), dict(atype=3, kw=1)],
    'db': [dict(d=0, kw=0), dict(d=0, kw=1), dict(d=2, kw=0), dict(d=0, kw=2)],
    'i': [dict(atype=None, kw=0), dict(atype=2, kw=1), dict(atype=3, kw=0), dict(atype=None, kw=2)],
}
EXTPAR = {'v': dict(), 's': dict(atype=3, kw=0), 'db': dict(d=0, kw=0), 'i': dict(atype=None, kw=0)}


def make_root(k):
    r = ROOTS[k]
    kw = {n: v.copy() for n, v in r['props'].items()}
    atoms = am.Atoms(atype=list(r['atype']), pos=r['cart'].copy(), **kw)
    box = am.Box(vects=r['vects'].copy(), origin=r['origin'].copy())
    return am.System(atoms=atoms, box=box, pbc=r['pbc'], symbols=r['symbols'])


def root_records(k):
    r = ROOTS[k]
    recs = []
    for j in range(len(r['atype'])):
        props = {n: np.array(v[j]) for n, v in r['props'].items() if n != 'old_id'}
        oid = int(r['props']['old_id'][j]) if 'old_id' in r['props'] else j
        recs.append(dict(orig=oid, pos=r['cart'][j].copy(), atype=int(r['atype'][j]), props=props, old_id=oid))
    return recs


# --------------------------------------------------------------------------
# the alphabet

def alphabet(n, k, reduced):
    """all operation instances enabled in a state with n atoms of root k."""
    ops = []
    images = FACES6 if reduced else IMAGES26
    for t in ('v', 's', 'db'):
        if t == 'v' and n == 1:
            continue
        # BASE selectors x full keyword menu x (direct, point)
        for pi in range(len(PARAMS[t])):
            for via in (('direct',) if reduced else ('direct', 'point')):
                for j in range(n):
                    ops.append(dict(op=t, via=via, sel='id', id=j, par=pi))
                    ops.append(dict(op=t, via=via, sel='pos', atom=j, mode='cart', par=pi))
        # EXT selectors x one keyword setting
        for j in list(range(-n - 1, 0)) + [n]:
            ops.append(dict(op=t, via='direct', sel='id', id=j))
        for j in range(n):
            ops.append(dict(op=t, via='direct', sel='pos', atom=j, mode='rel'))
            ops.append(dict(op=t, via='point', sel='pos', atom=j, mode='rel', img=[1, -1, 0]))
            for img in images:
                ops.append(dict(op=t, via='direct', sel='pos', atom=j, mode='cart', img=img))
            if not reduced or THOROUGH:
                for img in FACES6:
                    ops.append(dict(op=t, via='direct', sel='pos', atom=j, mode='rel', img=img))
            for di in range(1 if reduced else 2):
                for f in (0.5, 2.0):
                    ops.append(dict(op=t, via='direct', sel='pos', atom=j, mode='cart', off=[di, f]))
                    ops.append(dict(op=t, via='direct', sel='pos', atom=j, mode='cart', off=[di, f], atol=1))
            ops.append(dict(op=t, via='direct', sel='pos', atom=j, mode='rel', img=[0, 1, 1], off=[1, 0.5]))
            ops.append(dict(op=t, via='direct', sel='pos', atom=j, mode='cart', atol=1))
        if t == 'db':
            # box-relative db_vect with index and with relative position
            for j in range(n):
                ops.append(dict(op=t, via='direct', sel='id', id=j, par=0, dbrel=1))
                ops.append(dict(op=t, via='point', sel='id', id=j - n, par=1, dbrel=1))
                ops.append(dict(op=t, via='direct', sel='pos', atom=j, mode='rel', par=1, dbrel=1))
        # refused keyword combinations
        ops.append(dict(op=t, via='direct', sel='both', id=0, atom=0, mode='cart'))
        ops.append(dict(op=t, via='direct', sel='none'))
        ops.append(dict(op=t, via='point', sel='both', id=0, atom=0, mode='cart'))
        ops.append(dict(op=t, via='point', sel='none'))
    # interstitials
    nfree = len(ROOTS[k]['free'])
    for pi in range(len(PARAMS['i'])):
        for via in (('direct',) if reduced else ('direct', 'point')):
            for f in range(nfree):
                ops.append(dict(op='i', via=via, site='free', f=f, mode='rel', par=pi))
            ops.append(dict(op='i', via=via, site='free', f=0, mode='cart', par=pi))
    for j in range(n):
        ops.append(dict(op='i', via='direct', site='atom', atom=j, mode='cart'))
        ops.append(dict(op='i', via='point', site='atom', atom=j, mode='rel'))
        for img in images:
            ops.append(dict(op='i', via='direct', site='atom', atom=j, mode='cart', img=img))
        for f in (0.5, 2.0):
            ops.append(dict(op='i', via='direct', site='atom', atom=j, mode='cart', off=[1, f]))
        ops.append(dict(op='i', via='direct', site='atom', atom=j, mode='cart', off=[0, 2.0], atol=1))
        ops.append(dict(op='i', via='direct', site='atom', atom=j, mode='rel', img=[-1, 0, 1], off=[0, 0.5], atol=1))
    # dispatcher refusals
    for bad in ('v+db_vect', 'v+kwargs', 'i+ptd_id', 'i+db_vect', 's+db_vect', 'badtype'):
        ops.append(dict(op='bad', what=bad))
    return ops


# --------------------------------------------------------------------------
# reference model

def mi_dist(root, p, q, key='shifts'):
    d = (q - p)[None, :] + root[key]
    return float(np.sqrt((d * d).sum(axis=1).min()))


def within_one_image(root, recs, op):
    """The statement speaks of selecting a site 'through a periodic image'; the periodic separation of atomman is
    documented (C02) for shifts of -1, 0, +1 per direction.  An operation whose position coincides (within atol) with an
    atom only through a shift of two or more cells is outside the quantifier and is not enumerated."""
    if op.get('sel') not in ('pos', 'both') and op.get('op') != 'i':
        return True
    p, arg, atol = position_of(root, recs, op)
    for r in recs:
        if (mi_dist(root, p, r['pos']) <= atol) != (mi_dist(root, p, r['pos'], 'shifts1') <= atol):
            return False
    return True


def find_site(root, recs, p, atol):
    """indices of the records whose periodic distance from p is <= atol (plain search)."""
    hit = []
    for j, r in enumerate(recs):
        d = mi_dist(root, p, r['pos'])
        if abs(d - atol) < 1e-3 * atol:
            raise RuntimeError('harness: menu position %.3g from atom %d is too close to the tolerance %.3g' % (d, j, atol))
        if d <= atol:
            hit.append(j)
    return hit


def kwargs_of(root, t, par):
    """keyword values of menu entry par for defect type t: (atype, props dict)"""
    props = {}
    kw = par.get('kw', 0)
    atype = par.get('atype')
    if kw == 1:
        for n in root['props']:
            if n != 'old_id':
                props[n] = PROPVAL[n]
        if t == 'db':
            atype = 2
    elif kw == 2:
        props['old_id'] = 77
    return atype, props


def copy_rec(r):
    return dict(orig=r['orig'], pos=r['pos'].copy(), atype=r['atype'], old_id=r['old_id'],
                props={n: np.array(v) for n, v in r['props'].items()})


class St:
    pass


def position_of(root, recs, op):
    """Cartesian position addressed by a position selector and the argument passed to atomman."""
    atol = ATOL1 if op.get('atol') else ATOL0
    if op.get('site') == 'free':
        p = np.array(root['free'][op['f']], float) @ root['vects'] + root['origin']
    else:
        p = recs[op['atom']]['pos'].copy()
    if 'img' in op:
        p = p + np.array(op['img'], float) @ root['vects']
    if 'off' in op:
        di, f = op['off']
        p = p + OFFDIR[di] * (f * atol)
    if op['mode'] == 'rel':
        arg = np.linalg.solve(root['vects'].T, p - root['origin']).tolist()      # independent inverse, list input
        p = np.array(arg) @ root['vects'] + root['origin']
    else:
        arg = p.copy()
    return p, arg, atol


def snapshot(s):
    d = dict(natoms=int(s.natoms), vects=np.array(s.box.vects), origin=np.array(s.box.origin),
             pbc=tuple(bool(x) for x in s.pbc), symbols=tuple(s.symbols), names=list(s.atoms_prop()))
    d['props'] = {n: np.array(s.atoms.view[n]) for n in d['names']}
    return d


def snap_diff(a, b):
    out = []
    for key in ('natoms', 'pbc', 'symbols', 'names'):
        if a[key] != b[key]:
            out.append(key)
    for key in ('vects', 'origin'):
        if not np.array_equal(a[key], b[key]):
            out.append(key)
    if a['names'] == b['names']:
        for n in a['names']:
            x, y = a['props'][n], b['props'][n]
            if x.shape != y.shape or x.dtype != y.dtype or not np.array_equal(x, y):
                out.append('prop:' + n)
    return out


def step(root, sys_in, recs, has_old, op):
    """one operation on the real system and on the model.
    returns dict(result system or None, exception, model: new records or None (refusal), mapping ...)"""
    t = op['op']
    out = dict(op=op, sys_in=sys_in, snap_in=snapshot(sys_in), recs_in=recs, exc=None, res=None,
               exp_refuse=None, recs_out=None, mapping=None, nnew=0, observed_oid=[])
    n = len(recs)
    # ---- dispatcher refusals
    if t == 'bad':
        w = op['what']
        p0 = recs[0]['pos'].copy()
        calls = {
            'v+db_vect': lambda: point(sys_in, ptd_type='v', ptd_id=0, db_vect=[0.1, 0.0, 0.0]),
            'v+kwargs': lambda: point(sys_in, ptd_type='v', ptd_id=0, atype=2),
            'i+ptd_id': lambda: point(sys_in, ptd_type='i', pos=np.array(root['free'][0]), scale=True, ptd_id=0),
            'i+db_vect': lambda: point(sys_in, ptd_type='i', pos=np.array(root['free'][0]), scale=True, db_vect=[0.1, 0.0, 0.0]),
            's+db_vect': lambda: point(sys_in, ptd_type='s', pos=p0, atype=3, db_vect=[0.1, 0.0, 0.0]),
            'badtype': lambda: point(sys_in, ptd_type='x', ptd_id=0),
        }
        out['exp_refuse'] = 'keyword combination ' + w
        try:
            out['res'] = calls[w]()
        except Exception as e:
            out['exc'] = e
        return out
    par = PARAMS[t][op['par']] if 'par' in op else EXTPAR[t]
    atype, props = kwargs_of(root, t, par)
    call = {}
    # ---- site
    site = None
    refuse = None
    if t == 'i':
        p, arg, atol = position_of(root, recs, op)
        call['pos'] = arg
        if op['mode'] == 'rel':
            call['scale'] = True
        if op.get('atol'):
            call['atol'] = atol
        if find_site(root, recs, p, atol):
            refuse = 'occupied site'
    else:
        sel = op['sel']
        if sel in ('id', 'both'):
            call['ptd_id'] = op['id']
            j = op['id']
            if j < -n or j >= n:
                refuse = 'index out of range'
            else:
                site = j % n
        if sel in ('pos', 'both'):
            p, arg, atol = position_of(root, recs, op)
            call['pos'] = arg
            if op['mode'] == 'rel':
                call['scale'] = True
            if op.get('atol'):
                call['atol'] = atol
            hits = find_site(root, recs, p, atol)
            if len(hits) == 0:
                refuse = 'absent site'
            elif len(hits) > 1:
                refuse = 'ambiguous site'
            else:
                site = hits[0]
        if sel == 'both':
            refuse = 'pos and ptd_id together'
        if sel == 'none':
            refuse = 'neither pos nor ptd_id'
    # ---- keywords
    if t in ('s', 'i') and atype is not None:
        call['atype'] = atype
    if t == 'db':
        kind, d = DBV[1] if (op.get('dbrel') or call.get('scale')) else DBV[par['d']]
        call['db_vect'] = np.array(d)
        if kind == 'rel':
            call['scale'] = True
            dcart = np.array(d) @ root['vects']            # a vector: no origin
        else:
            dcart = np.array(d)
            if call.get('scale'):
                raise RuntimeError('harness: Cartesian db_vect with scale=True')
        if atype is not None:
            call['atype'] = atype
    call.update(props)
    if t == 's' and refuse is None and recs[site]['atype'] == (1 if atype is None else atype):
        refuse = 'atom already of the requested type'
    # ---- real call
    try:
        if op['via'] == 'point':
            out['res'] = point(sys_in, ptd_type=t, **call)
        else:
            out['res'] = dict(v=vacancy, s=substitutional, db=dumbbell, i=interstitial)[t](sys_in, **call)
    except Exception as e:
        out['exc'] = e
    out['call'] = {k: (v.tolist() if isinstance(v, np.ndarray) else v) for k, v in call.items()}
    out['exp_refuse'] = refuse
    if refuse is not None:
        return out
    # ---- model transition (list operations only)
    new = [copy_rec(r) for r in recs]
    mapping = list(range(n))            # mapping[new index] = old index (for bitwise comparison), None for new atoms
    changed = {}                        # new index -> names allowed to differ from the mapped input atom
    if t == 'v':
        new.pop(site)
        mapping.pop(site)
    elif t == 's':
        r = new.pop(site)
        mapping.pop(site)
        r['atype'] = 1 if atype is None else atype
        ch = {'atype'}
        for name, val in props.items():
            r['props'][name] = np.array(val)
            ch.add(name)
        new.append(r)
        mapping.append(site)
        changed[len(new) - 1] = ch
    elif t == 'db':
        r = new.pop(site)
        mapping.pop(site)
        r2 = copy_rec(r)
        r['pos'] = r['pos'] - dcart
        r2['pos'] = r2['pos'] + dcart
        r2['orig'] = None
        r2['old_id'] = None
        ch = {'pos', 'old_id'}
        if atype is not None:
            r2['atype'] = atype
            ch.add('atype')
        for name, val in props.items():
            if name == 'old_id':
                r2['old_id'] = int(val)
            else:
                r2['props'][name] = np.array(val)
                ch.add(name)
        new.append(r)
        new.append(r2)
        mapping.append(site)
        mapping.append(site)
        changed[len(new) - 2] = {'pos'}
        changed[len(new) - 1] = ch
        out['nnew'] = 1
    elif t == 'i':
        r = dict(orig=None, pos=p.copy(), atype=1 if atype is None else atype, old_id=None, props={})
        for name, v in recs[0]['props'].items():
            r['props'][name] = np.zeros_like(v)
        for name, val in props.items():
            if name == 'old_id':
                r['old_id'] = int(val)
            else:
                r['props'][name] = np.array(val)
        new.append(r)
        mapping.append(None)
        out['nnew'] = 1
    out['recs_out'] = new
    out['mapping'] = mapping
    out['changed'] = changed
    # the old_id of a new atom is unspecified unless requested: adopt the observed value
    res = out['res']
    if res is not None and out['nnew'] and new[-1]['old_id'] is None:
        try:
            new[-1]['old_id'] = int(res.atoms.view['old_id'][-1])
            out['observed_oid'].append(new[-1]['old_id'])
        except Exception:
            new[-1]['old_id'] = None
    return out


def consistent(root, s, recs):
    """cheap agreement of the real system with the model (used to stop expanding broken states)."""
    try:
        if s.natoms != len(recs):
            return False
        tol = 1e-12 * root['scale']
        pos = s.atoms.view['pos']
        at = s.atoms.view['atype']
        oid = s.atoms.view['old_id']
        for j, r in enumerate(recs):
            if np.abs(pos[j] - r['pos']).max() > tol or int(at[j]) != r['atype'] or int(oid[j]) != r['old_id']:
                return False
        return True
    except Exception:
        return False


def advance(root, base, op):
    """one operation on the state base = dict(s, recs, has_old, broken); the objects of base are not modified"""
    r = step(root, base['s'], base['recs'], base['has_old'], op)
    nxt = dict(base)
    refused = r['exc'] is not None
    if refused != (r['exp_refuse'] is not None) or (refused and not isinstance(r['exc'], REFUSALS)):
        nxt['broken'] = True
    if not refused and r['res'] is not None and r['recs_out'] is not None:
        nxt.update(s=r['res'], recs=r['recs_out'], has_old=True)
        if not consistent(root, nxt['s'], nxt['recs']):
            nxt['broken'] = True
    elif not refused and r['res'] is not None:
        nxt['broken'] = True            # accepted although the model refuses: no model successor
    return nxt, r


_CACHE = {}     # json(history) -> state reached by it; only objects that were never handed to check()


def prefix_state(hist):
    """The state reached by a non-empty history, replayed on fresh objects.  The last two prefixes are memoised per
    worker; a memoised system is re-used only while it still equals the snapshot taken when it was built (an insertion
    that modified its input therefore cannot leak into later cases: the prefix is then replayed from the root)."""
    key = json.dumps(hist, sort_keys=True)
    c = _CACHE.get(key)
    if c is not None and not snap_diff(c['snap'], snapshot(c['s'])):
        return c
    k = hist[0]['k']
    if len(hist) == 1:
        c = dict(s=make_root(k), recs=root_records(k), has_old='old_id' in ROOTS[k]['props'], broken=False)
    else:
        c, _ = advance(ROOTS[k], prefix_state(hist[:-1]), hist[-1])
    c['snap'] = snapshot(c['s'])
    if len(_CACHE) > 6:
        _CACHE.clear()
    _CACHE[key] = c
    return c


def build(hist):
    st = St()
    st.depth = len(hist)
    st.k = None
    st.last = None
    st.broken = False
    if not hist:
        return st
    k = hist[0]['k']
    root = ROOTS[k]
    st.k, st.root = k, root
    if len(hist) == 1:
        c = dict(s=make_root(k), recs=root_records(k), has_old='old_id' in root['props'], broken=False)
    else:
        base = prefix_state(hist[:-1])
        if base['broken']:
            c = base
        else:
            c, st.last = advance(root, base, hist[-1])      # fresh result objects: check() may perturb them
    st.sys, st.recs, st.has_old, st.broken = c['s'], c['recs'], c['has_old'], c['broken']
    return st


def canon(st):
    if st.k is None:
        return ('root',)
    out = [st.k, bool(st.has_old), bool(st.broken)]
    for r in st.recs:
        out.append((r['orig'], r['atype'], r['old_id'],
                    tuple(np.round(r['pos'] * 1e8).astype(np.int64).tolist()),
                    tuple((n, tuple(np.ravel(v).tolist())) for n, v in sorted(r['props'].items()))))
    return tuple(out)


def ops(st):
    if st.k is None:
        return [dict(op='sys', k=k) for k in range(len(ROOTS))]
    if st.broken:
        return []
    out = []
    for op in alphabet(len(st.recs), st.k, reduced=(st.depth >= 3)):
        if within_one_image(st.root, st.recs, op):
            out.append(op)
        else:
            chk.note('ops-skipped-two-images-away')
    return out


# --------------------------------------------------------------------------
# oracle

def check(hist, st):
    fails = []
    if st.k is None:
        return fails
    root = st.root

    def bad(key, msg, **kw):
        fails.append(Fail(key=key, msg=msg, **kw))

    if st.last is None and st.depth > 1:
        return fails                    # successor of a state that already failed (never expanded by the search)
    if st.last is None:
        # the root itself: harness sanity (model == real root)
        s = st.sys
        if s.natoms != len(st.recs) or not np.array_equal(s.atoms.view['pos'], np.array([r['pos'] for r in st.recs])):
            bad('harness-root', 'root system differs from its model')
        return fails
    L = st.last
    op = L['op']
    t = op['op']
    tag = '%s' % t
    s_in, res, exc = L['sys_in'], L['res'], L['exc']
    desc = 'op=%r call=%r' % (op, L.get('call'))
    # ---- input untouched (also after a refusal)
    d = snap_diff(L['snap_in'], snapshot(s_in))
    if d:
        bad('input-modified-' + tag, 'the input system was modified (%s); %s' % (','.join(d), desc))
    # ---- refusals
    if L['exp_refuse'] is not None:
        chk.note('refusals-expected')
        chk.note('refusal:' + L['exp_refuse'].split(' ')[0])
        if exc is None:
            bad('not-refused-%s-%s' % (tag, L['exp_refuse'].replace(' ', '_')),
                '%s was accepted but must be refused (%s); %s' % (t, L['exp_refuse'], desc))
        elif not isinstance(exc, REFUSALS):
            bad('refusal-type-%s' % tag, 'refused with %s: %s; %s' % (type(exc).__name__, exc, desc))
        return fails
    if exc is not None:
        bad('refused-%s-%s' % (tag, type(exc).__name__),
            'valid %s request raised %s: %s; %s' % (t, type(exc).__name__, exc, desc))
        return fails
    chk.note('accepted:' + t)
    if op.get('sel') == 'pos' or t == 'i':
        chk.note('accepted-by-position')
        if 'img' in op:
            chk.note('accepted-through-image')
    recs, mapping, changed = L['recs_out'], L['mapping'], L['changed']
    # ---- a new system
    if res is s_in or not isinstance(res, am.System):
        bad('not-new-' + tag, 'result is not a new System; ' + desc)
        return fails
    # ---- documented change in atom count
    delta = dict(v=-1, s=0, db=1, i=1)[t]
    if res.natoms != s_in.natoms + delta:
        bad('count-' + tag, 'natoms %d -> %d, documented change %+d; %s' % (s_in.natoms, res.natoms, delta, desc))
        return fails
    # ---- same cell
    if not np.array_equal(res.box.vects, L['snap_in']['vects']) or not np.array_equal(res.box.origin, L['snap_in']['origin']):
        bad('cell-' + tag, 'box of the result differs from the input box; ' + desc)
    if tuple(bool(x) for x in res.pbc) != L['snap_in']['pbc']:
        bad('pbc-' + tag, 'pbc of the result differs; ' + desc)
    sy_in = L['snap_in']['symbols']
    if tuple(res.symbols)[:len(sy_in)] != sy_in:
        bad('symbols-' + tag, 'symbols changed %r -> %r; %s' % (sy_in, res.symbols, desc))
    # ---- property set: same names (+ old_id)
    names_in = L['snap_in']['names']
    names = list(res.atoms_prop())
    if 'old_id' not in names:
        bad('old_id-missing-' + tag, 'result has no old_id property; ' + desc)
        return fails
    if sorted(set(names) - {'old_id'}) != sorted(set(names_in) - {'old_id'}):
        bad('propnames-' + tag, 'properties %r -> %r; %s' % (names_in, names, desc))
        return fails
    view = {nm: np.array(res.atoms.view[nm]) for nm in names}
    # ---- (A) step-local, bitwise: survivors in order, unchanged
    nres = res.natoms
    for jn in range(nres):
        jo = mapping[jn]
        if jo is None:
            continue
        allowed = changed.get(jn, set())
        for nm in names_in:
            if nm in allowed:
                continue
            x, y = view[nm][jn], L['snap_in']['props'][nm][jo]
            if not np.array_equal(x, y):
                which = 'survivor' if jn not in changed else 'defect-atom'
                bad('%s-%s-%s' % (which, 'prop' if nm not in ('pos', 'atype', 'old_id') else nm, tag),
                    'atom %d of the result (input atom %d): %s = %r, input has %r; %s' % (jn, jo, nm, x.tolist(), y.tolist(), desc))
    # ---- (B) against the model: order, requested values, old_id chain
    tol = 1e-12 * root['scale']
    nlast = dict(v=0, s=1, db=2, i=1)[t]
    for jn, r in enumerate(recs):
        where = 'defect-atom' if jn >= nres - nlast else 'survivor'
        if np.abs(view['pos'][jn] - r['pos']).max() > tol:
            bad('%s-pos-model-%s' % (where, tag), 'atom %d: pos %r, expected %r; %s' % (jn, view['pos'][jn].tolist(), r['pos'].tolist(), desc),
                observed=view['pos'][jn], expected=r['pos'])
        if int(view['atype'][jn]) != r['atype']:
            bad('%s-atype-model-%s' % (where, tag), 'atom %d: atype %r, expected %r; %s' % (jn, int(view['atype'][jn]), r['atype'], desc))
        for nm, val in r['props'].items():
            if view[nm][jn].shape != np.shape(val) or not np.array_equal(view[nm][jn], val):
                bad('%s-prop-model-%s' % (where, tag), 'atom %d: %s = %r, expected %r; %s' % (jn, nm, view[nm][jn].tolist(), np.asarray(val).tolist(), desc))
        o = view['old_id'][jn]
        if r['orig'] is not None:
            if not (np.issubdtype(view['old_id'].dtype, np.integer) or float(o) == int(o)) or int(o) != r['orig']:
                bad('old_id-%s-%s' % (where, tag), 'atom %d: old_id %r but it is atom %r of the first system of the history; %s'
                    % (jn, o.tolist(), r['orig'], desc))
            else:
                chk.note('old_id-survivors-verified')
        elif r['old_id'] is None or int(o) != r['old_id']:
            bad('old_id-requested-' + tag, 'atom %d: old_id %r, requested/expected %r; %s' % (jn, o.tolist(), r['old_id'], desc))
    # the old-index property must IDENTIFY each surviving atom: no new atom may carry the index of a survivor
    surv = {int(r['orig']) for r in recs if r['orig'] is not None}
    for jn, r in enumerate(recs):
        if r['orig'] is None and int(view['old_id'][jn]) in surv:
            bad('old_id-new-atom-collides-' + tag, 'new atom %d carries old_id %d, which is the original index of a surviving atom; %s'
                % (jn, int(view['old_id'][jn]), desc))
    if len(hist) >= 3:
        chk.note('composed-steps-verified')
    # ---- the result shares no storage with the input: perturb the result, re-read the input
    try:
        for nm in names:
            a = res.atoms.view[nm]
            a[...] = a + 1
        res.box.set(vects=2.0 * L['snap_in']['vects'], origin=L['snap_in']['origin'] + 1.0)
        res.pbc[0] = not res.pbc[0]
    except Exception as e:
        bad('perturb-' + tag, 'could not modify the result: %s: %s' % (type(e).__name__, e))
    d = snap_diff(L['snap_in'], snapshot(s_in))
    if d:
        bad('alias-' + tag, 'modifying the result changes the input system (%s); %s' % (','.join(d), desc))
    return fails



# --------------------------------------------------------------------------
# configurations: the search tolerance is documented as 0.01 ANGSTROM.  Under working units other than the default
# ones the same physical system (numbers in working units) must accept a site 0.005 A from an atom and refuse one
# 0.02 A away, and refuse / accept an interstitial accordingly.

UNIT_CONFIGS = [dict(length='angstrom', mass='amu', energy='eV', charge='e'), dict(length='nm', mass='amu', energy='eV', charge='e'),
                dict(length='pm', mass='amu', energy='eV', charge='e'), dict(length='m', mass='kg', energy='J', charge='C'),
                dict(length='cm', mass='g', time='s', charge='C')]


@chk.clause('units')
def units(case):
    import atomman.unitconvert as uc
    cfg = UNIT_CONFIGS[case['cfg']]
    fails = []
    uc.reset_units(**cfg)
    try:
        a = float(uc.set_in_units(4.05, 'angstrom'))
        tol = float(uc.set_in_units(0.01, 'angstrom'))
        o = np.array([0.3, -0.7, 0.2]) * a
        box = am.Box(vects=a * np.array([[1.0, 0, 0], [0.2, 1.1, 0], [-0.1, 0.3, 0.9]]), origin=o)
        rel = np.array([[0.0, 0.0, 0.0], [0.5, 0.5, 0.5], [0.25, 0.75, 0.5]])
        pos = rel @ box.vects + o
        s = am.System(atoms=am.Atoms(atype=[1, 2, 1], pos=pos), box=box, symbols=['Al', 'Ni'])
        dirs = [np.array([1.0, 0, 0]), np.array([0.0, -0.6, 0.8])]
        for k in range(3):
            for dvec in dirs:
                near, far = pos[k] + 0.5 * tol * dvec, pos[k] + 2.0 * tol * dvec
                calls = [('v', lambda p: vacancy(s, pos=p)), ('s', lambda p: substitutional(s, pos=p, atype=3 - int(s.atoms.atype[k]))),
                         ('db', lambda p: dumbbell(s, pos=p, db_vect=0.1 * a * np.array([0, 0, 1.0]))),
                         ('point-v', lambda p: point(s, ptd_type='v', pos=p))]
                for name, fn in calls:
                    chk.note('unit-config-calls', 2)
                    try:
                        r = fn(near)
                        want = {'v': 2, 's': 3, 'db': 4, 'point-v': 2}[name]
                        if r.natoms != want:
                            fails.append(Fail(key='units-%s-natoms' % name, msg='%s at 0.005 A from atom %d under %s: natoms %d' % (name, k, cfg, r.natoms)))
                    except ValueError as e:
                        fails.append(Fail(key='units-%s-near-refused' % name, msg='%s refused a site 0.005 angstrom from atom %d (documented tolerance 0.01 angstrom) under working units %s: %s' % (name, k, cfg, e)))
                    try:
                        fn(far)
                        fails.append(Fail(key='units-%s-far-accepted' % name, msg='%s accepted a site 0.02 angstrom from every atom (documented tolerance 0.01 angstrom) under working units %s' % (name, cfg)))
                    except ValueError:
                        pass
                chk.note('unit-config-calls', 2)
                try:
                    interstitial(s, pos=near)
                    fails.append(Fail(key='units-i-occupied-accepted', msg='interstitial accepted 0.005 angstrom from atom %d under working units %s' % (k, cfg)))
                except ValueError:
                    pass
                try:
                    r = interstitial(s, pos=far)
                    if r.natoms != 4:
                        fails.append(Fail(key='units-i-natoms', msg='interstitial natoms %d' % r.natoms))
                except ValueError as e:
                    fails.append(Fail(key='units-i-free-refused', msg='interstitial refused a site 0.02 angstrom from atom %d under working units %s: %s' % (k, cfg, e)))
                if fails:
                    return fails
    finally:
        uc.reset_units(length='angstrom', mass='amu', energy='eV', charge='e')
    return fails

if __name__ == '__main__':
    depth = 1 + (3 if THOROUGH else 2)
    ex = Explorer(chk, 'history', build, ops, check, canon, max_depth=depth)
    cov = ex.run()
    chk.run_cases((('units', {'cfg': c}) for c in range(len(UNIT_CONFIGS))), batch=1)
    cov['insertions_max'] = cov['max_depth_completed'] - 1
    cov['distinct_nontrivial'] = cov['states']
    cov['root_systems'] = len(ROOTS)
    cov['ops_in_3_atom_state'] = len(alphabet(3, 0, False))
    cov['ops_in_3_atom_state_reduced'] = len(alphabet(3, 0, True))
    sys.exit(chk.finish(cov))
