"""C17 - analysis tools recover a known imposed deformation.

Tools under test: atomman.displacement, atomman.defect.Strain (G, strain,
rotation, invariants, angular velocity, nye), atomman.defect.nye_tensor,
slip_vector, disregistry, DifferentialDisplacement.ddvectors.

Bounded-exhaustive enumeration (nothing sampled):

deform   crystals x deformation gradients x neighbour cutoffs x (renumbering, translation) variants:
         a hand-built perfect crystal is mapped by x -> F x + c (box included); oracle: displacement = the
         imposed (F-I)x + c, G = F^-T at every atom, strain/rotation/invariants/angular velocity from F^-T,
         Nye = 0, ddvector(i,j) = (F-I) d_ij, slip vector = sum_j (u_i-u_j).
slip     crystals x stacking axis x every plane position between layers x slip vectors x cutoffs x
         periodic/free stacking direction x one-sided/split slip x variants: oracle: displacement = u,
         slip vector_i = (u_own half - u_other half) * (number of neighbours in the other half, which includes
         the second slip plane made by the periodic boundary), disregistry rows = u_top - u_bottom,
         ddvector(i,j) = u_j - u_i for every pair of the tool's own neighbour list (reference 0 and 1),
         whose pair set must be the complete shell set.
slipstrain  Strain / nye_tensor on the slipped crystal (non-uniform G): G = I, strain = 0 away from the planes,
         Nye = 0 two shells away, Strain == nye_tensor (docstring of Strain.asdict), and every per-atom result
         is covariant under renumbering / common translation.

Every neighbour relation used by the oracle comes from an independent all-pairs computation on the ideal
crystal; the geometry guarantee  cutoff + |relative displacement| < w_min/2 - margin  (w_min = smallest
box width) makes every minimum image unique, so the oracle never has to choose an image:
a vector shorter than w_min/2 has all relative coordinates < 1/2 and is its own reduction.
"""
import functools
import itertools
import sys
import warnings

import numpy as np

from mc.common import Check, Fail, SEED, THOROUGH, assert_overlay

am = assert_overlay()

chk = Check('C17', 'exploration',
            'full product of the menus: 9 hand-built crystals (fcc, bcc, hcp, B2, zincblende; axis-aligned, re-oriented '
            'and generically rotated cells) x deformation gradients (I +- 0.01 E_ij, rotations 1/5 deg about x,y,z, 6 '
            'combinations, 1 seed slice) x 2 cutoffs (1st / 1st+2nd shell) x variants (4 renumberings x 4 translations; '
            'quick: identity + one variant per base configuration in round-robin, thorough: all 16); scaled: crystal, cell, reference vectors and cutoff times 1e-10 / 1e3 (neighbour pairs handed over); contested: first-shell reference vectors with a cutoff of 2.08 r1 reaching the collinear shell x deformation gradients x theta_max{27,10,50} on the 6 one-environment crystals; slips: stacking '
            'axis x EVERY interior plane between layers x 6 slip vectors (+1 seed slice) x 2 cutoffs x periodic/free '
            'stacking direction x one-sided/split (quick: the last two in a round-robin Latin pattern, thorough: full '
            'product) for all configurations that satisfy the uniqueness guarantee cutoff+|s| < w_min/2-0.25; a case is one '
            'pair of systems analysed by all tools; non-trivial = base configurations (variant excluded) with F != I '
            'or with atoms having neighbours across a slip plane')
chk.assumptions = [
    'absolute tolerance 1e-9 (lengths in angstrom, tensors dimensionless) on G, strain, rotation, displacement, slip '
    'vector, disregistry and ddvectors: all inputs are exact affine / rigid images so least squares has zero residual '
    'and the error is rounding (~1e-14 observed); invariant k has tolerance k*1e-9*max(|strain|,1e-3)^(k-1); Nye 1e-8',
    'cutoffs lie in shell gaps with >= 1e-3 relative margin in both the reference and the deformed system (asserted per case)',
    'all relative displacements + cutoff stay below half the smallest box width by 0.25 angstrom (asserted per case)',
    'slip vectors of the slipstrain clause are < 0.12 nearest-neighbour distances so every q vector matches its own p vector '
    '(no ties in the matching, which is order dependent only at ties)',
    'the neighbour list of atomman is compared with an all-pairs list first; a difference is reported under its own key '
    '(precondition-nlist) because it belongs to property C03',
]

TOL = 1e-9
TOL_NYE = 1e-8
MARGIN = 0.25
I3 = np.eye(3)


# --------------------------------------------------------------------------
# hand-built crystals

def rotm(axis, deg):
    axis = np.asarray(axis, float)
    axis = axis / np.linalg.norm(axis)
    t = np.radians(deg)
    K = np.array([[0, -axis[2], axis[1]], [axis[2], 0, -axis[0]], [-axis[1], axis[0], 0]])
    return np.eye(3) + np.sin(t) * K + (1 - np.cos(t)) * (K @ K)


OFFSET = np.array([0.137, 0.083, 0.061])


def _unit_cell(conv, basis, types, uvw, R):
    """Cell with vectors (uvw @ conv) expressed in the frame x_sys = R x_crystal; all lattice images of the
    conventional basis that fall inside.  Returns vects, relative positions, types."""
    uvw = np.asarray(uvw, float)
    newv = uvw @ conv
    inv = np.linalg.inv(newv)
    pts, ty = [], []
    rng = range(-4, 5)
    for n in itertools.product(rng, rng, rng):
        for b, t in zip(basis, types):
            f = ((np.asarray(n) + b) @ conv) @ inv
            fr = np.round(f, 9) + 0.0              # rounding only decides membership, the stored value is unrounded
            if np.all(fr >= 0) and np.all(fr < 1):
                pts.append(f)
                ty.append(t)
    pts = np.array(pts)
    pts = (pts + OFFSET) % 1.0                     # generic offset: no atom on a cell face
    nexp = int(round(abs(np.linalg.det(uvw)) * len(basis)))
    assert len(pts) == nexp, (len(pts), nexp)
    order = np.lexsort((pts[:, 0], pts[:, 1], pts[:, 2]))
    return newv @ R.T, pts[order], np.array(ty)[order]


def _align(uvw):
    u = np.asarray(uvw, float)
    return u / np.linalg.norm(u, axis=1)[:, None]


FCC = np.array([[0, 0, 0], [.5, .5, 0], [.5, 0, .5], [0, .5, .5]])
BCC = np.array([[0, 0, 0], [.5, .5, .5]])
HCP = np.array([[1 / 3, 2 / 3, .25], [2 / 3, 1 / 3, .75]])
ZB = np.vstack([FCC, FCC + .25])


def _crystals():
    out = []
    a = 4.05
    u111 = [[1, -1, 0], [1, 1, -2], [1, 1, 1]]
    out.append(dict(name='fcc-100', conv=a * I3, basis=FCC, types=[1] * 4, uvw=I3, R=I3, origin=[0, 0, 0],
                    cuts=[0.85 * a, 1.11 * a], coord=[12, 18], dsize=[(3, 3, 3), (4, 3, 3)], ssize=[(4, 4, 4), (5, 4, 4)],
                    axes=[2, 0], single_p=True))
    out.append(dict(name='fcc-111', conv=a * I3, basis=FCC, types=[1] * 4, uvw=[[.5, -.5, 0], [.5, .5, -1], [1, 1, 1]],
                    R=_align(u111), origin=[0.3, -0.2, 0.1],
                    cuts=[0.85 * a, 1.11 * a], coord=[12, 18], dsize=[(4, 2, 2), (4, 3, 2)], ssize=[(6, 4, 3), (7, 4, 3)],
                    axes=[2, 1], single_p=True))
    a = 2.87
    out.append(dict(name='bcc-100', conv=a * I3, basis=BCC, types=[1] * 2, uvw=I3, R=I3, origin=[-1.0, 0.5, 2.0],
                    cuts=[0.933 * a, 1.205 * a], coord=[8, 14], dsize=[(3, 3, 3), (3, 4, 3)], ssize=[(5, 5, 5), (5, 5, 6)],
                    axes=[2, 1], single_p=True))
    ub = [[1, 1, 1], [-1, 0, 1], [1, -2, 1]]
    out.append(dict(name='bcc-111', conv=a * I3, basis=BCC, types=[1] * 2, uvw=[[.5, .5, .5], [-1, 0, 1], [1, -2, 1]],
                    R=_align(ub), origin=[0, 0, 0],
                    cuts=[0.933 * a, 1.205 * a], coord=[8, 14], dsize=[(4, 2, 2), (5, 2, 2)], ssize=[(6, 4, 2), (6, 5, 2)],
                    axes=[1, 2], single_p=True))
    a, c = 3.2, 5.2
    hexv = np.array([[a, 0, 0], [-a / 2, a * np.sqrt(3) / 2, 0], [0, 0, c]])
    out.append(dict(name='hcp-hex', conv=hexv, basis=HCP, types=[1] * 2, uvw=I3, R=I3, origin=[0, 0, 0],
                    cuts=[3.85, 4.86], coord=[12, 18], dsize=[(4, 4, 3), (5, 4, 3)], ssize=[(6, 6, 3), (6, 6, 4)],
                    axes=[2, 0], single_p=False))
    out.append(dict(name='hcp-ortho-y', conv=hexv, basis=HCP, types=[1] * 2, uvw=[[1, 0, 0], [1, 2, 0], [0, 0, 1]],
                    R=rotm([1, 0, 0], -90.0) @ np.array([[1.0, 0, 0], [0, 1, 0], [0, 0, 1]]), origin=[0.1, 0.2, -0.3],
                    cuts=[3.85, 4.86], coord=[12, 18], dsize=[(4, 2, 3), (4, 3, 3)], ssize=[(5, 3, 3), (5, 3, 4)],
                    axes=[2, 1], single_p=False))
    a = 2.95
    out.append(dict(name='B2-100', conv=a * I3, basis=BCC, types=[1, 2], uvw=I3, R=I3, origin=[0, 0, 0],
                    cuts=[0.933 * a, 1.205 * a], coord=[8, 14], dsize=[(3, 3, 3), (3, 3, 4)], ssize=[(4, 4, 4), (4, 5, 4)],
                    axes=[2, 0], single_p=True))
    out.append(dict(name='B2-110-rotated', conv=a * I3, basis=BCC, types=[1, 2], uvw=[[1, 1, 0], [-1, 1, 0], [0, 0, 1]],
                    R=rotm([1, 2, 3], 37.0), origin=[2.0, -1.0, 0.7],
                    cuts=[0.933 * a, 1.205 * a], coord=[8, 14], dsize=[(2, 2, 3), (3, 2, 3)], ssize=[(3, 3, 4), (3, 4, 4)],
                    axes=[0, 2], single_p=True))
    a = 5.43
    out.append(dict(name='zincblende-111', conv=a * I3, basis=ZB, types=[1] * 4 + [2] * 4,
                    uvw=[[.5, -.5, 0], [.5, .5, -1], [1, 1, 1]], R=_align(u111), origin=[0, 0, 0],
                    cuts=[0.57 * a, 0.768 * a], coord=[4, 16], dsize=[(3, 2, 1), (3, 2, 2)], ssize=[(4, 3, 2), (5, 3, 2)],
                    axes=[2, 1], single_p=False))
    return out


CRYSTALS = _crystals()


def min_widths(vects):
    return 1.0 / np.linalg.norm(np.linalg.inv(vects), axis=0)


@functools.lru_cache(maxsize=None)
def crystal(ci, kind, si):
    """The supercell (built with real atomman objects: explicit Box and Atoms, then supersize) and the
    independent all-pairs geometry of the ideal crystal."""
    c = CRYSTALS[ci]
    vects, rel, types = _unit_cell(np.asarray(c['conv'], float), c['basis'], c['types'], c['uvw'], np.asarray(c['R'], float))
    origin = np.asarray(c['origin'], float)
    box = am.Box(vects=vects, origin=origin)
    atoms = am.Atoms(atype=types, pos=rel @ vects + origin)
    ucell = am.System(atoms=atoms, box=box, pbc=(True, True, True))
    size = c[kind][si]
    sup = ucell.supersize(*[int(s) for s in size])
    pos = np.array(sup.atoms.pos)
    V = np.array(sup.box.vects)
    o = np.array(sup.box.origin)
    # the supercell must be the unit cell repeated: lattice check independent of supersize
    assert np.allclose(V, vects * np.asarray(size)[:, None], atol=1e-12)
    assert len(pos) == len(rel) * int(np.prod(size))
    info = dict(c=c, ucell_vects=vects, pos=pos, vects=V, origin=o, atype=np.array(sup.atoms.atype), size=size,
                w=min_widths(V))
    return info


@functools.lru_cache(maxsize=12)
def pairs(ci, kind, si, pbc):
    """Minimum-image separation D[i,j] = x_j - x_i of the ideal crystal by reduction of the relative coordinates
    (exact for every vector shorter than w_min/2, the only ones used) and the shell radii."""
    info = crystal(ci, kind, si)
    pos, V = info['pos'], info['vects']
    inv = np.linalg.inv(V)
    d = pos[None, :, :] - pos[:, None, :]
    r = d @ inv
    r -= np.round(r) * np.asarray(pbc, float)
    D = r @ V
    L = np.linalg.norm(D, axis=2)
    np.fill_diagonal(L, np.inf)
    return D, L


def perm_index(N, k):
    """new atom m = old atom idx[m]"""
    idx = np.arange(N)
    if k == 0:
        return idx
    if k == 1:
        return idx[::-1].copy()
    if k == 2:
        step = N // 3 + 1
        while np.gcd(step, N) != 1:
            step += 1
        return (idx * step + 7) % N
    if k == 3:
        out = idx.copy()
        n2 = N - N % 2
        out[0:n2:2] = idx[1:n2:2]
        out[1:n2:2] = idx[0:n2:2]
        return out
    raise ValueError(k)


def wrap_shifts(pos, V, o, pbc):
    r = (pos - o) @ np.linalg.inv(V)
    return np.floor(r) * np.asarray(pbc, float)


def shells_ok(L, cutoff, smin, smax):
    """cutoff separates complete shells in the reference and in the deformed crystal"""
    inside = L[L < cutoff]
    outside = L[(L >= cutoff) & np.isfinite(L)]
    return inside.max() * max(smax, 1.0) * (1 + 1e-3) < cutoff < outside.min() * min(smin, 1.0) * (1 - 1e-3)


def cmp(fails, key, got, exp, tol, what=''):
    got = np.asarray(got)
    exp = np.asarray(exp)
    if got.shape != exp.shape:
        fails.append(Fail(key=key + '-shape', msg='%s %s: shape %s, expected %s' % (key, what, got.shape, exp.shape)))
        return False
    if got.size == 0:
        return True
    err = np.abs(got - exp)
    if not np.all(err <= tol):      # also catches nan
        k = np.unravel_index(int(np.nanargmax(np.where(np.isnan(err), np.inf, err))), err.shape)
        fails.append(Fail(key=key, msg='%s %s: max |observed-expected| = %.3e > %.1e at %s'
                          % (key, what, float(np.nanmax(np.where(np.isnan(err), np.inf, err))), tol, list(map(int, k))),
                          observed=got[k[0]] if got.ndim > 1 else got[k], expected=exp[k[0]] if exp.ndim > 1 else exp[k]))
        return False
    return True


def nlist_pairs(nl, N):
    M = np.zeros((N, N), bool)
    for i in range(N):
        nb = np.asarray(nl[i])
        if len(np.unique(nb)) != len(nb):
            return None
        M[i, nb] = True
    return M


def own_nlist(Nb):
    """a NeighborList object holding the all-pairs list (read through the documented model= text form)"""
    text = '\n'.join('%d %s' % (i, ' '.join(map(str, np.flatnonzero(Nb[i])))) for i in range(len(Nb)))
    return am.NeighborList(model=text)


def get_nlist(system, cutoff, Nb, tag):
    """atomman's list for the system, verified against the all-pairs list.  Building neighbour lists is property
    C03; where the builder loses pairs (known defect of C03, met here in rotated and sheared boxes) the tools of
    this property are still checked, through their neighbors= arguments, with the all-pairs list."""
    nl = am.NeighborList(system=system, cutoff=cutoff)
    M = nlist_pairs(nl, len(Nb))
    if M is not None and np.array_equal(M, Nb):
        chk.note('nlist-builds-verified', 1)
        return nl, True
    chk.note('nlist-C03-mismatch-bypassed-' + tag, 1)
    return own_nlist(Nb), False


def check_nlist(fails, nl, Nb, tag):
    """the list a tool reports to have used must be the complete shell set"""
    M = nlist_pairs(nl, len(Nb))
    if M is None or not np.array_equal(M, Nb):
        fails.append(Fail(key='neighbours-used-' + tag,
                          msg='neighbour list used by the tool differs from the all-pairs list (%s pairs vs %d)'
                          % ('duplicate' if M is None else int(M.sum()), int(Nb.sum()))))
        return False
    return True


# --------------------------------------------------------------------------
# deformation gradients

def _deformations():
    F = []
    for i in range(3):
        for j in range(3):
            for sgn in (1, -1):
                E = np.zeros((3, 3))
                E[i, j] = 0.01 * sgn
                F.append(('E%d%d%s' % (i, j, '+' if sgn > 0 else '-'), I3 + E))
    for ang in (1.0, 5.0):
        for k, ax in enumerate(([1, 0, 0], [0, 1, 0], [0, 0, 1])):
            F.append(('R%s%g' % ('xyz'[k], ang), rotm(ax, ang)))
    E02 = np.zeros((3, 3))
    E02[0, 2] = 0.015
    S = 0.01 * np.array([[1.2, 0.4, -0.6], [0.4, -0.8, 0.5], [-0.6, 0.5, 0.3]])
    F.append(('vol', 1.02 * I3))
    F.append(('ortho', np.diag([1.02, 0.99, 1.005])))
    F.append(('Rz5-shear', rotm([0, 0, 1], 5.0) @ (I3 + E02)))
    F.append(('R123-sym', rotm([1, 2, 3], 5.0) @ (I3 + S)))
    F.append(('generic', I3 + 0.01 * np.array([[1, 2, -1], [.5, -1, .3], [.2, .1, .7]])))
    F.append(('RxRy-diag', rotm([1, 0, 0], 1.0) @ rotm([0, 1, 0], -5.0) @ np.diag([0.98, 1.01, 1.02])))
    s = SEED % 8
    M = np.array([[np.sin((s + 1) * (3 * r + c + 1) * 1.7) for c in range(3)] for r in range(3)])
    F.append(('seed%d' % s, I3 + 0.012 * M))
    if THOROUGH:
        for i in range(3):
            for j in range(3):
                for sgn in (1, -1):
                    E = np.zeros((3, 3))
                    E[i, j] = 0.02 * sgn
                    F.append(('E%d%d%s2' % (i, j, '+' if sgn > 0 else '-'), I3 + E))
        for ax in ([1, 1, 1], [1, -2, 3], [-3, 1, 2]):
            for ang in (-2.0, 4.0):
                F.append(('R%s%g' % (''.join(map(str, ax)), ang), rotm(ax, ang)))
    return F


DEFS = _deformations()
THETAS = [27, 10]
# translations in relative coordinates of the supercell; kind: 0 none, 1/2 atoms translated and wrapped back into the
# box, 3 atoms and box origin moved together
TRANS = [(0, (0.0, 0.0, 0.0)), (1, (0.37, 0.61, 0.29)), (2, (-0.23, 0.41, 0.57)), (3, (0.13, -0.21, 0.09))]
NVAR = 16


def oracle_from_F(F):
    G = np.linalg.inv(F).T
    e = ((I3 - G) + (I3 - G).T) / 2
    rot = ((I3 - G) - (I3 - G).T) / 2
    lam = np.linalg.eigvalsh(e)
    inv1 = lam.sum()
    inv2 = lam[0] * lam[1] + lam[0] * lam[2] + lam[1] * lam[2]
    inv3 = lam.prod()
    angvel = np.sqrt(rot[0, 1] ** 2 + rot[0, 2] ** 2 + rot[1, 2] ** 2)
    return G, e, rot, (inv1, inv2, inv3), angvel


def strain_outputs(fails, tag, st, N, F):
    """every per-atom output of a Strain object against the uniform oracle"""
    G, e, rot, inv, av = oracle_from_F(F)
    ones = np.ones(N)
    emax = max(np.abs(e).max(), 1e-3)
    cmp(fails, tag + 'G', st.G, np.broadcast_to(G, (N, 3, 3)), TOL, 'G = F^-T')
    cmp(fails, tag + 'strain', st.strain, np.broadcast_to(e, (N, 3, 3)), TOL, 'sym(I-G)')
    cmp(fails, tag + 'rotation', st.rotation, np.broadcast_to(rot, (N, 3, 3)), TOL, 'skew(I-G)')
    cmp(fails, tag + 'invariant1', st.invariant1, inv[0] * ones, TOL)
    cmp(fails, tag + 'invariant2', st.invariant2, inv[1] * ones, 2 * TOL * emax)
    cmp(fails, tag + 'invariant3', st.invariant3, inv[2] * ones, 3 * TOL * emax ** 2)
    cmp(fails, tag + 'angularvelocity', st.angularvelocity, av * ones, TOL)
    cmp(fails, tag + 'nye', st.nye, np.zeros((N, 3, 3)), TOL_NYE, 'Nye of a homogeneous deformation')


def variant_setup(info, pbc, pk, tk, trel=None):
    """renumbered and translated reference crystal: idx (new atom m = old atom idx[m]), positions, box origin, t"""
    N = len(info['pos'])
    idx = perm_index(N, pk)
    kind = TRANS[tk][0]
    V, o = info['vects'], info['origin']
    t = np.asarray(TRANS[tk][1] if trel is None else trel) @ V
    pos0 = info['pos'][idx] + (t if kind else 0.0)
    o0 = o + t if kind == 3 else o.copy()
    if kind in (1, 2):
        pos0 = pos0 - wrap_shifts(pos0, V, o0, pbc) @ V
    return idx, pos0, o0, t, kind


def image_shifted(pos, V, pbc):
    """the same atoms, two thirds of them replaced by periodic images outside the box"""
    i = np.arange(len(pos))
    nimg = np.stack([i % 3 - 1, (i // 3) % 3 - 1, (i // 9) % 3 - 1], axis=1) * np.asarray(pbc, float)
    return pos + nimg @ V


def make_system(atype, pos, V, o, pbc):
    return am.System(atoms=am.Atoms(atype=atype, pos=pos), box=am.Box(vects=V, origin=o), pbc=pbc)


@chk.clause('deform')
def deform(case):
    ci, si = case['crystal'], case['size']
    info = crystal(ci, 'dsize', si)
    c = info['c']
    pbc = (True, True, True)
    D, L = pairs(ci, 'dsize', si, pbc)
    fname, F = DEFS[case['F']]
    cutoff = c['cuts'][case['cut']]
    N = len(info['pos'])
    V, o = info['vects'], info['origin']
    sv = np.linalg.svd(F, compute_uv=False)
    A = F - I3
    # ---- preconditions of the statement (complete shells, unique images); a failure here is a harness error
    assert shells_ok(L, cutoff, sv.min(), sv.max()), 'cutoff does not select complete shells'
    Nb = L < cutoff
    assert np.all(Nb.sum(axis=1) == c['coord'][case['cut']]), 'not the perfect crystal shells'
    pk, tk = case['variant'] // 4, case['variant'] % 4
    idx, pos0, o0, t, kind = variant_setup(info, pbc, pk, tk)
    # the imposed map x -> F x + cvec leaves the centre of the reference box fixed
    xc = o0 + V.sum(axis=0) / 2
    cvec = xc - F @ xc
    u = pos0 @ A.T + cvec                       # imposed displacement of every atom
    V1 = V @ F.T
    o1 = F @ o0 + cvec
    pos1 = pos0 + u
    w = min(info['w'].min(), min_widths(V1).min())
    assert np.linalg.norm(u, axis=1).max() + MARGIN < w / 2 and cutoff * max(sv.max(), 1) + MARGIN < w / 2
    atype = info['atype'][idx]
    s0 = make_system(atype, pos0, V, o0, pbc)
    s1 = make_system(atype, pos1, V1, o1, pbc)
    s1img = make_system(atype, image_shifted(pos1, V1, pbc), V1, o1, pbc)
    Dv = D[np.ix_(idx, idx)]
    Nbv = Nb[np.ix_(idx, idx)]
    fails = []

    # ---- displacement (s1img: atoms of the deformed system given as other periodic images)
    cmp(fails, 'displacement-final', am.displacement(s0, s1), u, TOL, 'default box_reference')
    cmp(fails, 'displacement-final', am.displacement(s0, s1, box_reference='final'), u, TOL)
    cmp(fails, 'displacement-final-images', am.displacement(s0, s1img), u, TOL, 'through the periodic boundaries')
    cmp(fails, 'displacement-initial', am.displacement(s0, s1, box_reference='initial'), u, TOL)
    cmp(fails, 'displacement-none', am.displacement(s0, s1, box_reference=None), u, TOL)

    # ---- neighbour lists of the two systems
    nl0, ok0 = get_nlist(s0, cutoff, Nbv, 'reference')
    nl1, ok1 = get_nlist(s1, cutoff, Nbv, 'deformed')

    # ---- Strain, four ways of giving the reference
    theta = THETAS[case['theta']]
    R = np.asarray(c['R'], float)
    pown = [Dv[i][Nbv[i]] for i in range(N)]            # own p vectors (system frame), arbitrary order
    mode = case['mode']
    if mode == 0 and not (ok0 and ok1):
        mode = 1
    if mode == 2 and not ok1:
        mode = 3
    with warnings.catch_warnings():
        warnings.simplefilter('error')                  # 'An atom lacks pair sets' would be a failure
        if mode == 0:
            st = am.defect.Strain(s1, cutoff=cutoff, basesystem=s0, theta_max=theta)
        elif mode == 1:
            st = am.defect.Strain(s1, neighbors=nl1, basesystem=s0, baseneighbors=nl0, theta_max=theta)
        elif mode == 2:
            st = am.defect.Strain(s1, cutoff=cutoff, p_vectors=[np.array(p) for p in pown], theta_max=theta)
        else:
            # p vectors given in the crystal frame + axes; one list for all atoms where every atom has the same environment
            if c['single_p']:
                pv = [(pown[0] @ R).tolist()]
            else:
                pv = [np.array(p @ R) for p in pown]
            st = am.defect.Strain(s1, neighbors=nl1, p_vectors=pv, axes=R, theta_max=theta)
        chk.note('strain-mode-%d' % mode, 1)
        check_nlist(fails, st.neighbors, Nbv, 'strain')
        strain_outputs(fails, 'strain-', st, N, F)
        # ---- the same Strain object after its reference was replaced and the solution repeated (documented public
        #      methods set_p_vectors / build_p_vectors / solve_G): first a slightly rotated (wrong) reference, then
        #      the right one again -- every output must again be that of the imposed deformation
        c2, s2 = np.cos(np.radians(2.0)), np.sin(np.radians(2.0))
        RW = np.array([[c2, -s2, 0.0], [s2, c2, 0.0], [0.0, 0.0, 1.0]])
        st.set_p_vectors([np.array(p) @ RW.T for p in pown])
        st.solve_G()
        if mode in (0, 1) and ok0:
            st.build_p_vectors(s0, neighbors=nl0)
        else:
            st.set_p_vectors([np.array(p) for p in pown])
        st.solve_G()
        strain_outputs(fails, 'strain-resolved-', st, N, F)
        # ... and an object that STARTS with the wrong reference, is solved, then gets the right one
        if ok1:
            st2 = am.defect.Strain(s1, neighbors=nl1, p_vectors=[np.array(p) @ RW.T for p in pown], theta_max=theta)
            st2.G
            st2.strain
            if mode in (0, 1) and ok0:
                st2.build_p_vectors(s0, neighbors=nl0)
            else:
                st2.set_p_vectors([np.array(p) for p in pown])
            st2.solve_G()
            strain_outputs(fails, 'strain-corrected-', st2, N, F)
        chk.note('strain-live-resolves', 1)
        d = st.asdict(['G', 'rotation', 'strain', 'invariant1', 'invariant2', 'invariant3', 'angularvelocity', 'nye'])
        for k, v in d.items():
            if not np.array_equal(v, getattr(st, k)):
                fails.append(Fail(key='strain-asdict', msg='asdict()[%r] differs from the attribute' % k))

        # ---- the function form
        G, e, rot, inv, av = oracle_from_F(F)
        emax = max(np.abs(e).max(), 1e-3)
        parr = np.array(pown)
        if case['mode'] % 2 == 0 and ok1:
            r = am.defect.nye_tensor(s1, parr, theta_max=theta, cutoff=cutoff)
        elif c['single_p']:
            r = am.defect.nye_tensor(s1, (pown[0] @ R), theta_max=theta, axes=R, neighbors=nl1)
        else:
            r = am.defect.nye_tensor(s1, parr @ R, theta_max=theta, axes=R, neighbors=nl1)
    ones = np.ones(N)
    cmp(fails, 'nye_tensor-strain', r['strain'], np.broadcast_to(e, (N, 3, 3)), TOL)
    cmp(fails, 'nye_tensor-invariant1', r['strain_invariant_1'], inv[0] * ones, TOL)
    cmp(fails, 'nye_tensor-invariant2', r['strain_invariant_2'], inv[1] * ones, 2 * TOL * emax)
    cmp(fails, 'nye_tensor-invariant3', r['strain_invariant_3'], inv[2] * ones, 3 * TOL * emax ** 2)
    cmp(fails, 'nye_tensor-angularvelocity', r['angular_velocity'], av * ones, TOL)
    cmp(fails, 'nye_tensor-nye', r['Nye_tensor'], np.zeros((N, 3, 3)), TOL_NYE)

    # ---- differential displacement of every neighbour pair: (F - I) d_ij
    dd = am.defect.DifferentialDisplacement(s0, s1, neighbors=nl0, reference=0)
    dd_check(fails, 'dd-ref0', dd, Nbv, lambda i, js: Dv[i, js] @ A.T)
    if ok1:
        dd = am.defect.DifferentialDisplacement(s0, s1, cutoff=cutoff, reference=1)
    else:
        dd = am.defect.DifferentialDisplacement(s0, s1, neighbors=nl1, reference=1)
    dd_check(fails, 'dd-ref1', dd, Nbv, lambda i, js: Dv[i, js] @ A.T)

    chk.note('atoms-checked', N)
    chk.note('pairs-checked', int(Nbv.sum()))
    if case['variant'] == 0:
        chk.note('base-configurations-nontrivial', 1)
    return fails


def dd_check(fails, tag, dd, Nbexp, expfun):
    """ddvectors in the order of the object's own neighbour list; the list itself must be the complete shell set"""
    nl = dd.neighbors
    N = len(Nbexp)
    if not check_nlist(fails, nl, Nbexp, tag):
        return
    exp = []
    for i in range(N):
        js = np.asarray(nl[i])
        if len(js):
            exp.append(expfun(i, js))
    exp = np.concatenate(exp) if exp else np.zeros((0, 3))
    cmp(fails, tag + '-ddvectors', dd.ddvectors, exp, TOL, 'u_j - u_i in neighbour-list order')


# --------------------------------------------------------------------------
# rigid slip

# slip = alpha*e1 + beta*e2 + gamma*r1*n  (e1, e2: in-plane vectors of the unit cell, r1 nearest-neighbour distance)
def _slips():
    s = SEED % 8
    out = [(0.5, 0.0, 0.0), (0.0, 1 / 3, 0.0), (0.23, 0.11, 0.0), (-0.17, 0.31, 0.0), (0.1, -0.05, 0.04), (1.0, 0.0, 0.0),
           (0.05 + 0.04 * s, 0.27 - 0.05 * s, 0.0)]
    if THOROUGH:
        out += [(-0.5, 0.5, 0.0), (0.0, -0.21, -0.03), (0.4, 0.4, 0.0)]
    return out


SLIPS = _slips()
SMALL_SLIPS = [(0.031, 0.017, 0.0), (-0.02, 0.024, 0.011)]     # in units of r1 along e1, e2, n (slipstrain clause)


@functools.lru_cache(maxsize=None)
def plane_geometry(ci, si, k):
    """stacking along box vector k: unit normal, in-plane unit-cell vectors, layer coordinate of every atom, layers"""
    info = crystal(ci, 'ssize', si)
    V = info['vects']
    others = [i for i in range(3) if i != k]
    n = np.cross(V[others[0]], V[others[1]])
    n /= np.linalg.norm(n)
    if n @ V[k] < 0:
        n = -n
    e1, e2 = info['ucell_vects'][others[0]], info['ucell_vects'][others[1]]
    y = (info['pos'] - info['origin']) @ n
    ys = np.sort(y)
    layers = [ys[0]]
    for v in ys[1:]:
        if v - layers[-1] > 1e-6:
            layers.append(v)
    return n, e1, e2, y, np.array(layers)


def slip_vector_of(ci, si, k, sidx, small=False):
    n, e1, e2, y, layers = plane_geometry(ci, si, k)
    L = pairs(ci, 'ssize', si, (True, True, True))[1]
    r1 = L.min()
    if small:
        a, b, g = SMALL_SLIPS[sidx]
        return a * r1 * e1 / np.linalg.norm(e1) + b * r1 * e2 / np.linalg.norm(e2) + g * r1 * n
    a, b, g = SLIPS[sidx]
    return a * e1 + b * e2 + g * r1 * n


def slip_guarantee(info, cutoff, s):
    return cutoff + np.linalg.norm(s) + MARGIN < info['w'].min() / 2


def slip_setup(case, small=False):
    ci, si, k = case['crystal'], case['size'], case['axis']
    info = crystal(ci, 'ssize', si)
    c = info['c']
    pbc = [True, True, True]
    pbc[k] = bool(case['pbck'])
    pbc = tuple(pbc)
    D, L = pairs(ci, 'ssize', si, pbc)
    Lall = pairs(ci, 'ssize', si, (True, True, True))[1]
    cutoff = c['cuts'][case['cut']]
    assert shells_ok(Lall, cutoff, 1.0, 1.0)
    assert np.all((Lall < cutoff).sum(axis=1) == c['coord'][case['cut']]), 'not the perfect crystal shells'
    n, e1, e2, y, layers = plane_geometry(ci, si, k)
    s = slip_vector_of(ci, si, k, case['slip'], small)
    assert slip_guarantee(info, cutoff, s), 'uniqueness guarantee violated'
    h = (layers[case['plane']] + layers[case['plane'] + 1]) / 2
    top = y > h
    f = 1.0 if case['split'] == 0 else 0.5
    ub, ut = -(1 - f) * s, f * s
    u = np.where(top[:, None], ut[None, :], ub[None, :])
    return info, pbc, D, L, cutoff, n, e1, e2, y, layers, s, h, top, u


def slip_translation(info, pbc, tk, k, n, layers):
    """relative translation of variant tk for a crystal stacked along k"""
    trel = np.array(TRANS[tk][1])
    if TRANS[tk][0] in (1, 2):
        H = info['vects'][k] @ n
        if not pbc[k]:
            trel[k] = 0.0          # nothing can be wrapped through a free surface
        elif tk == 2:
            # the lowest layer leaves through the bottom face and re-enters at the top
            trel[k] = -(layers[0] + 0.5 * (layers[1] - layers[0])) / H
        else:
            trel[k] = 0.4 * (H - layers[-1]) / H      # the top layer stays inside
    return trel


@chk.clause('slip')
def slip(case):
    info, pbc, D, L, cutoff, n, e1, e2, y, layers, s, h, top, u = slip_setup(case)
    N = len(info['pos'])
    V = info['vects']
    k = case['axis']
    pk, tk = case['variant'] // 4, case['variant'] % 4
    idx, pos0, o0, t, kind = variant_setup(info, pbc, pk, tk, slip_translation(info, pbc, tk, k, n, layers))
    uv = u[idx]
    topv = top[idx]
    pos1raw = pos0 + uv
    sh1 = wrap_shifts(pos1raw, V, o0, pbc)
    pos1 = pos1raw - sh1 @ V                     # slipped atoms that left the box come back through the boundary
    atype = info['atype'][idx]
    s0 = make_system(atype, pos0, V, o0, pbc)
    s1 = make_system(atype, pos1, V, o0, pbc)
    s1img = make_system(atype, image_shifted(pos1raw, V, pbc), V, o0, pbc)     # at most one cell away from its partner
    Nb = L < cutoff
    Nbv = Nb[np.ix_(idx, idx)]
    Dv = D[np.ix_(idx, idx)]
    fails = []

    # ---- displacement
    cmp(fails, 'displacement-final', am.displacement(s0, s1), uv, TOL)
    cmp(fails, 'displacement-initial', am.displacement(s0, s1, box_reference='initial'), uv, TOL)
    cmp(fails, 'displacement-final-images', am.displacement(s0, s1img), uv, TOL, 'through the periodic boundaries')
    if not sh1.any():
        cmp(fails, 'displacement-none', am.displacement(s0, s1, box_reference=None), uv, TOL)
    else:
        chk.note('cases-with-slipped-atoms-wrapped', 1)

    # ---- slip vector = (own half - other half) x neighbours across the plane(s)
    nl0, ok0 = get_nlist(s0, cutoff, Nbv, 'reference')
    across = (Nbv & (topv[:, None] != topv[None, :])).sum(axis=1)
    rel = np.where(topv[:, None], s[None, :], -s[None, :])          # u_own - u_other
    exp = rel * across[:, None]
    m3 = case['callmode']
    if m3 == 0 and not ok0:
        m3 = 1
    if m3 == 0:
        got = am.defect.slip_vector(s0, s1, cutoff=cutoff)
    elif m3 == 1:
        got = am.defect.slip_vector(s0, s1, neighbors=nl0)
    else:
        s0.neighbors = nl0
        got = am.defect.slip_vector(s0, s1)
        del s0.neighbors
    cmp(fails, 'slip_vector', got, exp, TOL, 's x number of neighbours across the plane')
    chk.note('atoms-with-neighbours-across-plane', int((across > 0).sum()))
    chk.note('atoms-away-from-plane', int((across == 0).sum()))

    # ---- disregistry = slip at every coordinate along m
    mvec = (e1, e2)[case['mdir']]
    mhat = mvec / np.linalg.norm(mvec)
    planepos = info['origin'] + (h + (t @ n if kind else 0.0)) * n + 0.3 * e1 - 0.2 * e2
    y0 = pos0 @ n
    midy = planepos @ n
    half = layers[case['plane'] + 1] - h
    above = np.abs(y0 - (midy + half)) < 1e-6
    below = np.abs(y0 - (midy - half)) < 1e-6
    nothing_between = not np.any((y0 > midy - half + 1e-6) & (y0 < midy + half - 1e-6))
    if above.any() and below.any() and nothing_between:
        sdis = s1img if case['callmode'] == 1 else s1
        default_ok = np.allclose(mhat, [1, 0, 0], atol=1e-12) and np.allclose(n, [0, 1, 0], atol=1e-12)
        if default_ok and case['mdir'] == 0:
            coord, dis = am.defect.disregistry(s0, sdis, planepos=planepos)       # documented defaults m=x, n=y
            chk.note('disregistry-default-mn', 1)
        else:
            coord, dis = am.defect.disregistry(s0, sdis, m=mhat, n=n, planepos=planepos.tolist())
        coord = np.asarray(coord)
        if np.ndim(coord) != 1 or np.shape(dis) != (len(coord), 3):
            fails.append(Fail(key='disregistry-shape', msg='coord %s disregistry %s' % (np.shape(coord), np.shape(dis))))
        else:
            cmp(fails, 'disregistry', dis, np.broadcast_to(s, (len(coord), 3)), TOL, 'u_top - u_bottom at every coordinate')
            xs = np.sort(np.concatenate([pos0[above] @ mhat, pos0[below] @ mhat]))
            groups = xs[np.concatenate([[True], np.diff(xs) > 1e-6])]
            near = np.abs(coord[:, None] - groups[None, :]) < 1e-8
            if not (near.any(axis=1).all() and near.any(axis=0).all() and np.all(np.diff(coord) >= 0)):
                fails.append(Fail(key='disregistry-coord', msg='coordinates are not the m-coordinates of the two adjoining planes',
                                  observed=coord[:6], expected=groups[:6]))
        chk.note('disregistry-evaluated', 1)
    else:
        chk.note('disregistry-not-applicable-adjoining-layer-wrapped-to-the-other-side', 1)

    # ---- differential displacements, neighbour list of system 0 and of system 1
    if ok0 and case['callmode'] != 2:
        dd = am.defect.DifferentialDisplacement(s0, s1, cutoff=cutoff, reference=0)
    else:
        dd = am.defect.DifferentialDisplacement(s0, s1, neighbors=nl0, reference=0)
    dd_check(fails, 'dd-ref0', dd, Nbv, lambda i, js: uv[js] - uv[i])
    # all-pairs list of the slipped crystal: separations d_ij + u_j - u_i (unique images by the guarantee)
    D1 = Dv + (uv[None, :, :] - uv[:, None, :])
    L1 = np.linalg.norm(D1, axis=2)
    np.fill_diagonal(L1, np.inf)
    if np.abs(L1 / cutoff - 1).min() > 1e-3:                       # no pair of the slipped crystal at the cutoff sphere
        Nb1 = L1 < cutoff
        nl1, ok1 = get_nlist(s1, cutoff, Nb1, 'slipped')
        if ok1 and case['callmode'] != 1:
            dd = am.defect.DifferentialDisplacement(s0, s1, cutoff=cutoff, reference=1)
        else:
            dd = am.defect.DifferentialDisplacement(s0, s1, neighbors=nl1, reference=1)
        dd_check(fails, 'dd-ref1', dd, Nb1, lambda i, js: uv[js] - uv[i])
        chk.note('dd-ref1-evaluated', 1)
        if not np.array_equal(Nb1, Nbv):
            chk.note('dd-ref1-neighbour-set-differs-from-reference', 1)
    else:
        chk.note('dd-ref1-not-applicable-pair-at-cutoff-sphere', 1)
    if case['variant'] == 0 and (across > 0).any():
        chk.note('base-configurations-nontrivial', 1)
    chk.note('atoms-checked', N)
    return fails


def strain_all(st):
    return dict(G=st.G, strain=st.strain, rotation=st.rotation, nye=st.nye, invariant1=st.invariant1,
                invariant2=st.invariant2, invariant3=st.invariant3, angularvelocity=st.angularvelocity)


@chk.clause('slipstrain')
def slipstrain(case):
    """Strain on the slipped crystal: non-uniform G"""
    info, pbc, D, L, cutoff, n, e1, e2, y, layers, s, h, top, u = slip_setup(case, small=True)
    N = len(info['pos'])
    V = info['vects']
    k = case['axis']
    r1 = L.min()
    assert np.linalg.norm(s) < 0.12 * r1
    Nb = L < cutoff
    assert Nb.sum(axis=1).min() >= 3, 'every atom needs three neighbours'
    assert np.array_equal((np.linalg.norm(D + (u[None] - u[:, None]), axis=2) < cutoff) & ~np.eye(N, dtype=bool), Nb), \
        'small slip must not change the neighbour sets'
    fails = []
    results = []
    for variant in (0, case['variant']):
        pk, tk = variant // 4, variant % 4
        idx, pos0, o0, t, kind = variant_setup(info, pbc, pk, tk, slip_translation(info, pbc, tk, k, n, layers))
        uv = u[idx]
        pos1 = pos0 + uv
        pos1 = pos1 - wrap_shifts(pos1, V, o0, pbc) @ V
        atype = info['atype'][idx]
        s0 = make_system(atype, pos0, V, o0, pbc)
        s1 = make_system(atype, pos1, V, o0, pbc)
        Nbv = Nb[np.ix_(idx, idx)]
        topv = top[idx]
        nl0, ok0 = get_nlist(s0, cutoff, Nbv, 'reference')
        nl1, ok1 = get_nlist(s1, cutoff, Nbv, 'slipped')
        with warnings.catch_warnings():
            warnings.simplefilter('error')
            if ok0 and ok1:
                st = am.defect.Strain(s1, cutoff=cutoff, basesystem=s0)
            else:
                st = am.defect.Strain(s1, neighbors=nl1, basesystem=s0, baseneighbors=nl0)
            check_nlist(fails, st.neighbors, Nbv, 'strain')
            res = strain_all(st)
            # atoms whose neighbours all lie in their own half see the perfect crystal: G = I exactly
            # (free surfaces: only fully coordinated atoms are bulk atoms of the statement)
            full = Nbv.sum(axis=1) == info['c']['coord'][case['cut']]
            crossing = (Nbv & (topv[:, None] != topv[None, :])).any(axis=1)
            far = full & ~crossing
            far2 = far & ~(Nbv & ~far[None, :]).any(axis=1)             # ... and so do all of their neighbours
            tag = 'slipped-'
            nf = int(far.sum())
            cmp(fails, tag + 'G-away', res['G'][far], np.broadcast_to(I3, (nf, 3, 3)), TOL, 'G = I away from the plane')
            cmp(fails, tag + 'strain-away', res['strain'][far], np.zeros((nf, 3, 3)), TOL)
            cmp(fails, tag + 'rotation-away', res['rotation'][far], np.zeros((nf, 3, 3)), TOL)
            cmp(fails, tag + 'nye-away', res['nye'][far2], np.zeros((int(far2.sum()), 3, 3)), TOL_NYE)
            if not np.abs(res['G'][crossing] - I3).max() > 1e-4:
                fails.append(Fail(key=tag + 'G-near-trivial', msg='atoms at the slip plane report G = I'))
            # the function form agrees with the class (Strain.asdict docstring)
            pv = [np.asarray(p, dtype=float) for p in st.p_vectors]
            r = am.defect.nye_tensor(s1, pv, neighbors=nl1)
        emax = max(np.abs(res['strain']).max(), 1e-3)
        cmp(fails, 'class-vs-function-strain', r['strain'], res['strain'], TOL)
        cmp(fails, 'class-vs-function-invariant1', r['strain_invariant_1'], res['invariant1'], TOL)
        cmp(fails, 'class-vs-function-invariant2', r['strain_invariant_2'], res['invariant2'], 2 * TOL * emax)
        cmp(fails, 'class-vs-function-invariant3', r['strain_invariant_3'], res['invariant3'], 3 * TOL * emax ** 2)
        cmp(fails, 'class-vs-function-angularvelocity', r['angular_velocity'], res['angularvelocity'], TOL)
        cmp(fails, 'class-vs-function-nye', r['Nye_tensor'], res['nye'], TOL_NYE)
        inverse = np.empty(N, int)
        inverse[idx] = np.arange(N)
        results.append({kk: vv[inverse] for kk, vv in res.items()})     # back to the original numbering
        chk.note('atoms-near-plane-nonuniform-G', int(crossing.sum()))
        chk.note('atoms-away-G-identity-checked', nf)
        chk.note('atoms-checked', N)
    base, var = results
    emax = max(np.abs(base['strain']).max(), 1e-3)
    tol = dict(G=TOL, strain=TOL, rotation=TOL, nye=TOL_NYE, invariant1=TOL, invariant2=2 * TOL * emax,
               invariant3=3 * TOL * emax ** 2, angularvelocity=TOL)
    for kk in base:
        cmp(fails, 'covariance-' + kk, var[kk], base[kk], tol[kk], 'renumbered/translated vs original')
    chk.note('covariance-comparisons-nonuniform', 1)
    return fails


# --------------------------------------------------------------------------
# enumeration

# --------------------------------------------------------------------------
# reference vectors claimed by several neighbours

CONTEST_THETAS = [27, 10, 50]


def contested_crystals():
    return [ci for ci, c in enumerate(CRYSTALS) if c['single_p']]


@chk.clause('contested')
def contested(case):
    """The reference is the FIRST shell only while the cutoff reaches the shell collinear with it (2 r1: fcc 54, bcc 58
    neighbours), so every reference vector is claimed by at least two current vectors (at theta_max = 50 by the shells
    in between as well).  The tools keep, for each reference vector, the claimant whose length is closest to r1 -- the
    first-shell neighbour -- so G = F^-T exactly and all that follows from it, as for any complete-shell cutoff."""
    ci = case['crystal']
    info = crystal(ci, 'ssize', 0)
    c = info['c']
    pbc = (True, True, True)
    D, L = pairs(ci, 'ssize', 0, pbc)
    fname, F = DEFS[case['F']]
    theta = CONTEST_THETAS[case['theta']]
    r1 = L.min()
    cutoff = 2.08 * r1
    N = len(info['pos'])
    V, o = info['vects'], info['origin']
    sv = np.linalg.svd(F, compute_uv=False)
    assert shells_ok(L, cutoff, sv.min(), sv.max()), 'cutoff does not select complete shells'
    Nb = L < cutoff
    first = L < 1.02 * r1
    assert np.any(np.abs(L[0][Nb[0]] - 2 * r1) < 1e-9), 'no shell collinear with the first'
    idx, pos0, o0, t, kind = variant_setup(info, pbc, case['variant'] // 4, case['variant'] % 4)
    xc = o0 + V.sum(axis=0) / 2
    cvec = xc - F @ xc
    A = F - I3
    u = pos0 @ A.T + cvec
    V1, o1, pos1 = V @ F.T, F @ o0 + cvec, pos0 + u
    w = min(info['w'].min(), min_widths(V1).min())
    assert np.linalg.norm(u, axis=1).max() + MARGIN < w / 2 and cutoff * max(sv.max(), 1) + MARGIN < w / 2
    atype = info['atype'][idx]
    s1 = make_system(atype, pos1, V1, o1, pbc)
    Dv = D[np.ix_(idx, idx)]
    Nbv = Nb[np.ix_(idx, idx)]
    firstv = first[np.ix_(idx, idx)]
    pfirst = [Dv[i][firstv[i]] for i in range(N)]
    fails = []
    nl1, ok1 = get_nlist(s1, cutoff, Nbv, 'deformed')
    R = np.asarray(c['R'], float)
    G, e, rot, inv, av = oracle_from_F(F)
    emax = max(np.abs(e).max(), 1e-3)
    with warnings.catch_warnings():
        warnings.simplefilter('error')
        if case['mode'] == 0:
            st = am.defect.Strain(s1, neighbors=nl1, p_vectors=[np.array(p) for p in pfirst], theta_max=theta)
            r = am.defect.nye_tensor(s1, np.array(pfirst), theta_max=theta, neighbors=nl1)
        else:
            st = am.defect.Strain(s1, neighbors=nl1, p_vectors=[(pfirst[0] @ R).tolist()], axes=R, theta_max=theta)
            r = am.defect.nye_tensor(s1, pfirst[0] @ R, theta_max=theta, axes=R, neighbors=nl1)
    strain_outputs(fails, 'strain-', st, N, F)
    ones = np.ones(N)
    cmp(fails, 'nye_tensor-strain', r['strain'], np.broadcast_to(e, (N, 3, 3)), TOL)
    cmp(fails, 'nye_tensor-invariant1', r['strain_invariant_1'], inv[0] * ones, TOL)
    cmp(fails, 'nye_tensor-invariant2', r['strain_invariant_2'], inv[1] * ones, 2 * TOL * emax)
    cmp(fails, 'nye_tensor-invariant3', r['strain_invariant_3'], inv[2] * ones, 3 * TOL * emax ** 2)
    cmp(fails, 'nye_tensor-angularvelocity', r['angular_velocity'], av * ones, TOL)
    cmp(fails, 'nye_tensor-nye', r['Nye_tensor'], np.zeros((N, 3, 3)), TOL_NYE)
    chk.note('atoms-checked', N)
    chk.note('contested-reference-cases', 1)
    if case['variant'] == 0 and not np.array_equal(F, I3):
        chk.note('base-configurations-nontrivial', 1)
    return fails


# --------------------------------------------------------------------------
# the same problem at another length scale

LSCALES = [1e-10, 1e3]       # lengths held in metres (SI working units); lengths held in a tiny unit


@chk.clause('scaled')
def scaled(case):
    """Crystal, cell, reference vectors and cutoff multiplied by k: G, strain, rotation, invariants and angular velocity
    are dimensionless and must not change, displacements scale with k, the Nye tensor (1/length) with 1/k.  The
    neighbour pairs are handed over (neighbors=), so that the list builder (property C03) is not involved."""
    ci = case['crystal']
    k = LSCALES[case['k']]
    info = crystal(ci, 'dsize', 0)
    c = info['c']
    pbc = (True, True, True)
    D, L = pairs(ci, 'dsize', 0, pbc)
    fname, F = DEFS[case['F']]
    cutoff = c['cuts'][case['cut']]
    N = len(info['pos'])
    V, o = info['vects'], info['origin']
    sv = np.linalg.svd(F, compute_uv=False)
    assert shells_ok(L, cutoff, sv.min(), sv.max()), 'cutoff does not select complete shells'
    Nb = L < cutoff
    idx, pos0, o0, t, kind = variant_setup(info, pbc, 0, case['trans'])
    xc = o0 + V.sum(axis=0) / 2
    cvec = xc - F @ xc
    A = F - I3
    u = pos0 @ A.T + cvec
    V1, o1, pos1 = V @ F.T, F @ o0 + cvec, pos0 + u
    w = min(info['w'].min(), min_widths(V1).min())
    assert np.linalg.norm(u, axis=1).max() + MARGIN < w / 2 and cutoff * max(sv.max(), 1) + MARGIN < w / 2
    atype = info['atype'][idx]
    s0 = make_system(atype, k * pos0, k * V, k * o0, pbc)
    s1 = make_system(atype, k * pos1, k * V1, k * o1, pbc)
    Dv = D[np.ix_(idx, idx)]
    Nbv = Nb[np.ix_(idx, idx)]
    nl = own_nlist(Nbv)
    pown = [k * Dv[i][Nbv[i]] for i in range(N)]
    fails = []
    cmp(fails, 'scaled-displacement', am.displacement(s0, s1), k * u, TOL * k)
    G, e, rot, inv, av = oracle_from_F(F)
    emax = max(np.abs(e).max(), 1e-3)
    with warnings.catch_warnings():
        warnings.simplefilter('error')
        if case['mode'] == 0:
            st = am.defect.Strain(s1, neighbors=nl, basesystem=s0, baseneighbors=nl)
        else:
            st = am.defect.Strain(s1, neighbors=nl, p_vectors=[np.array(p) for p in pown])
        r = am.defect.nye_tensor(s1, np.array(pown), neighbors=nl)
    ones = np.ones(N)
    cmp(fails, 'scaled-strain-G', st.G, np.broadcast_to(G, (N, 3, 3)), TOL, 'G = F^-T')
    cmp(fails, 'scaled-strain-strain', st.strain, np.broadcast_to(e, (N, 3, 3)), TOL)
    cmp(fails, 'scaled-strain-rotation', st.rotation, np.broadcast_to(rot, (N, 3, 3)), TOL)
    cmp(fails, 'scaled-strain-invariant1', st.invariant1, inv[0] * ones, TOL)
    cmp(fails, 'scaled-strain-angularvelocity', st.angularvelocity, av * ones, TOL)
    cmp(fails, 'scaled-strain-nye', st.nye, np.zeros((N, 3, 3)), TOL_NYE / k, 'Nye of a homogeneous deformation (1/length)')
    cmp(fails, 'scaled-nye_tensor-strain', r['strain'], np.broadcast_to(e, (N, 3, 3)), TOL)
    cmp(fails, 'scaled-nye_tensor-invariant1', r['strain_invariant_1'], inv[0] * ones, TOL)
    cmp(fails, 'scaled-nye_tensor-angularvelocity', r['angular_velocity'], av * ones, TOL)
    cmp(fails, 'scaled-nye_tensor-nye', r['Nye_tensor'], np.zeros((N, 3, 3)), TOL_NYE / k)
    chk.note('atoms-checked', N)
    chk.note('scaled-cases', 1)
    return fails


def gen():
    nsize = 2 if THOROUGH else 1
    # ---- homogeneous deformations
    b = 0
    for ci, c in enumerate(CRYSTALS):
        for si in range(nsize):
            for fi in range(len(DEFS)):
                for cut in range(2):
                    base = dict(crystal=ci, size=si, F=fi, cut=cut)
                    if THOROUGH:
                        for v in range(NVAR):
                            yield 'deform', dict(base, variant=v, mode=(b + v) % 4, theta=((b + v) // 4) % 2)
                    else:
                        yield 'deform', dict(base, variant=0, mode=b % 4, theta=(b // 4) % 2)
                        yield 'deform', dict(base, variant=1 + b % 15, mode=(b + 2) % 4, theta=(b // 4 + 1) % 2)
                    b += 1
    # ---- reference vectors claimed by several neighbours
    b = 0
    for ci in contested_crystals():
        for fi in range(len(DEFS)):
            for th in range(len(CONTEST_THETAS)):
                if THOROUGH:
                    for v in (0, 1 + b % 15):
                        for mode in (0, 1):
                            yield 'contested', dict(crystal=ci, F=fi, theta=th, variant=v, mode=mode)
                else:
                    yield 'contested', dict(crystal=ci, F=fi, theta=th, variant=0 if b % 2 else 1 + b % 15, mode=b % 2)
                b += 1
    # ---- the same problems at other length scales
    b = 0
    for ci in range(len(CRYSTALS)):
        for fi in range(len(DEFS)):
            if THOROUGH or fi % 3 == ci % 3 or DEFS[fi][0] in ('generic', 'R123-sym'):
                for ki in range(len(LSCALES)):
                    yield 'scaled', dict(crystal=ci, F=fi, k=ki, cut=b % 2, mode=(b // 2) % 2, trans=b % 4)
                    b += 1
    # ---- rigid slips
    b = 0
    for ci, c in enumerate(CRYSTALS):
        for si in range(nsize):
            info = crystal(ci, 'ssize', si)
            # quick: every plane position for the first axis, the central one for the second;
            # thorough: all three axes and every plane for the first size, the first axis for the second size
            if THOROUGH and si == 0:
                axes = c['axes'] + [k for k in range(3) if k not in c['axes']]
            elif THOROUGH:
                axes = c['axes'][:1]
            else:
                axes = c['axes']
            for ai, k in enumerate(axes):
                nl = len(plane_geometry(ci, si, k)[4])
                planes = range(nl - 1) if (THOROUGH or ai == 0) else [(nl - 1) // 2]
                for p in planes:
                    for sidx in range(len(SLIPS)):
                        s = slip_vector_of(ci, si, k, sidx)
                        for cut in range(2):
                            if not slip_guarantee(info, c['cuts'][cut], s):
                                chk.note('slip-configurations-outside-guarantee-not-generated', 1)
                                continue
                            base = dict(crystal=ci, size=si, axis=k, plane=p, slip=sidx, cut=cut)
                            if THOROUGH and si == 0:
                                combos = [(pb, sp) for pb in (1, 0) for sp in (0, 1)]
                            else:
                                combos = [((p + sidx + cut) % 2, (p // 2 + sidx + b) % 2)]
                            for pb, sp in combos:
                                for v in (0, 1 + b % 15):
                                    yield 'slip', dict(base, pbck=pb, split=sp, variant=v, callmode=(b + v) % 3,
                                                       mdir=(b + v // 2) % 2)
                                b += 1
    # ---- Strain on slipped crystals
    b = 0
    for ci, c in enumerate(CRYSTALS):
        k = c['axes'][0]
        nl = len(plane_geometry(ci, 0, k)[4])
        planes = range(nl - 1) if THOROUGH else sorted({0, (nl - 1) // 2, nl - 2})
        for p in planes:
            for sidx in range(len(SMALL_SLIPS)):
                for cut in range(2):
                    for pb in (1, 0):
                        if pb == 0:
                            pbc = tuple(i != k for i in range(3))
                            if (pairs(ci, 'ssize', 0, pbc)[1] < c['cuts'][cut]).sum(axis=1).min() < 3:
                                # a free surface whose atoms keep fewer than three neighbours is no complete shell
                                chk.note('slipstrain-free-surface-undercoordinated-not-generated', 1)
                                continue
                        vs = range(1, NVAR) if THOROUGH and p == (nl - 1) // 2 else [1 + b % 15]
                        for v in vs:
                            yield 'slipstrain', dict(crystal=ci, size=0, axis=k, plane=p, slip=sidx, cut=cut, pbck=pb,
                                                     split=b % 2, variant=v)
                        b += 1


if __name__ == '__main__':
    chk.run_cases(gen(), batch=4)
    cov = {'evaluations': sum(chk.counts.values()),
           'distinct_nontrivial': chk.notes.get('base-configurations-nontrivial', 0),
           'atoms_checked': chk.notes.get('atoms-checked', 0)}
    sys.exit(chk.finish(cov))
