"""C13 - atomman.defect.Dislocation: monopole() and periodicarray() configurations.

Bounded-exhaustive enumeration (nothing sampled): hand-built unit cells (fcc in the
face-centred and in the primitive setting, bcc, hcp with 4-index input, sc, B2 with
two atom types) x slip systems (screw / edge / mixed) x all 6 (m,n) Cartesian
assignments x size-multiplier menus per line index x every offered shiftindex plus an
explicit absolute and a scaled shift x core centres x boundary shapes/widths, and
periodicarray with linear in {False, True}.

Oracles are written from the definitions and never call the generator under test:
  * transform / Burgers vector: own construction from the line direction, the plane
    normal (reciprocal vectors) and the (m,n) assignment;
  * elastic field: a *separately constructed* solution object
    (atomman.defect.solve_volterra_dislocation, validated on its own by C12);
  * reference crystal: every base atom is mapped back through the own transform onto
    an integer lattice site (+basis) of the hand-built unit cell;
  * regions: own signed distances to the shifted box faces / the cylinder about the
    line through the origin;
  * periodic array: deleted-atom count N*|b.m|/(2*L_m), brute-force pair distances
    over the two in-plane periodic directions, old_id against the untrimmed crystal;
  * disregistry: own column grouping / interpolation of the *expected* displacement
    of the two planes adjoining the slip plane, and the analytic tail bound.
"""
import hashlib
import itertools
import sys

import numpy as np

from mc.common import Check, Fail, SEED, THOROUGH, assert_overlay

am = assert_overlay()
Dislocation = am.defect.Dislocation

chk = Check('C13', 'exploration',
            'full products, every element executed: [monopole] systems x 6 (m,n) x size menu x centre menu, each '
            'case looping over default shift + every offered shiftindex + explicit absolute + scaled shift; '
            '[boundary] systems x 6 (m,n) x sizes x centres x {cylinder, box} x widths {0, 0.25, 0.6 of the half width, '
            'scaled}; [array] systems x 6 (m,n) x sizes x every shiftindex x centres x linear{F,T} x boundary width '
            '{0, w}; [disreg] systems x 6 (m,n) x {monopole, array-linear, array-elastic} x centres at width W and 2W; '
            '[sizes] systems x 6 (m,n) x sizemults container type x amin/bmin/cmin menu x both generators; '
            '[tilted] 3 line directions whose rotated cell is tilted x 3 sizes, linear arrays: the disregistry accumulates to exactly b; '
            '[live] 3 systems x 2 (m,n): all histories (constructor variant, optional first call, second call) over {monopole, periodicarray} x '
            '{shiftindex 0, last shiftindex, explicit shift} on ONE live object, second call compared with the same call on a fresh object.  '
            'A case is one (clause, index tuple); a construction is one generated configuration; '
            'distinct_nontrivial counts distinct generated configurations (hash of the rounded coordinates) in which '
            'at least one atom is displaced by more than 1e-3 |b| (monopole/boundary/disreg) or at least one atom was '
            'deleted or the box was tilted (array)')
chk.assumptions = [
    'positions compared to 1e-9 A absolute (coordinates <= 100 A, double rounding ~1e-14; wrap adds box vectors)',
    'the elastic displacement field is taken from a separately constructed solve_volterra_dislocation object (C12 validates it)',
    'region clauses exempt atoms within 1e-6 A of a region surface; menus keep the slip plane >= 0.3 A from every atom',
    'boundary retyping is judged on the positions of the generated (dislocated) configuration, as the docstring says',
    'periodic array, linear field: u = sign(y) (1/4 - x/(2 L_m)) b about the centre (docstring: long-range linear limit); '
    'elastic field in the middle is accepted up to one common rigid shift along the slip-plane normal',
    'disregistry tail bound 2*(2/pi)*atan(h/x_end) (isotropic screw deficit is (2/pi)*atan(h/(2 x_end)); factor 4 covers '
    'edge terms and anisotropy), columns outside the common x-range of the two planes are not compared (clamped extrapolation); '
    'x_end is the signed distance from the core to the nearer end of the compared range and the accumulation is judged only for '
    'x_end > h (otherwise the bound is >= 1 and vacuous)',
    'a "Deleted atom mismatch" refusal is accepted only when the predicted duplicate misfit |b| b_e/(2 L_m) exceeds the cutoff',
    'periodic array: the returned base_system is compared with the untrimmed crystal modulo the three periods of the (fully '
    'periodic) reference box; displacements are judged from the returned reference positions',
    'sizes: sizemults is passed as list and as tuple (docstring: "sizemults : tuple"); a list re-used for further calls must '
    'still be honoured (same size); whether the generator modifies the caller\'s list is not judged by itself',
]

AX = {'x': np.array([1.0, 0, 0]), 'y': np.array([0, 1.0, 0]), 'z': np.array([0, 0, 1.0])}
MN = [('y', 'z'), ('x', 'y'), ('z', 'x'), ('y', 'x'), ('x', 'z'), ('z', 'y')]
CUTOFF = 0.5
POS_TOL = 1e-9


# --------------------------------------------------------------------------
# hand-built unit cells

def _cell(spos, box, atype, symbols):
    return am.System(atoms=am.Atoms(atype=atype, pos=np.array(spos, float)), box=box, scale=True, symbols=symbols)


def crystal(name):
    if name == 'fcc':
        u = _cell([[0, 0, 0], [.5, .5, 0], [.5, 0, .5], [0, .5, .5]], am.Box.cubic(3.615), [1, 1, 1, 1], 'Cu')
        return u, am.ElasticConstants(C11=1.69, C12=1.22, C44=0.75), 'f'
    if name == 'fccp':   # primitive fcc cell, isotropic medium (orientation-free constants)
        a = 4.05 / 2 ** 0.5
        u = _cell([[0, 0, 0]], am.Box(a=a, b=a, c=a, alpha=60, beta=60, gamma=60), [1], 'Al')
        return u, am.ElasticConstants(C11=1.0, C12=0.5, C44=0.25), 'p'
    if name == 'bcc':
        u = _cell([[0, 0, 0], [.5, .5, .5]], am.Box.cubic(2.87), [1, 1], 'Fe')
        return u, am.ElasticConstants(C11=2.3, C12=1.35, C44=1.17), 'i'
    if name == 'hcp':
        u = _cell([[0, 0, 0], [1 / 3, 2 / 3, .5]], am.Box.hexagonal(3.2, 5.2), [1, 1], 'Mg')
        return u, am.ElasticConstants(C11=0.6, C12=0.26, C13=0.21, C33=0.62, C44=0.16), 'p'
    if name == 'sc':
        u = _cell([[0, 0, 0]], am.Box.cubic(3.0), [1], 'Po')
        return u, am.ElasticConstants(C11=1.0, C12=0.4, C44=0.5), 'p'
    if name == 'b2':
        u = _cell([[0, 0, 0], [.5, .5, .5]], am.Box.cubic(3.0), [1, 2], ['Ni', 'Al'])
        return u, am.ElasticConstants(C11=1.0, C12=0.4, C44=0.5), 'p'
    raise KeyError(name)


SYSTEMS = [
    # crystal, burgers, xi_uvw, slip_hkl, label
    ('fcc', [.5, -.5, 0], [1, -1, 0], [1, 1, 1], 'fcc 111 screw'),
    ('fcc', [.5, -.5, 0], [1, 1, -2], [1, 1, 1], 'fcc 111 edge'),
    ('fcc', [.5, -.5, 0], [1, 0, -1], [1, 1, 1], 'fcc 111 60deg'),
    ('fcc', [.5, -.5, 0], [.5, -.5, 0], [1, 1, 1], 'fcc 111 screw, half-integer line vector'),
    ('fcc', [0, .5, .5], [2, -1, 1], [1, 1, -1], 'fcc 11-1 edge'),
    ('fccp', [1, -1, 0], [1, -1, 0], [1, 1, 1], 'fcc primitive cell screw (isotropic)'),
    ('fccp', [1, -1, 0], [-1, -1, 2], [1, 1, 1], 'fcc primitive cell edge (isotropic)'),
    ('bcc', [.5, .5, .5], [1, 1, 1], [1, -1, 0], 'bcc 110 screw'),
    ('bcc', [.5, .5, .5], [1, 1, -2], [1, -1, 0], 'bcc 110 edge'),
    ('bcc', [.5, .5, .5], [1, 1, -1], [1, -1, 0], 'bcc 110 71deg'),
    ('bcc', [.5, .5, .5], [1, -1, 0], [1, 1, -2], 'bcc 112 edge'),
    ('bcc', [.5, .5, .5], [1, 1, 1], [1, 1, -2], 'bcc 112 screw'),
    ('hcp', [2 / 3, -1 / 3, -1 / 3, 0], [2, -1, -1, 0], [0, 0, 0, 1], 'hcp basal screw'),
    ('hcp', [2 / 3, -1 / 3, -1 / 3, 0], [0, 1, -1, 0], [0, 0, 0, 1], 'hcp basal edge'),
    ('hcp', [2 / 3, -1 / 3, -1 / 3, 0], [1, 0, -1, 0], [0, 0, 0, 1], 'hcp basal 30deg'),
    ('hcp', [2 / 3, -1 / 3, -1 / 3, 0], [2, -1, -1, 0], [0, 1, -1, 0], 'hcp prismatic screw'),
    ('sc', [1, 0, 0], [0, 0, 1], [0, 1, 0], 'sc 010 edge'),
    ('sc', [1, 0, 0], [1, 0, 0], [0, 1, 0], 'sc 010 screw'),
    ('sc', [1, 1, 0], [1, 0, 0], [0, 0, 1], 'sc 001 45deg'),
    ('b2', [1, 0, 0], [0, 1, -1], [0, 1, 1], 'B2 011 edge'),
    ('b2', [1, 1, 1], [1, 1, 1], [1, -1, 0], 'B2 110 screw'),
    # rounding leaves the atoms of one row on the motion-direction box faces partly on the lower, partly on the upper face
    ('bcc', [-.5, .5, .5], [-1, 1, 1], [1, 1, 0], 'bcc 110 screw b=-111 (face row split by wrap)'),
]
if THOROUGH:
    # further symmetry-equivalent variants (different signs / first hits in the integer-vector search)
    SYSTEMS += [
        ('fcc', [-.5, 0, .5], [-1, 0, 1], [1, -1, 1], 'fcc 1-11 screw'),
        ('fcc', [-.5, 0, .5], [1, 2, 1], [1, -1, 1], 'fcc 1-11 edge'),
        ('fcc', [.5, .5, 0], [0, 1, 1], [-1, 1, -1], 'fcc -11-1 60deg'),
        ('fcc', [.5, -.5, 0], [2, -1, -1], [1, 1, 1], 'fcc 111 30deg'),
        ('bcc', [.5, -.5, .5], [1, 2, 1], [1, 0, -1], 'bcc 10-1 edge'),
        ('bcc', [.5, .5, -.5], [1, -1, 0], [1, 1, 2], 'bcc 112 edge b=11-1'),
        ('hcp', [-1 / 3, 2 / 3, -1 / 3, 0], [-1, 2, -1, 0], [0, 0, 0, 1], 'hcp basal screw a2'),
        ('hcp', [-1 / 3, 2 / 3, -1 / 3, 0], [1, 0, -1, 0], [0, 0, 0, 1], 'hcp basal edge a2'),
        ('hcp', [-1 / 3, 2 / 3, -1 / 3, 0], [-1, 2, -1, 0], [1, 0, -1, 0], 'hcp prismatic screw a2'),
        ('sc', [0, 1, 0], [1, 0, 0], [0, 0, 1], 'sc 001 edge b=010'),
        ('b2', [1, 1, 1], [1, 1, -2], [1, -1, 0], 'B2 110 edge'),
    ]

# size multipliers as (line, motion, cut); the two in-plane / out-of-plane ones must be even
SIZES_MONO = [(1, 2, 2), (2, 4, 2), (1, 2, 6)] + ([(3, 6, 4), (1, 8, 8), (2, 2, 2)] if THOROUGH else [])
SIZES_BOUND = [(1, 4, 4), (2, 2, 6)] + ([(1, 6, 2), (3, 8, 4)] if THOROUGH else [])
SIZES_ARRAY = [(1, 4, 2), (2, 6, 4)] + ([(1, 8, 2), (3, 4, 6), (1, 2, 2)] if THOROUGH else [])
DISREG_W = [4, 6] if THOROUGH else [4]     # motion multiplier W (and 2W)
# centres: None, absolute (m, n, xi components in A), scaled (same kind of vector given relative to rcell)
CENTRES = [None, ('abs', 0.3, 0.2, 5.0), ('scaled', -0.45, 0.12, 0.0)]
if THOROUGH:
    CENTRES += [('abs', -1.7, -0.15, 0.0), ('scaled', 2.6, 0.0, -1.0)]
# VERIF_SEED appends one pre-vetted generic centre offset (|n offset| <= 0.15 A keeps the slip plane between atoms)
SEED_CENTRES = [('abs', 0.137, 0.061, 0.0), ('abs', -0.291, 0.113, 1.0), ('scaled', 0.377, -0.087, 0.0),
                ('abs', -0.518, -0.139, 0.0), ('scaled', 0.733, 0.149, 2.0), ('abs', 0.911, -0.043, 0.0),
                ('abs', -1.093, 0.027, -3.0), ('scaled', 1.251, -0.121, 0.0)]
CENTRES.append(SEED_CENTRES[SEED % 8])
WIDTHS = [('abs', 0.0), ('abs', 0.25), ('abs', 0.6), ('scaled', 0.4)]     # fraction of the smallest half width


# --------------------------------------------------------------------------
# independent geometry

_G = {}


def vec3(v):
    v = np.asarray(v, float)
    if len(v) == 4:    # Miller-Bravais direction [uvtw] -> [u-t, v-t, w]
        return np.array([v[0] - v[2], v[1] - v[2], v[3]])
    return v


def plane3(h):
    h = np.asarray(h, float)
    if len(h) == 4:    # (hkil) -> (hkl)
        return h[[0, 1, 3]]
    return h


def geometry(si, mi):
    key = (si, mi)
    if key in _G:
        return _G[key]
    cname, b, xi, hkl, label = SYSTEMS[si]
    ucell, C, setting = crystal(cname)
    m, n = MN[mi]
    Vu = np.array(ucell.box.vects)
    xc = vec3(xi) @ Vu
    lvec_c = xc.copy()
    xc = xc / np.linalg.norm(xc)
    nc = plane3(hkl) @ np.linalg.inv(Vu).T
    nc = nc / np.linalg.norm(nc)
    mc = np.cross(nc, xc)
    assert abs(nc @ xc) < 1e-12
    mh, nh = AX[m], AX[n]
    xh = np.cross(mh, nh)
    T = np.outer(mh, mc) + np.outer(nh, nc) + np.outer(xh, xc)     # p_rotated = T @ p_crystal
    bc = vec3(b) @ Vu
    assert abs(bc @ nc) < 1e-12, 'Burgers vector must lie in the slip plane'
    g = dict(si=si, mi=mi, label=label, ucell=ucell, C=C, setting=setting, b_uvw=b, xi=xi, hkl=hkl, m=m, n=n,
             Vu=Vu, T=T, mh=mh, nh=nh, xh=xh, b=T @ bc,
             li=int(np.argmax(np.abs(xh))), ci=int(np.argmax(np.abs(nh))), moi=int(np.argmax(np.abs(mh))),
             basis=np.array(ucell.atoms_prop(key='pos', scale=True)), btype=np.array(ucell.atoms.atype),
             nb=ucell.natoms)
    g['bmag'] = float(np.linalg.norm(g['b']))
    g['be'] = float(g['b'] @ mh)
    if abs(g['be']) < 1e-9 * g['bmag']:
        g['be'] = 0.0
    g['bs'] = float(g['b'] @ xh)
    # elastic solution constructed separately from the object under test
    g['sol'] = am.defect.solve_volterra_dislocation(C, b, ξ_uvw=xi, slip_hkl=hkl, m=m, n=n, box=ucell.box)
    _G[key] = g
    return g


def new_disl(g, **kw):
    return Dislocation(g['ucell'], g['C'], g['b_uvw'], g['xi'], g['hkl'], conventional_setting=g['setting'],
                       m=g['m'], n=g['n'], **kw)


def sizemults(g, lmc):
    s = [0, 0, 0]
    s[g['li']], s[g['moi']], s[g['ci']] = lmc
    return s


def centre_of(g, d, c):
    """-> (kwargs for the generator, independent Cartesian centre)"""
    if c is None:
        return {}, np.zeros(3)
    kind, cm, cn, cx = c
    cabs = cm * g['mh'] + cn * g['nh'] + cx * g['xh']
    if kind == 'abs':
        return {'center': cabs.tolist()}, cabs
    rel = cabs @ np.linalg.inv(np.array(d.rcell.box.vects))     # relative to the rotated cell's box vectors
    return {'center': rel, 'centerscale': True}, cabs


def site_match(g, pos, shift):
    """Map rotated-frame positions back to the unit cell: -> (on_site mask, atype, integer site keys)."""
    q = (pos - shift) @ g['T']                     # T^-1 p  (T orthogonal), row form
    f = q @ np.linalg.inv(g['Vu'])
    ok = np.zeros(len(f), bool)
    typ = np.zeros(len(f), int)
    keys = np.zeros((len(f), 4), int)
    for j in range(g['nb']):
        r = f - g['basis'][j]
        k = np.round(r)
        hit = (np.abs(r - k).max(axis=1) < 1e-7) & ~ok
        ok |= hit
        typ[hit] = g['btype'][j]
        keys[hit, :3] = k[hit]
        keys[hit, 3] = j
    return ok, typ, keys


def is_lattice_translation(g, v):
    """v (rotated frame) is a translation of the crystal iff it maps every basis atom onto a site of its type."""
    p = (g['basis'] @ g['Vu']) @ g['T'].T + v
    ok, typ, _ = site_match(g, p, np.zeros(3))
    return bool(ok.all() and np.array_equal(typ, g['btype']))


def mod_vectors(res, vects):
    """remove integer multiples of the given (1 or 2) period vectors from residual rows (least squares)"""
    A = np.array(vects, float)
    coef = res @ np.linalg.pinv(A)
    return res - np.round(coef) @ A


def lin_disp(p, g, L):
    return np.outer(np.sign(p @ g['nh']) * (0.25 - (p @ g['mh']) / (2 * L)), g['b'])


def planes_of(y, tol=1e-6):
    ys = np.sort(y)
    keep = np.concatenate([[True], np.diff(ys) > tol])
    return ys[keep]


def count_config(tag, sysm, nontrivial):
    """every generated configuration is counted; distinctness is decided globally after the run from the
    content hashes (note keys 'cfg1:<hash>' non-trivial / 'cfg0:<hash>' trivial, folded in __main__)"""
    h = hashlib.sha1()
    h.update(np.round(np.asarray(sysm.atoms.pos), 6).tobytes())
    h.update(np.asarray(sysm.atoms.atype).tobytes())
    h.update(np.round(np.asarray(sysm.box.vects), 6).tobytes())
    chk.note('constructions')
    chk.note('cfg%d:%s' % (1 if nontrivial else 0, h.hexdigest()[:20]))


# --------------------------------------------------------------------------
# oracles shared by the clauses

def judge_base(g, d, base, smult, shift, tag):
    """base_system is the rotated, shifted perfect crystal filling a box that is symmetric about the line."""
    fails = []
    V = np.array(base.box.vects)
    o = np.array(base.box.origin)
    li, ci, moi = g['li'], g['ci'], g['moi']
    scale = np.abs(V).max()
    # box vectors: whole crystal translations, line vector along xi, motion vector inside the slip plane
    for i in range(3):
        if not is_lattice_translation(g, V[i]):
            fails.append(Fail(key=tag + 'box-not-lattice', msg='box vector %d of base_system is not a translation of the crystal' % i, vect=V[i]))
    if np.linalg.norm(np.cross(V[li], g['xh'])) > 1e-9 * scale:
        fails.append(Fail(key=tag + 'line-vector', msg='box vector along the line is not parallel to xi', vect=V[li]))
    if abs(V[moi] @ g['nh']) > 1e-9 * scale or abs(V[li] @ g['nh']) > 1e-9 * scale:
        fails.append(Fail(key=tag + 'slip-plane-tilted', msg='in-plane box vectors have a component along the slip-plane normal'))
    rv = np.array(d.rcell.box.vects)
    if np.abs(V - np.array(smult)[:, None] * rv).max() > 1e-9 * scale:
        fails.append(Fail(key=tag + 'box-multiples', msg='base box is not sizemults x rcell box', observed=V, expected=np.array(smult)[:, None] * rv))
    # symmetric about the origin in the m,n plane
    cen = o + V.sum(axis=0) / 2
    if abs(cen @ g['mh']) > 1e-9 * scale or abs(cen @ g['nh']) > 1e-9 * scale:
        fails.append(Fail(key=tag + 'box-not-centred', msg='default line position (0,0) is not the middle of the base box in the m,n plane',
                          observed=[cen @ g['mh'], cen @ g['nh']]))
    if abs(o @ g['xh']) > 1e-9 * scale:
        fails.append(Fail(key=tag + 'box-line-origin', msg='base box does not start at 0 along the line', observed=o @ g['xh']))
    pos = np.array(base.atoms.pos)
    ok, typ, keys = site_match(g, pos, shift)
    if not ok.all():
        fails.append(Fail(key=tag + 'off-lattice', msg='%d base atoms are not on (rotated, shifted) unit-cell lattice sites' % int((~ok).sum()),
                          first=pos[~ok][0]))
        return fails
    if not np.array_equal(typ, np.array(base.atoms.atype)):
        fails.append(Fail(key=tag + 'site-type', msg='base atom type differs from the type of its unit-cell site'))
    if len({tuple(k) for k in keys}) != len(keys):
        fails.append(Fail(key=tag + 'duplicate-sites', msg='two base atoms occupy the same lattice site'))
    nexp = abs(np.linalg.det(V)) / abs(np.linalg.det(g['Vu'])) * g['nb']
    if abs(nexp - base.natoms) > 1e-6:
        fails.append(Fail(key=tag + 'atom-count', msg='base atom count differs from density x volume', observed=base.natoms, expected=nexp))
    f = (pos - o) @ np.linalg.inv(V)
    if f.min() < -1e-9 or f.max() > 1 + 1e-9:
        fails.append(Fail(key=tag + 'outside-box', msg='base atoms outside the base box'))
    if list(base.symbols) != list(g['ucell'].symbols):
        fails.append(Fail(key=tag + 'symbols', msg='base symbols differ from unit cell symbols', observed=list(base.symbols)))
    return fails


def judge_slip_plane(g, base, halfway, tag):
    """slip plane n.x = 0 free of atoms; for offered shifts halfway between the adjoining atomic planes"""
    y = np.array(base.atoms.pos) @ g['nh']
    pl = planes_of(y)
    up, dn = pl[pl > 0], pl[pl < 0]
    if np.abs(pl).min() < 1e-3 or not len(up) or not len(dn):
        return [Fail(key=tag + 'atoms-on-slip-plane', msg='atomic plane at the slip plane', observed=float(np.abs(pl).min()))], None
    a, b_ = up.min(), dn.max()
    if halfway and abs(a + b_) > 1e-6:
        return [Fail(key=tag + 'shift-not-halfway', msg='offered shift does not put the slip plane halfway between atomic planes',
                     above=a, below=b_)], None
    return [], (a, b_, pl)


def region_outside(g, box, pts, shape, width):
    """-> (outside mask, exempt mask); own signed distances"""
    V = np.array(box.vects)
    o = np.array(box.origin)
    li = g['li']
    dists = []
    axis_d = []
    for i in range(3):
        if i == li:
            continue
        j, k = [x for x in range(3) if x != i]
        nrm = np.cross(V[j], V[k])
        nrm = nrm / np.linalg.norm(nrm)
        if nrm @ V[i] < 0:
            nrm = -nrm
        dists.append((pts - o) @ nrm)                 # depth below the low face
        dists.append((o + V[i] - pts) @ nrm)          # depth below the high face
        axis_d += [abs(o @ nrm), abs((o + V[i]) @ nrm)]
    if shape == 'box':
        depth = np.min(dists, axis=0) - width
        return depth < 0, np.abs(np.array(dists) - width).min(axis=0) < 1e-6, None
    radius = min(axis_d) - width
    ax = V[li] / np.linalg.norm(V[li])
    r = np.linalg.norm(pts - np.outer(pts @ ax, ax), axis=1)
    return r > radius, np.abs(r - radius) < 1e-6, radius


def half_width(g, box):
    V = np.array(box.vects)
    o = np.array(box.origin)
    out = []
    for i in range(3):
        if i == g['li']:
            continue
        j, k = [x for x in range(3) if x != i]
        nrm = np.cross(V[j], V[k])
        nrm = nrm / np.linalg.norm(nrm)
        out += [abs(o @ nrm), abs((o + V[i]) @ nrm)]
    return min(out)


def judge_monopole(g, d, base, disl, cabs, tag, bshape=None, bwidth=0.0):
    fails = []
    li = g['li']
    if base.natoms != disl.natoms:
        return [Fail(key=tag + 'natoms', msg='monopole changed the atom count', observed=disl.natoms, expected=base.natoms)]
    bp = np.array(base.atoms.pos)
    dp = np.array(disl.atoms.pos)
    line = np.array(base.box.vects)[li]
    u = g['sol'].displacement(bp - cabs)
    res = mod_vectors(dp - bp - u, [line])
    worst = np.abs(res).max()
    chk.note('atoms-compared', len(bp))
    if worst > POS_TOL:
        i = int(np.argmax(np.abs(res).max(axis=1)))
        fails.append(Fail(key=tag + 'displacement', msg='atom not displaced by the elastic solution at its reference position relative to the centre',
                          worst=worst, atom=i, base=bp[i], observed=dp[i] - bp[i], expected=u[i]))
    exp_pbc = [i == li for i in range(3)]
    if [bool(x) for x in disl.pbc] != exp_pbc:
        fails.append(Fail(key=tag + 'pbc', msg='monopole periodicity', observed=[bool(x) for x in disl.pbc], expected=exp_pbc))
    dV = np.array(disl.box.vects)
    if np.abs(dV[li] - line).max() > 1e-9:
        fails.append(Fail(key=tag + 'line-period', msg='the periodic box vector of the dislocation system differs from the crystal period along the line'))
    f = (dp - np.array(disl.box.origin)) @ np.linalg.inv(dV)
    if f.min() < -1e-9 or f.max() > 1 + 1e-9:
        fails.append(Fail(key=tag + 'outside-box', msg='atoms outside the box of the dislocation system'))
    # boundary types
    bt = np.array(base.atoms.atype)
    dt = np.array(disl.atoms.atype)
    nt = len(g['ucell'].symbols)
    if bwidth > 0:
        out, exempt, radius = region_outside(g, base.box, dp, bshape, bwidth)
        exp = bt + nt * out
        bad = (dt != exp) & ~exempt
        chk.note('boundary-atoms', int(out.sum()))
        chk.note('interior-atoms', int((~out).sum()))
        if bad.any():
            i = int(np.argmax(bad))
            fails.append(Fail(key=tag + 'boundary-types', msg='%d atoms mistyped w.r.t. the %s region of width %g' % (int(bad.sum()), bshape, bwidth),
                              atom=i, pos=dp[i], observed=int(dt[i]), expected=int(exp[i])))
        if list(disl.symbols) != 2 * list(g['ucell'].symbols):
            fails.append(Fail(key=tag + 'boundary-symbols', msg='symbols of a system with boundary types', observed=list(disl.symbols)))
    else:
        if not np.array_equal(bt, dt):
            fails.append(Fail(key=tag + 'types-changed', msg='atom types changed although no boundary width was requested'))
        if list(disl.symbols) != list(g['ucell'].symbols):
            fails.append(Fail(key=tag + 'symbols', msg='symbols changed', observed=list(disl.symbols)))
    moved = np.linalg.norm(dp - bp, axis=1).max() > 1e-3 * g['bmag']
    count_config('mono', disl, moved)
    return fails


def shift_options(g, d):
    """default, every offered index, an explicit absolute and the same given scaled"""
    opts = [('default', {}, np.array(d.shifts[0]), True)]
    for k in range(len(d.shifts)):
        opts.append(('index%d' % k, {'shiftindex': k}, np.array(d.shifts[k]), True))
    sabs = np.array(d.shifts[0]) + 0.37 * g['mh'] + 0.11 * g['xh'] + 0.05 * g['nh']
    opts.append(('abs', {'shift': sabs.tolist()}, sabs, False))
    srel = sabs @ np.linalg.inv(np.array(d.rcell.box.vects))
    opts.append(('scaled', {'shift': srel, 'shiftscale': True}, sabs, False))
    return opts


def judge_shifts(g, d, fresh_base):
    """the list of offered shifts: one per atomic plane of the rotated cell, all along n"""
    fails = []
    sh = np.array(d.shifts)
    if np.abs(sh - np.outer(sh @ g['nh'], g['nh'])).max() > 1e-9:
        fails.append(Fail(key='shifts-not-normal', msg='offered shifts are not along the slip-plane normal'))
    period = abs(np.array(d.rcell.box.vects)[g['ci']] @ g['nh'])
    y = (np.array(d.rcell.atoms.pos) @ g['nh']) % period
    y[np.abs(y - period) < 1e-6] = 0.0
    nplanes = len(planes_of(y))
    s = np.sort((sh @ g['nh']) % period)
    if len(sh) != nplanes or (len(s) > 1 and np.diff(s).min() < 1e-6):
        fails.append(Fail(key='shifts-count', msg='number of distinct offered shifts differs from the number of atomic planes per period',
                          observed=len(sh), expected=nplanes))
    return fails


# --------------------------------------------------------------------------
# clauses

@chk.clause('monopole')
def monopole(case):
    g = geometry(case['sys'], case['mn'])
    fails = []
    d0 = new_disl(g)
    if (d0.lineindex, d0.cutindex, d0.motionindex) != (g['li'], g['ci'], g['moi']):
        fails.append(Fail(key='indices', msg='lineindex/cutindex/motionindex', observed=[d0.lineindex, d0.cutindex, d0.motionindex],
                          expected=[g['li'], g['ci'], g['moi']]))
        return fails
    if np.abs(np.array(d0.transform) - g['T']).max() > 1e-12:
        fails.append(Fail(key='transform', msg='transform differs from the one built from line direction, plane normal and (m,n)'))
    if np.abs(np.array(d0.dislsol.burgers) - g['b']).max() > 1e-9:
        fails.append(Fail(key='burgers', msg='Cartesian Burgers vector of the solution', observed=d0.dislsol.burgers, expected=g['b']))
    fails += judge_shifts(g, d0, None)
    smult = sizemults(g, SIZES_MONO[case['size']])
    for name, skw, sexp, halfway in shift_options(g, d0):
        d = new_disl(g)                                   # fresh object per construction
        ckw, cabs = centre_of(g, d, CENTRES[case['centre']])
        base, disl = d.monopole(sizemults=list(smult), return_base_system=True, **skw, **ckw)
        tag = ''
        if np.abs(np.array(d.shift) - sexp).max() > 1e-9:
            fails.append(Fail(key='shift-attribute', msg='shift used (%s) differs from the requested one' % name, observed=d.shift, expected=sexp))
        if base is not d.base_system or disl is not d.disl_system:
            fails.append(Fail(key='attributes', msg='base_system / disl_system attributes are not the returned systems'))
        fails += judge_base(g, d, base, smult, sexp, tag)
        f2, _ = judge_slip_plane(g, base, halfway, tag)
        fails += f2
        if not f2:
            fails += judge_monopole(g, d, base, disl, cabs, tag)
        if fails:
            for f in fails:
                f.setdefault('shift_option', name)
            break
    return fails


@chk.clause('boundary')
def boundary(case):
    g = geometry(case['sys'], case['mn'])
    d = new_disl(g)
    smult = sizemults(g, SIZES_BOUND[case['size']])
    ckw, cabs = centre_of(g, d, CENTRES[case['centre']])
    shape = ['cylinder', 'box'][case['shape']]
    kind, frac = WIDTHS[case['width']]
    # width menu relative to the smallest half width of the (independently known) box
    V = np.array(smult)[:, None] * np.array(d.rcell.box.vects)
    o = np.zeros(3)
    for i in (g['moi'], g['ci']):
        o = o - V[i] / 2
    hw = half_width(g, am.Box(vects=V, origin=o))
    width = frac * hw
    if kind == 'scaled':
        kw = {'boundarywidth': width / g['ucell'].box.a, 'boundaryscale': True}
    else:
        kw = {'boundarywidth': width}
    base, disl = d.monopole(sizemults=list(smult), boundaryshape=shape, return_base_system=True, **kw, **ckw)
    fails = judge_base(g, d, base, smult, np.array(d.shifts[0]), '')
    if not fails:
        fails += judge_monopole(g, d, base, disl, cabs, '', bshape=shape, bwidth=width)
    return fails


def array_expect(g, Vfull, nfull):
    """independent count of deleted atoms and predicted misfit of the duplicates"""
    L = abs(Vfull[g['moi']] @ g['mh'])
    nrem = nfull * abs(g['be']) / (2 * L)
    misfit = g['bmag'] * abs(g['be']) / (2 * L)
    return L, nrem, misfit


def min_pair_distance(pos, V, periodic):
    """brute force over all pairs and the images along the periodic box vectors (an image and its negative give the
    same set of pair distances, so one of each pair of images is visited); |p-q|^2 = p.p + q.q - 2 p.q on centred
    coordinates (<= 100 A: absolute error of d^2 ~1e-11 A^2, irrelevant against the 0.5 A cutoff)"""
    rng = [(-1, 0, 1) if periodic[i] else (0,) for i in range(3)]
    best = np.inf
    n = len(pos)
    p = pos - pos.mean(axis=0)
    sq = (p ** 2).sum(axis=1)
    for c in itertools.product(*rng):
        if c < tuple(-x for x in c):
            continue
        q = p + np.array(c, float) @ V
        d2 = sq[:, None] + (q ** 2).sum(axis=1)[None, :] - 2 * (p @ q.T)
        if not any(c):
            d2[np.arange(n), np.arange(n)] = np.inf
        best = min(best, d2.min())
    return float(np.sqrt(max(best, 0.0)))


def run_array(g, d, smult, skw, ckw, linear, bwidth):
    """-> ('ok', base, disl) or ('refused', message)"""
    try:
        base, disl = d.periodicarray(sizemults=list(smult), linear=linear, boundarywidth=bwidth,
                                     return_base_system=True, **skw, **ckw)
    except ValueError as e:
        return 'refused', str(e), None
    return 'ok', base, disl


def judge_array(g, d, base, disl, full, cabs, linear, bwidth, tag=''):
    fails = []
    li, ci, moi = g['li'], g['ci'], g['moi']
    Vf = np.array(full.box.vects)
    L, nrem, misfit = array_expect(g, Vf, full.natoms)
    nrem = int(round(nrem))
    if disl.natoms != full.natoms - nrem or base.natoms != disl.natoms:
        return [Fail(key=tag + 'removed-count', msg='number of deleted atoms differs from N |b.m| / (2 L_m)',
                     observed=full.natoms - disl.natoms, expected=nrem, base_natoms=base.natoms)]
    chk.note('atoms-deleted', nrem)
    # box: motion vector tilted by -sign(b.m) b/2, others and origin unchanged; periodic in the slip plane only
    Vexp = Vf.copy()
    Vexp[moi] = Vexp[moi] - np.sign(g['be']) * g['b'] / 2 if g['be'] != 0 else Vexp[moi] + g['b'] / 2
    Vd = np.array(disl.box.vects)
    exp_pbc = [i != ci for i in range(3)]
    if [bool(x) for x in disl.pbc] != exp_pbc:
        fails.append(Fail(key=tag + 'pbc', msg='periodic array periodicity', observed=[bool(x) for x in disl.pbc], expected=exp_pbc))
    per = [i for i in range(3) if i != ci]
    if np.abs(Vd[per] - Vexp[per]).max() > 1e-9:
        # for a pure screw both signs of the tilt are equivalent (b/2 vs -b/2 differ by the lattice vector b along the line)
        alt = Vf.copy()
        alt[moi] = alt[moi] - g['b'] / 2
        if not (g['be'] == 0 and np.abs(Vd[per] - alt[per]).max() <= 1e-9):
            fails.append(Fail(key=tag + 'box', msg='in-plane box vectors of the array are not the base vectors with the motion vector changed by -sign(b.m) b/2',
                              observed=Vd, expected=Vexp))
    if np.abs(np.cross(Vd[ci], Vf[ci])).max() > 1e-9 or np.abs(np.array(base.box.vects) - Vf).max() > 1e-9:
        fails.append(Fail(key=tag + 'box-cut', msg='out-of-plane box vector direction / base box changed'))
    # old_id: distinct, maps each atom to the untrimmed reference atom of the same type
    oid = np.array(disl.atoms.old_id)
    fp = np.array(full.atoms.pos)
    ft = np.array(full.atoms.atype)
    if len(set(oid.tolist())) != len(oid) or oid.min() < 0 or oid.max() >= full.natoms:
        return fails + [Fail(key=tag + 'old-id-range', msg='old_id values are not distinct indices of the untrimmed base system')]
    bp = np.array(base.atoms.pos)
    dp = np.array(disl.atoms.pos)
    nt = len(g['ucell'].symbols)
    # the reference crystal is periodic in all three directions: an atom may sit at any periodic image of its site
    if np.abs(mod_vectors(bp - fp[oid], Vf)).max() > 1e-9 or not np.array_equal(np.array(base.atoms.atype), ft[oid]):
        fails.append(Fail(key=tag + 'old-id-base', msg='returned base_system is not the untrimmed perfect crystal indexed by old_id '
                                                       '(modulo the periods of the reference box)'))
        return fails
    if not np.array_equal((np.array(disl.atoms.atype) - 1) % nt + 1, ft[oid]):
        fails.append(Fail(key=tag + 'old-id-type', msg='old_id maps an atom to a reference atom of a different type'))
    # displacement of every remaining atom from its reference atom (the returned one, just shown to be the crystal site)
    rp = bp
    ulin = lin_disp(rp - cabs, g, L)
    if linear:
        uexp = ulin
        inner = np.zeros(len(rp), bool)
        exempt = np.zeros(len(rp), bool)
    else:
        y = rp @ g['nh']
        ys = sorted([np.array(full.box.origin) @ g['nh'], (np.array(full.box.origin) + Vf[ci]) @ g['nh']])
        dlo, dhi = y - ys[0], ys[1] - y
        inner = (dlo > bwidth) & (dhi > bwidth)
        exempt = (np.abs(dlo - bwidth) < 1e-6) | (np.abs(dhi - bwidth) < 1e-6)
        uexp = np.where(inner[:, None], g['sol'].displacement(rp - cabs), ulin)
    res = mod_vectors(dp - rp - uexp, Vd[per])
    if inner.any():
        # the elastic field may carry one common rigid shift along the normal
        rigid = res[inner & ~exempt].mean(axis=0)
        if np.abs(rigid - (rigid @ g['nh']) * g['nh']).max() > POS_TOL:
            fails.append(Fail(key=tag + 'rigid-shift', msg='common shift of the middle region is not along the slip-plane normal', observed=rigid))
        res[inner] -= rigid
    res[exempt] = 0
    chk.note('atoms-compared', len(rp))
    if np.abs(res).max() > POS_TOL:
        i = int(np.argmax(np.abs(res).max(axis=1)))
        fails.append(Fail(key=tag + 'displacement', msg='array atom is not its old_id reference atom displaced by the %s field' %
                          ('linear' if (linear or not inner[i]) else 'elastic'), worst=np.abs(res).max(), atom=i, ref=rp[i],
                          observed=dp[i] - rp[i], expected=uexp[i]))
    # no overlapping atoms across the two in-plane periodic directions
    dmin = min_pair_distance(dp, Vd, exp_pbc)
    if dmin < CUTOFF:
        fails.append(Fail(key=tag + 'overlap', msg='two atoms of the array closer than the duplicate cutoff', observed=dmin, cutoff=CUTOFF))
    # boundary types (slabs at the two free surfaces)
    dt = np.array(disl.atoms.atype)
    if bwidth > 0:
        nrm = g['nh']
        ys = sorted([np.array(full.box.origin) @ nrm, (np.array(full.box.origin) + Vf[ci]) @ nrm])
        yy = dp @ nrm
        depth = np.minimum(yy - ys[0], ys[1] - yy) - bwidth
        out = depth < 0
        bad = (dt != ft[oid] + nt * out) & (np.abs(depth) > 1e-6)
        chk.note('boundary-atoms', int(out.sum()))
        if bad.any():
            fails.append(Fail(key=tag + 'boundary-types', msg='%d array atoms mistyped w.r.t. the surface slabs of width %g' % (int(bad.sum()), bwidth)))
        if list(disl.symbols) != 2 * list(g['ucell'].symbols):
            fails.append(Fail(key=tag + 'boundary-symbols', msg='symbols of an array with boundary types', observed=list(disl.symbols)))
    elif not np.array_equal(dt, ft[oid]):
        fails.append(Fail(key=tag + 'types-changed', msg='atom types changed although no boundary width was requested'))
    count_config('array', disl, nrem > 0 or np.abs(Vd - Vf).max() > 1e-6)
    return fails


_FULL = {}


def array_case(g, smult, skw, centre, linear, bwidth, tag=''):
    """run periodicarray on a fresh object; judge refusals and results. -> (fails, base, disl, cabs, d)"""
    fkey = (g['si'], g['mi'], tuple(smult), repr(sorted(skw.items())))
    if fkey not in _FULL:
        if len(_FULL) > 64:
            _FULL.clear()
        dref = new_disl(g)
        # untrimmed crystal (judged by the monopole clause); read-only, so it is built once per worker and request
        _FULL[fkey] = dref.monopole(sizemults=list(smult), return_base_system=True, **skw)[0]
    full = _FULL[fkey]
    d = new_disl(g)
    ckw, cabs = centre_of(g, d, centre)
    L, nrem, misfit = array_expect(g, np.array(full.box.vects), full.natoms)
    st, base, disl = run_array(g, d, smult, skw, ckw, linear, bwidth)
    integer = abs(nrem - round(nrem)) < 1e-6
    if st == 'refused':
        msg = base
        if 'not an integer' in msg:
            chk.note('refusal-non-integer')
            if integer:
                return [Fail(key=tag + 'refused-integer-count', msg='refused although N |b.m|/(2 L_m) = %r is an integer' % nrem, error=msg)], None, None, cabs, d
            return [], None, None, cabs, d
        if 'Deleted atom mismatch' in msg and misfit > CUTOFF * (1 - 1e-6) and integer:
            chk.note('refusal-misfit-beyond-cutoff')
            return [], None, None, cabs, d
        return [Fail(key=tag + 'unexpected-refusal', msg='periodicarray refused a valid request: ' + msg, nrem=nrem, misfit=misfit)], None, None, cabs, d
    if not integer:
        return [Fail(key=tag + 'accepted-non-integer', msg='array built although the implied number of deleted atoms %r is not an integer' % nrem)], None, None, cabs, d
    if base is not d.base_system or disl is not d.disl_system:
        return [Fail(key=tag + 'attributes', msg='base_system / disl_system attributes are not the returned systems')], None, None, cabs, d
    return judge_array(g, d, base, disl, full, cabs, linear, bwidth, tag), base, disl, cabs, d


@chk.clause('array')
def array(case):
    g = geometry(case['sys'], case['mn'])
    smult = sizemults(g, SIZES_ARRAY[case['size']])
    if 'probe' not in g:
        g['probe'] = new_disl(g)      # only read: number of offered shifts and the rotated cell's box (both judged by the monopole clause)
    d0 = g['probe']
    fails = []
    bw = 0.0
    if case['bw']:
        bw = 0.3 * abs(smult[g['ci']] * np.array(d0.rcell.box.vects)[g['ci']] @ g['nh']) / 2
    for k in range(len(d0.shifts)):
        f, base, disl, cabs, d = array_case(g, smult, {'shiftindex': k}, CENTRES[case['centre']], bool(case['linear']), bw)
        for x in f:
            x.setdefault('shiftindex', k)
        fails += f
        if fails:
            break
    return fails


# ---- disregistry

def columns(x, u, tol=1e-6):
    order = np.argsort(x, kind='stable')
    xs, us = x[order], u[order]
    brk = np.concatenate([[0], np.where(np.diff(xs) > tol)[0] + 1, [len(xs)]])
    cx = np.array([xs[a:b].mean() for a, b in zip(brk[:-1], brk[1:])])
    cu = np.array([us[a:b].mean(axis=0) for a, b in zip(brk[:-1], brk[1:])])
    return cx, cu


def own_profile(g, rp, u, cabs):
    """expected disregistry from the expected displacements u of reference positions rp"""
    x, y = rp @ g['mh'], rp @ g['nh']
    mid = cabs @ g['nh']
    pl = planes_of(y)
    ya, yb = pl[pl > mid].min(), pl[pl < mid].max()
    A = np.abs(y - ya) < 1e-6
    B = np.abs(y - yb) < 1e-6
    xa, ua = columns(x[A], u[A])
    xb, ub = columns(x[B], u[B])
    allx, _ = columns(np.concatenate([xa, xb]), np.zeros((len(xa) + len(xb), 3)))
    lo, hi = max(xa.min(), xb.min()), min(xa.max(), xb.max())
    ia = np.array([np.interp(allx, xa, ua[:, k]) for k in range(3)]).T
    ib = np.array([np.interp(allx, xb, ub[:, k]) for k in range(3)]).T
    common = (allx >= lo - 1e-6) & (allx <= hi + 1e-6)
    return allx, ia - ib, common, ya - yb


def judge_disreg(g, base, disl, uexp, cabs, tag):
    """returns (fails, relative deficit)"""
    coord, dr = am.defect.disregistry(base, disl, m=g['mh'], n=g['nh'], planepos=cabs)
    coord, dr = np.asarray(coord), np.asarray(dr)
    if dr.shape != (len(coord), 3):
        return [Fail(key=tag + 'shape', msg='disregistry shape %s for %d coordinates' % (dr.shape, len(coord)))], None
    ox, od, common, h = own_profile(g, np.array(base.atoms.pos), uexp, cabs)
    fails = []
    # every own column is reported, every reported coordinate is a column
    idx = np.array([int(np.argmin(np.abs(ox - c))) for c in coord])
    if np.abs(ox[idx] - coord).max() > 1e-6 or set(idx.tolist()) != set(range(len(ox))):
        return [Fail(key=tag + 'columns', msg='disregistry coordinates are not the atomic columns of the two planes adjoining the slip plane',
                     observed=coord, expected=ox)], None
    sel = common[idx]
    err = np.abs(dr - od[idx])[sel]
    chk.note('disregistry-columns', int(sel.sum()))
    if err.max() > 1e-8:
        k = int(np.argmax(err.max(axis=1)))
        fails.append(Fail(key=tag + 'profile', msg='disregistry differs from the difference of the expected displacement field on the two adjoining planes',
                          worst=err.max(), coord=coord[sel][k], observed=dr[sel][k], expected=od[idx][sel][k]))
    # end-to-end accumulation
    cx, cd = ox[common], od[common]       # judged on the measured profile
    md = np.array([dr[np.where(idx == j)[0][0]] for j in np.where(common)[0]])
    delta = md[-1] - md[0]
    bhat = g['b'] / g['bmag']
    par = (delta @ bhat) / g['bmag']
    perp = np.linalg.norm(delta - (delta @ bhat) * bhat) / g['bmag']
    # signed: distance from the core to the nearer end of the compared column range, negative when the core is outside it
    xend = min(cabs @ g['mh'] - cx[0], cx[-1] - cabs @ g['mh'])
    return fails, dict(par=par, perp=perp, xend=xend, h=h, span=cx[-1] - cx[0])


@chk.clause('disreg')
def disreg(case):
    g = geometry(case['sys'], case['mn'])
    kind = ['monopole', 'array-linear', 'array-elastic'][case['gen']]
    centre = CENTRES[case['centre']]
    W = DISREG_W[case['w']]
    fails = []
    stats = []
    for mult in (1, 2):
        # line multiplier 2 keeps |screw displacement| <= b/2 away from half the line period (minimum-image tie)
        smult = sizemults(g, (2, W * mult, 4))
        d = new_disl(g)
        ckw, cabs = centre_of(g, d, centre)
        if kind == 'monopole':
            base, disl = d.monopole(sizemults=list(smult), return_base_system=True, **ckw)
            rp = np.array(base.atoms.pos)
            u = g['sol'].displacement(rp - cabs)
            u = mod_vectors(u, [np.array(base.box.vects)[g['li']]])
            count_config('mono', disl, True)
        else:
            f, base, disl, cabs, d = array_case(g, smult, {}, centre, kind == 'array-linear', 0.0, tag='array-')
            if f:
                return f
            if base is None:
                chk.note('disreg-array-refused')
                return []
            rp = np.array(base.atoms.pos)
            L = abs(smult[g['moi']] * np.array(d.rcell.box.vects)[g['moi']] @ g['mh'])
            if kind == 'array-linear':
                u = lin_disp(rp - cabs, g, L)
            else:
                u = g['sol'].displacement(rp - cabs)
                # rigid normal shift common to all atoms does not enter a difference of two planes
            Vd = np.array(disl.box.vects)
            u = mod_vectors(u, Vd[[i for i in range(3) if i != g['ci']]])
        f, st = judge_disreg(g, base, disl, u, cabs, kind + '-')
        fails += f
        if f or st is None:
            return fails
        stats.append(st)
        # the tail bound presumes the core inside the compared range; within one plane spacing of its end (or outside it)
        # the bound is >= 1, i.e. says nothing: the accumulation is then not judged (the column-by-column profile above is)
        judged = st['xend'] > st['h']
        st['judged'] = judged
        bound = 2 * (2 / np.pi) * np.arctan(st['h'] / st['xend']) if judged else np.inf
        if not judged and kind != 'array-linear':
            chk.note('accumulation-not-judged-core-at-range-end')
        if kind == 'array-linear':
            # exactly linear: one Burgers vector per period L
            L = abs(smult[g['moi']] * np.array(d.rcell.box.vects)[g['moi']] @ g['mh'])
            if abs(abs(st['par']) - st['span'] / L) > 1e-8 or st['perp'] > 1e-8:
                fails.append(Fail(key=kind + '-accumulation', msg='linear array: disregistry does not accumulate one Burgers vector per period',
                                  observed=st['par'], expected=st['span'] / L))
        else:
            if abs(abs(st['par']) - 1) > bound or st['perp'] > bound:
                fails.append(Fail(key=kind + '-accumulation', msg='end-to-end disregistry is not one Burgers vector within the tail bound',
                                  parallel=st['par'], perpendicular=st['perp'], bound=bound, x_end=st['xend'], h=st['h']))
    if not fails and kind != 'array-linear' and all(x['xend'] > 0 for x in stats):     # core inside both compared ranges
        d1, d2 = abs(abs(stats[0]['par']) - 1), abs(abs(stats[1]['par']) - 1)
        chk.note('deficit-pairs')
        if not d2 < d1:
            fails.append(Fail(key=kind + '-deficit-not-shrinking', msg='Burgers-vector deficit does not shrink when the width is doubled',
                              deficit_W=d1, deficit_2W=d2))
    return fails


# ---- size handling: container types and amin/bmin/cmin

MINS = [(0.0, 0.0, 0.0), (11.0, 0.0, 0.0), (0.0, 17.5, 9.0), (23.0, 14.0, 31.0)]


@chk.clause('sizes')
def sizes(case):
    g = geometry(case['sys'], case['mn'])
    d = new_disl(g)
    base_s = sizemults(g, (1, 2, 2)) if case['kind'] < 3 else None
    mins = MINS[case['mins']]
    rv = np.array(d.rcell.box.vects)
    lens = np.linalg.norm(rv, axis=1)
    exp = []
    for i in range(3):
        s0 = base_s[i] if base_s is not None else (1 if i == g['li'] else 2)
        if mins[i] > 0:
            k = int(np.ceil(mins[i] / lens[i] - 1e-12))
            if i != g['li'] and k % 2:
                k += 1
            s0 = max(s0, k)
        exp.append(s0)
    arg = {0: list, 1: tuple, 2: list}[case['kind']](base_s) if base_s is not None else None
    gen = d.monopole if case['genr'] == 0 else d.periodicarray
    kw = dict(amin=mins[0], bmin=mins[1], cmin=mins[2], return_base_system=True)
    if case['genr'] == 1:
        kw['linear'] = True
    fails = []
    shown = repr(arg)
    try:
        base, disl = gen(sizemults=arg, **kw)
    except TypeError as e:
        # the docstrings ask for a tuple ("sizemults : tuple, optional"); a list is what the documentation examples pass
        return [Fail(key='sizemults-%s-rejected' % type(arg).__name__, msg='%s(sizemults=%s) raised TypeError: %s' % (gen.__name__, shown, e))]
    except ValueError as e:
        if case['genr'] == 1 and ('not an integer' in str(e) or 'Deleted atom mismatch' in str(e)):
            L, nrem, misfit = array_expect(g, np.array(exp)[:, None] * rv, g_natoms(d, exp))
            if abs(nrem - round(nrem)) > 1e-6 or misfit > CUTOFF * (1 - 1e-6):
                chk.note('refusal-sizes')
                return []
        raise
    if case['kind'] == 2:
        # the caller's own list object is used for further requests with the same size multipliers: once more with
        # this generator and once with monopole().  Whether the list was modified is not judged, only whether the
        # multipliers the caller asked for are still honoured (statement: for all size multipliers).
        kwm = dict(amin=mins[0], bmin=mins[1], cmin=mins[2], return_base_system=True)
        for gen2, kw2 in ((gen, kw), (d.monopole, kwm)):
            try:
                base2, disl2 = gen2(sizemults=arg, **kw2)
            except TypeError as e:
                return [Fail(key='sizemults-list-reuse-rejected', msg='%s(sizemults=s) after %s(sizemults=s) with the same list s=%r raised TypeError: %s'
                             % (gen2.__name__, gen.__name__, base_s, e), list_now=repr(arg))]
            if np.abs(np.array(base2.box.vects) - np.array(exp)[:, None] * rv).max() > 1e-9:
                fails.append(Fail(key='sizemults-list-reuse-size', msg='%s with the re-used list built a different size' % gen2.__name__,
                                  observed=(np.linalg.norm(np.array(base2.box.vects), axis=1) / lens), expected=exp, list_now=repr(arg)))
            chk.note('list-reuse-calls')
    V = np.array(base.box.vects)
    if np.abs(V - np.array(exp)[:, None] * rv).max() > 1e-9:
        fails.append(Fail(key='size-multipliers', msg='box is not max(sizemults, even-rounded ceil(min/length)) x rcell',
                          observed=(np.linalg.norm(V, axis=1) / lens), expected=exp, mins=mins))
    count_config('sizes', disl, True)
    return fails



# --------------------------------------------------------------------------
# one live Dislocation object used for several constructions.  With the shift given explicitly in each call (index or
# vector) the configuration returned must not depend on what the object was asked before: a generator call is compared,
# array by array, with the same call on a fresh object.  (Calls WITHOUT shift arguments legitimately use the shift
# stored by the previous call -- documented -- and are therefore not part of this alphabet.)

LIVE_SYSTEMS = [1, 8, 13]      # fcc 111 edge, bcc 110 edge, hcp basal edge
LIVE_MN = [0, 3]


def live_ops(g, d):
    nsh = len(d.shifts)
    sabs = (np.array(d.shifts[0]) + 0.37 * g['mh'] + 0.05 * g['nh']).tolist()
    ops = []
    for gen_ in ('monopole', 'array'):
        for size in (0,):
            ops.append((gen_, size, 'index0', {'shiftindex': 0}))
            if nsh > 1:
                ops.append((gen_, size, 'index%d' % (nsh - 1), {'shiftindex': nsh - 1}))
            ops.append((gen_, size, 'abs', {'shift': sabs}))
    return ops


def live_call(g, d, op):
    gen_, size, name, skw = op
    if gen_ == 'monopole':
        sm = sizemults(g, SIZES_MONO[size])
        return d.monopole(sizemults=list(sm), return_base_system=True, **skw)
    sm = sizemults(g, SIZES_ARRAY[size])
    try:
        return d.periodicarray(sizemults=list(sm), return_base_system=True, **skw)
    except ValueError as e:
        return ('refused', str(e)[:60])


def same_systems(a, b):
    if isinstance(a, tuple) and a and a[0] == 'refused' or isinstance(b, tuple) and b and b[0] == 'refused':
        return a == b if (isinstance(a, tuple) and isinstance(b, tuple) and a[0] == 'refused' == b[0]) else False
    for x, y in zip(a, b):
        if x.natoms != y.natoms or np.abs(np.array(x.box.vects) - np.array(y.box.vects)).max() > 1e-12 \
                or np.abs(np.array(x.atoms.pos) - np.array(y.atoms.pos)).max() > 1e-9 \
                or not np.array_equal(np.array(x.atoms.atype), np.array(y.atoms.atype)) or tuple(x.pbc) != tuple(y.pbc):
            return False
    return True


@chk.clause('live')
def live(case):
    g = geometry(case['sys'], case['mn'])
    probe = new_disl(g)
    ops = live_ops(g, probe)
    nsh = len(probe.shifts)
    ctors = [('ctor-default', {})] + ([('ctor-index%d' % (nsh - 1), {'shiftindex': nsh - 1})] if nsh > 1 else [])
    fails = []
    fresh = {}
    for k2, op2 in enumerate(ops):
        fresh[k2] = live_call(g, new_disl(g), op2)
    for cname, ckw in ctors:
        for k1 in [None] + list(range(len(ops))):
            for k2, op2 in enumerate(ops):
                d = new_disl(g, **ckw)
                if k1 is not None:
                    live_call(g, d, ops[k1])
                got = live_call(g, d, op2)
                chk.note('live-histories')
                chk.note('constructions')
                if not same_systems(got, fresh[k2]):
                    fails.append(Fail(key='live-%s-%s-depends-on-history' % (op2[0], op2[2]),
                                      msg='%s(%s) on an object built with %s and used before for %s differs from the same call on a fresh object'
                                      % (op2[0], op2[2], cname, None if k1 is None else (ops[k1][0], ops[k1][2]))))
                    return fails
    return fails


# --------------------------------------------------------------------------
# tilted rotated cells: for these line directions no short in-plane lattice vector is perpendicular to the line, so the
# motion box vector of the rotated cell is not along m (xy != 0).  With linear=True the array carries the pure linear
# field, hence the disregistry must accumulate to EXACTLY one Burgers vector over one period along m (no elastic tail).
# (m, n) = ('y', 'z'): the line is the first box vector, the only assignment a LAMMPS-normal tilted cell admits.

TILTED = [('bcc', [.5, .5, -.5], [-4, 5, -2], [1, 2, 3], 'bcc 123 mixed'), ('bcc', [.5, .5, -.5], [1, 1, -1], [1, 2, 3], 'bcc 123 screw'),
          ('fcc', [.5, -.5, 0], [2, -5, 3], [1, 1, 1], 'fcc 111 mixed, line [2-53]')]
TILTED_SIZES = [(1, 6, 2), (1, 4, 4), (2, 8, 2)]


@chk.clause('tilted')
def tilted(case):
    name, b_uvw, xi, hkl, label = TILTED[case['sys']]
    u, C, setting = crystal(name)
    d = Dislocation(u, C, b_uvw, xi, hkl, conventional_setting=setting, m='y', n='z')
    li, mo = d.lineindex, d.motionindex
    mh, nh = np.array(d.dislsol.m), np.array(d.dislsol.n)
    fails = []
    smult = [0, 0, 0]
    smult[li], smult[mo], smult[3 - li - mo] = TILTED_SIZES[case['size']]
    try:
        base, disl = d.periodicarray(sizemults=smult, linear=True, return_base_system=True)
    except ValueError as e:
        chk.note('tilted-refused')
        return []           # documented refusal (non-integer deletion count)
    chk.note('constructions')
    V = np.array(disl.box.vects)
    vb = np.array(base.box.vects)
    tilt = abs(vb[mo] @ np.array(d.dislsol.ξ))
    if tilt > 1e-6:
        chk.note('tilted-cells')
    period = abs(vb[mo] @ mh)
    b = np.array(d.dislsol.burgers)
    bp, dp = np.array(base.atoms.pos), np.array(disl.atoms.pos)
    if len(bp) != len(dp):
        return [Fail(key='tilted-count', msg='base and array systems differ in atom count')]
    uu = dp - bp
    rel = uu @ np.linalg.inv(V)
    uu = (rel - np.rint(rel)) @ V                 # displacement modulo the array cell
    x, y = bp @ mh, bp @ nh
    ys = np.unique(np.round(y, 6))
    change = []
    for yy in (ys[ys > 0].min(), ys[ys < 0].max()):
        sel = np.abs(y - yy) < 1e-5
        order = np.argsort(x[sel])
        xs, us = x[sel][order], uu[sel][order].copy()
        for k in range(1, len(xs)):               # continuity along the plane: undo jumps by whole cell vectors
            ds = (us[k] - us[k - 1]) @ np.linalg.inv(V)
            us[k] = us[k - 1] + (ds - np.rint(ds)) @ V
        A = np.column_stack([xs, np.ones_like(xs)])
        slope = np.linalg.lstsq(A, us, rcond=None)[0][0]
        change.append(slope * period)
    acc = change[1] - change[0]
    chk.note('atoms-compared', len(bp))
    if np.linalg.norm(acc - b) > 1e-6 * np.linalg.norm(b):
        fails.append(Fail(key='tilted-disregistry-accumulation', msg='%s, linear array, sizes %s: the disregistry accumulates to %s over one period along m, '
                          'the Burgers vector is %s (|ratio| %.6f)' % (label, smult, acc.tolist(), b.tolist(), float(acc @ b / (b @ b)))))
    return fails

# --------------------------------------------------------------------------
# box-shaped boundary region of rotated cells whose two non-periodic face pairs are NOT perpendicular to each other
# (out-of-plane box vector tilted towards m): the 'stated box region' is the cell shrunk by the width measured
# perpendicular to each of the four faces

TB_SYSTEMS = [('hcp', [-1 / 3, 2 / 3, -1 / 3, 0], [-1, 2, -1, 0], [1, 0, -1, 1], 'hcp <a> screw on (10-11)'),
              ('hcp', [-1 / 3, 2 / 3, -1 / 3, 0], [-1, -1, 2, 3], [1, 0, -1, 1], 'hcp <a> mixed on (10-11), line <c+a>')] + TILTED
TB_SIZES = [(1, 8, 8), (1, 6, 10)]
TB_WIDTHS = [6.0, 10.0, 13.5]


@chk.clause('tilted-boundary')
def tilted_boundary(case):
    name, b_uvw, xi, hkl, label = TB_SYSTEMS[case['sys']]
    u, C, setting = crystal(name)
    d = Dislocation(u, C, np.array(b_uvw, float), xi, hkl, conventional_setting=setting)
    li, mo = d.lineindex, d.motionindex
    smult = [0, 0, 0]
    smult[li], smult[mo], smult[3 - li - mo] = TB_SIZES[case['size']]
    width = TB_WIDTHS[case['width']]
    shape = ['box', 'cylinder'][case['shape']]
    g = {'li': li}
    V0 = np.array(smult)[:, None] * np.array(d.rcell.box.vects)
    if not width < 0.8 * half_width(g, am.Box(vects=V0, origin=-(V0[mo] + V0[3 - li - mo]) / 2)):
        chk.note('tilted-boundary-width-too-large-not-generated')
        return []
    base, disl = d.monopole(sizemults=smult, boundaryshape=shape, boundarywidth=width, return_base_system=True)
    chk.note('constructions')
    V = np.array(base.box.vects)
    nrm = [np.cross(V[(i + 1) % 3], V[(i + 2) % 3]) for i in range(3) if i != li]
    cosang = abs(nrm[0] @ nrm[1]) / np.linalg.norm(nrm[0]) / np.linalg.norm(nrm[1])
    if cosang > 1e-6:
        chk.note('tilted-boundary-non-perpendicular-faces')
    if base.natoms != disl.natoms:
        return [Fail(key='tilted-boundary-natoms', msg='monopole changed the atom count')]
    if not width < 0.85 * half_width(g, base.box):
        return [Fail(key='tilted-boundary-harness', msg='base system box is not the centred supercell of the rotated cell')]
    dp = np.array(disl.atoms.pos)
    out, exempt, radius = region_outside(g, base.box, dp, shape, width)
    bt, dt = np.array(base.atoms.atype), np.array(disl.atoms.atype)
    nt = len(u.symbols)
    exp = bt + nt * out
    bad = (dt != exp) & ~exempt
    chk.note('boundary-atoms', int(out.sum()))
    chk.note('interior-atoms', int((~out).sum()))
    chk.note('atoms-compared', len(dp))
    fails = []
    if bad.any():
        i = int(np.argmax(bad))
        fails.append(Fail(key='tilted-boundary-types', msg='%s, sizes %s: %d atoms mistyped w.r.t. the %s region of width %g'
                          % (label, smult, int(bad.sum()), shape, width), atom=i, pos=dp[i], observed=int(dt[i]), expected=int(exp[i])))
    return fails


# --------------------------------------------------------------------------
# the same construction under another working length unit, in ONE process: every length handed to the library and every
# default length of the library is in working units, so the two constructions are the same crystal in other numbers

UNIT_LENGTHS = ['nm', 'pm']
UNIT_SYSTEMS = [('fcc', [.5, 0, -.5], [1, -2, 1], [1, 1, 1], 'fcc 111 edge', (1, 20, 10)),
                ('fcc', [.5, -.5, 0], [1, 0, -1], [1, 1, 1], 'fcc 111 60deg', (1, 16, 8)),
                ('bcc', [.5, .5, .5], [1, -2, 1], [1, 0, -1], 'bcc 10-1 edge', (1, 12, 8))]


@chk.clause('units')
def units(case):
    import atomman.unitconvert as uc
    name, b_uvw, xi, hkl, label, sizes = UNIT_SYSTEMS[case['sys']]
    lu = UNIT_LENGTHS[case['lu']]
    kind = ['array', 'array-linear', 'monopole-box'][case['kind']]
    fails = []

    def construct():
        u0, C0, setting = crystal(name)
        # the menu crystal is defined in angstrom and eV/angstrom^3: re-express it in the working units of the moment
        f = uc.set_in_units(1.0, 'angstrom')
        p = uc.set_in_units(1.0, 'eV/angstrom^3')
        u = am.System(atoms=am.Atoms(atype=np.array(u0.atoms.atype), pos=np.array(u0.atoms.pos) * f),
                      box=am.Box(vects=np.array(u0.box.vects) * f), symbols=u0.symbols)
        d = Dislocation(u, am.ElasticConstants(Cij=np.array(C0.Cij) * p), b_uvw, xi, hkl, conventional_setting=setting)
        sm = [0, 0, 0]
        sm[d.lineindex], sm[d.motionindex], sm[d.cutindex] = sizes
        if kind == 'monopole-box':
            base, disl = d.monopole(sizemults=sm, boundaryshape='box', return_base_system=True)    # default boundarywidth
        else:
            base, disl = d.periodicarray(sizemults=sm, linear=(kind == 'array-linear'), return_base_system=True)
        return (np.array(disl.atoms.pos) / f, np.array(disl.atoms.atype), np.array(disl.box.vects) / f,
                np.array(base.atoms.pos) / f, tuple(bool(x) for x in disl.pbc), np.array(disl.box.origin) / f)

    uc.reset_units(length='angstrom', mass='amu', energy='eV', charge='e')
    try:
        try:
            ref = construct()
        except ValueError:
            chk.note('units-refused-in-default-units')
            return []
        chk.note('constructions')
        uc.reset_units(length=lu, mass='amu', energy='eV', charge='e')
        try:
            got = construct()
        except ValueError as e:
            return [Fail(key='units-refused', msg='%s, %s: built under angstrom, refused under %s as working length unit: %s'
                         % (label, kind, lu, str(e)[:200]))]
        chk.note('constructions')
    finally:
        uc.reset_units(length='angstrom', mass='amu', energy='eV', charge='e')
    chk.note('atoms-compared', len(ref[0]))
    if len(got[0]) != len(ref[0]):
        return [Fail(key='units-natoms', msg='%s, %s: %d atoms under angstrom, %d under %s' % (label, kind, len(ref[0]), len(got[0]), lu))]
    if got[4] != ref[4]:
        return [Fail(key='units-pbc', msg='periodicity differs', observed=got[4], expected=ref[4])]
    pbc = ref[4]
    # the cell along the periodic directions (the extent of the box along a non-periodic direction is no part of the
    # statement; the library pads it by a length in working units)
    for i in range(3):
        if pbc[i] and not np.abs(got[2][i] - ref[2][i]).max() <= 1e-7:
            fails.append(Fail(key='units-box', msg='%s, %s: periodic box vector %d (in angstrom) differs by %.3g between the working units'
                              % (label, kind, i, np.abs(got[2][i] - ref[2][i]).max())))
    if fails:
        return fails
    # (positions are not compared across working units: the anisotropic displacement field contains ln r with r a number
    #  in working units, so the two constructions differ by a rigid translation, and which of two coinciding atoms of an
    #  array is deleted may differ; both are outside the statement.  Counts per atom type are compared for arrays, whose
    #  construction does not re-type atoms.)
    if kind != 'monopole-box' and sorted(got[1].tolist()) != sorted(ref[1].tolist()):
        fails.append(Fail(key='units-types', msg='%s, %s: atoms per type differ between the construction under angstrom and under %s' % (label, kind, lu)))
    return fails


def g_natoms(d, mult):
    return d.rcell.natoms * int(np.prod(mult))


# --------------------------------------------------------------------------

def gen():
    ns, nm = len(SYSTEMS), len(MN)
    for si in range(ns):
        for mi in range(nm):
            for sz in range(len(SIZES_MONO)):
                for c in range(len(CENTRES)):
                    yield 'monopole', {'sys': si, 'mn': mi, 'size': sz, 'centre': c}
            for sz in range(len(SIZES_BOUND)):
                for c in range(len(CENTRES)):
                    for sh in range(2):
                        for w in range(len(WIDTHS)):
                            yield 'boundary', {'sys': si, 'mn': mi, 'size': sz, 'centre': c, 'shape': sh, 'width': w}
            for sz in range(len(SIZES_ARRAY)):
                for c in range(len(CENTRES)):
                    for lin in range(2):
                        for bw in range(2):
                            yield 'array', {'sys': si, 'mn': mi, 'size': sz, 'centre': c, 'linear': lin, 'bw': bw}
            for gk in range(3):
                for c in range(len(CENTRES)):
                    for w in range(len(DISREG_W)):
                        yield 'disreg', {'sys': si, 'mn': mi, 'gen': gk, 'centre': c, 'w': w}
            if mi == 0 and si < len(TILTED):
                for sz in range(len(TILTED_SIZES)):
                    yield 'tilted', {'sys': si, 'size': sz}
            if mi == 0 and si < len(UNIT_SYSTEMS):
                for lu in range(len(UNIT_LENGTHS)):
                    for kd in range(3):
                        yield 'units', {'sys': si, 'lu': lu, 'kind': kd}
            if mi == 0 and si < len(TB_SYSTEMS):
                for sz in range(len(TB_SIZES)):
                    for w in range(len(TB_WIDTHS)):
                        for sh in range(2):
                            yield 'tilted-boundary', {'sys': si, 'size': sz, 'width': w, 'shape': sh}
            if si in LIVE_SYSTEMS and mi in LIVE_MN:
                yield 'live', {'sys': si, 'mn': mi}
            for kind in range(4):        # list, tuple, list reused, None
                for mn_ in range(len(MINS)):
                    for genr in range(2):
                        yield 'sizes', {'sys': si, 'mn': mi, 'kind': kind, 'mins': mn_, 'genr': genr}


if __name__ == '__main__':
    chk.run_cases(gen(), batch=8)
    cfg = [k for k in chk.notes if k.startswith('cfg')]
    chk.notes['distinct-configurations'] = len({k[5:] for k in cfg})
    chk.notes['distinct-nontrivial-configurations'] = len({k[5:] for k in cfg if k.startswith('cfg1:')})
    for k in cfg:
        del chk.notes[k]
    cov = {'evaluations': chk.notes.get('constructions', 0),
           'distinct_nontrivial': chk.notes.get('distinct-nontrivial-configurations', 0),
           'cases': sum(chk.counts.values())}
    sys.exit(chk.finish(cov))
